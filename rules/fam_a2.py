"""Family A (part 2): container bookkeeping, contracts, discipline rules."""
import ast
import re

from .common import (Ob, AnalysisError, call_name, dotted, kwarg, get_arg, names_in, expand, nf, nf_expanded, same,
                     contains_nf, calls_in, calls_named, method_calls_on, floor, norm_guards, loop_paths, fn_paths,
                     calls_at_node, const_value, PARAM, strip_not, KINDS, ARITY, kind_of, is_none_test, is_self_attr)


def _dynamic_attrs(repo):
    """Does class Atoms set attributes on self through setattr with computed names (attribute universe unknown)?"""
    for (m, q), fn in repo.fns.items():
        if fn.cls == "Atoms":
            for n in fn.all_nodes():
                if isinstance(n, ast.Call) and call_name(n) == "setattr" and n.args and isinstance(n.args[0], ast.Name) and n.args[0].id == "self" \
                        and len(n.args) > 1 and not isinstance(n.args[1], ast.Constant):
                    return True
    return False
from verif_sa.core import FileObj
from .common import eq_const, guard_eq
from verif_sa.dataflow import header_exprs, all_values
from verif_sa.cfg import block_always_exits

PER_ITEM_PREFIXES = ("extra_",)


def _self_attr_stores(fn):
    out = []
    for n in fn.own_nodes():
        if isinstance(n, (ast.Assign, ast.AugAssign)):
            ts = n.targets if isinstance(n, ast.Assign) else [n.target]
            for t in ts:
                for x in (t.elts if isinstance(t, ast.Tuple) else [t]):
                    if is_self_attr(x):
                        out.append((n, x.attr))
    return out


def per_atom_attrs(repo):
    """Per-atom attribute set P, derived from the consistency assertion: everything compared with
    len(self.positions) plus the extra-field array checked against atom_types."""
    fn = repo.fn("Atoms.assert_arrays_are_consistent_sizes")
    P = set()
    for n in fn.own_nodes():
        if isinstance(n, ast.Compare) and len(n.ops) == 1 and isinstance(n.ops[0], (ast.NotEq, ast.Eq)):
            sides = [n.left, n.comparators[0]]
            attrs = []
            for s in sides:
                if isinstance(s, ast.Call) and call_name(s) == "len" and s.args and is_self_attr(s.args[0]):
                    attrs.append(s.args[0].attr)
            if len(attrs) == 2 and "positions" in attrs:
                P.update(attrs)
    for c in calls_named(fn, "check_extra_fields"):
        if len(c.args) >= 3 and is_self_attr(c.args[2]) and c.args[2].attr in ("atom_types", "positions") and is_self_attr(c.args[1]):
            P.add(c.args[1].attr)
    if len(P) < 4:
        raise AnalysisError("A13: per-atom attribute set derived from the consistency assertion is too small: %s" % sorted(P))
    return P


def per_term_attrs(repo):
    """kind -> (tuples attr, types attr, extra fields attr), derived from the consistency assertion."""
    fn = repo.fn("Atoms.assert_arrays_are_consistent_sizes")
    out = {}
    for n in fn.own_nodes():
        if isinstance(n, ast.Compare) and len(n.ops) == 1 and isinstance(n.ops[0], (ast.NotEq, ast.Eq)):
            sides = [n.left, n.comparators[0]]
            attrs = []
            for s in sides:
                if isinstance(s, ast.Call) and call_name(s) == "len" and s.args and is_self_attr(s.args[0]):
                    attrs.append(s.args[0].attr)
            if len(attrs) == 2 and "positions" not in attrs:
                k = kind_of(attrs[0])
                if k and kind_of(attrs[1]) == k:
                    tup = [a for a in attrs if not a.endswith("_types")]
                    typ = [a for a in attrs if a.endswith("_types")]
                    if tup and typ:
                        out.setdefault(k, {})["tuples"] = tup[0]
                        out[k]["types"] = typ[0]
    for c in calls_named(fn, "check_extra_fields"):
        if len(c.args) >= 3 and is_self_attr(c.args[1]) and is_self_attr(c.args[2]):
            k = kind_of(c.args[1].attr)
            if k and kind_of(c.args[2].attr) == k:
                out.setdefault(k, {})["extra"] = c.args[1].attr
    for k in KINDS:
        if set(out.get(k, {})) != {"tuples", "types", "extra"}:
            raise AnalysisError("A13: consistency assertion no longer relates tuples/types/extra fields of kind %s (%s)" % (k, out.get(k)))
    return out


def A8_assertion_postdominates(repo, clause):
    obs = []
    P = per_atom_attrs(repo)
    T = per_term_attrs(repo)
    sized = set(P)
    for k in KINDS:
        sized.update(T[k].values())
    for q in ("Atoms.__init__", "Atoms.extend", "Atoms.__delitem__"):
        fn = repo.fn(q)
        cfg = fn.cfg
        asserts = [fn.stmt_of(c) for c in calls_in(fn) if isinstance(c.func, ast.Attribute)
                   and c.func.attr == "assert_arrays_are_consistent_sizes" and isinstance(c.func.value, ast.Name)
                   and c.func.value.id == "self"]
        stores = [(n, a) for (n, a) in _self_attr_stores(fn) if a in sized]
        floor("A8", "stores to sized arrays in %s" % q, len(stores), 5)
        bad = []
        for n, a in stores:
            if not any(cfg.postdominates(s, n) and s is not n for s in asserts):
                bad.append((n, a))
        obs.append(Ob("A8", clause, fn, asserts[0] if asserts else fn.node, not bad and bool(asserts),
                      "%d stores to per-atom/per-term arrays, %s post-dominated by self.assert_arrays_are_consistent_sizes()%s"
                      % (len(stores), "all" if not bad else "NOT all",
                         "" if not bad else " (e.g. self.%s at line %d)" % (bad[0][1], bad[0][0].lineno)),
                      construct="self.assert_arrays_are_consistent_sizes()", slot="postdominates-stores", positive=True))
    return obs


def A9_companion_index_lists(repo, clause):
    """np.delete(self.K_types / self.extra_K_fields, IDX): IDX's reaching definition is computed from
    self.Ks of the same kind."""
    obs = []
    T = per_term_attrs(repo)
    for q, need in (("Atoms.__delitem__", 8), ("Atoms.extend", 12)):
        fn = repo.fn(q)
        n_uses = 0
        for c in calls_named(fn, "delete"):
            if len(c.args) < 2 or not is_self_attr(c.args[0]):
                continue
            attr = c.args[0].attr
            k = kind_of(attr)
            if k is None:
                continue
            idx = c.args[1]
            if not isinstance(idx, ast.Name):
                obs.append(Ob("A9", clause, fn, c, False, "index argument of the delete is not a local name", slot="%s:%s" % (k, attr)))
                continue
            n_uses += 1
            ds = fn.rd.defs_of_use(idx)
            ok = False
            detail = "index list %s has %d reaching definitions" % (idx.id, len(ds))
            if len(ds) == 1:
                d = next(iter(ds))
                if isinstance(d, ast.Assign) and isinstance(d.value, ast.Call):
                    args_attrs = [a.attr for a in ast.walk(expand(fn, d.value)) if is_self_attr(a)]
                    src = [a for a in args_attrs if a == T[k]["tuples"]]
                    foreign = [a for a in args_attrs if kind_of(a) not in (None, k)]
                    ok = bool(src) and not foreign
                    detail = "index list %s used to delete from self.%s is computed by `%s` from %s" % (
                        idx.id, attr, ast.unparse(d.value)[:70], "self." + T[k]["tuples"] if ok else "arrays of ANOTHER kind %s" % (foreign or args_attrs))
            obs.append(Ob("A9", clause, fn, c, ok, detail, slot="%s:%s" % (k, attr)))
        floor("A9", "companion deletes in %s" % q, n_uses, need)
    return obs


def A10_descending_contract(repo, clause):
    obs = []
    callee = repo.fn("Atoms._delete_and_reindex_atom_index_array")
    if len(callee.params) < 3:
        raise AnalysisError("A10: callee signature changed")
    P = callee.params[2]
    # iterative shape: for i in P: subtract 1 where > i
    loops = [n for n in callee.own_nodes() if isinstance(n, ast.For) and isinstance(n.iter, ast.Name) and n.iter.id == P]
    iterative = False
    for lp in loops:
        lv = lp.target.id if isinstance(lp.target, ast.Name) else None
        # every deleted index shifts the entries above it, and the indices arrive in DESCENDING order: after a large index that shifts nothing come the smaller ones
        # that do - there is no index after which the rest can be skipped
        exit_tests = set()
        for b_ in [y for y in ast.walk(lp) if isinstance(y, (ast.Break, ast.Return))]:
            owner_ = next((a_ for a_ in callee.ancestors(b_) if isinstance(a_, (ast.For, ast.While))), None)
            if owner_ is not lp:
                continue
            par_ = callee.parents.get(b_)
            if isinstance(par_, ast.If):
                exit_tests.update(id(y) for y in ast.walk(par_.test))
            obs.append(Ob("A10", clause, callee, par_ if isinstance(par_, ast.If) else b_, False,
                          "the re-index loop over `%s` is left early (`%s`): the callers pass the deleted indices in DESCENDING order, so the indices that follow are SMALLER and still shift "
                          "every entry above them - the surviving terms keep stale atom numbers (skipping one index is `continue`)" % (P, ast.unparse(par_ if isinstance(par_, ast.If) else b_)[:60].replace("\n", " ")),
                          slot="reindex-visits-all", positive="robust"))
        for c_ in [y for y in ast.walk(lp) if isinstance(y, ast.If) and len(y.body) == 1 and isinstance(y.body[0], ast.Continue)]:
            exit_tests.update(id(y) for y in ast.walk(c_.test))
        for x in ast.walk(lp):
            if id(x) in exit_tests:
                continue
            if isinstance(x, ast.Compare) and len(x.ops) == 1 and lv is not None:
                names = names_in(x)
                if lv in names:
                    strict = isinstance(x.ops[0], ast.Gt) and isinstance(x.comparators[0], ast.Name) and x.comparators[0].id == lv \
                        or isinstance(x.ops[0], ast.Lt) and isinstance(x.left, ast.Name) and x.left.id == lv
                    iterative = True
                    sub1 = any(isinstance(c, ast.Call) and call_name(c) == "subtract" and len(c.args) >= 2 and const_value(c.args[1]) == 1
                               for c in ast.walk(lp)) or \
                        any(isinstance(a, ast.AugAssign) and isinstance(a.op, ast.Sub) and const_value(a.value) == 1 for a in ast.walk(lp))
                    obs.append(Ob("A10", clause, callee, x, strict and sub1,
                                  "re-index step: subtract 1 (%s) from entries strictly greater (%s) than the deleted index"
                                  % (sub1, strict), slot="reindex-step"))
    sorts_itself = any(isinstance(c, ast.Call) and call_name(c) == "sorted" and c.args and isinstance(c.args[0], ast.Name)
                       and c.args[0].id == P for c in ast.walk(callee.node))
    # contradictions with the callers' DESCENDING order do not depend on the shape of the re-index: judged first
    obs.extend(_order_beliefs(repo, clause, callee, P))
    if not iterative and not sorts_itself:
        obs.append(Ob("A10", clause, callee, callee.node, False, "_delete_and_reindex_atom_index_array no longer has the iterative re-index shape; the descending-order contract must be re-triaged",
                      construct="def %s" % callee.name, slot="reindex-shape", undecided=True))
        return obs
    # membership quantifier: a term is dropped iff ANY of its atoms is deleted
    anys = [c for c in calls_in(callee) if call_name(c) in ("any", "all") and any(
        isinstance(x, ast.Compare) and isinstance(x.ops[0], (ast.In, ast.Eq)) for x in ast.walk(c))]
    isin = [c for c in calls_in(callee) if call_name(c) in ("isin", "in1d")]
    # set form: a term is touched iff its atoms are NOT disjoint from the deleted set
    disj = [c for c in ast.walk(callee.node) if isinstance(c, ast.Call) and call_name(c) == "isdisjoint" and isinstance(c.func, ast.Attribute)]
    for c in disj:
        neg = isinstance(callee.parents.get(c), ast.UnaryOp) and isinstance(callee.parents.get(c).op, ast.Not)
        obs.append(Ob("A10", clause, callee, c, neg,
                      "a term is dropped when its atoms are %s the deleted set (`%s`)" % ("NOT disjoint from" if neg else "DISJOINT from", ast.unparse(callee.parents.get(c) if neg else c)[:50]),
                      slot="drop-quantifier", positive="robust" if not neg else False))
    if not anys and not isin and not disj:
        obs.append(Ob("A10", clause, callee, callee.node, False, "membership test of term atoms against the deleted set not found", construct="def %s" % callee.name,
                      slot="membership-shape", undecided=True))
        return obs
    # order-sensitive library calls on the index parameter
    for c in calls_in(callee):
        if call_name(c) == "searchsorted" and c.args:
            a0 = expand(callee, c.args[0])
            if any(isinstance(x, ast.Name) and x.id == P for x in ast.walk(a0)):
                obs.append(Ob("A10", clause, callee, c, not iterative,
                              "np.searchsorted needs its first argument in ASCENDING order, but the same parameter `%s` must be DESCENDING for the iterative re-index "
                              "(and every caller passes sorted(..., reverse=True)): the binary search misses deleted atoms" % P, slot="searchsorted-order", positive="robust"))
        if call_name(c) in ("isin", "in1d", "intersect1d", "setdiff1d") and const_value(kwarg(c, "assume_unique")) is True:
            obs.append(Ob("A10", clause, callee, c, False,
                          "%s(..., assume_unique=True) on the term array: atoms occur in several terms, so the array is NOT unique and numpy's sort-based "
                          "path returns wrong membership" % call_name(c), slot="assume-unique", positive="robust"))
    pm = sorted(p for p in repo.effects.mut[callee] if p == P)
    obs.append(Ob("A10", clause, callee, callee.node, not pm,
                  "the re-index helper %s its index argument `%s`; __delitem__ passes the SAME list for bonds, angles, dihedrals and impropers" % (
                      "MUTATES" if pm else "does not mutate", P), construct="def %s" % callee.name, slot="index-argument-not-mutated", positive=True))
    obs.extend(_reindex_reached(repo, clause, callee, P, loops))
    obs.extend(_row_indices_original(repo, clause, callee))
    for lp_ in loops:
        for b_ in [x for x in ast.walk(lp_) if isinstance(x, ast.Break)]:
            if any(isinstance(a_, (ast.For, ast.While)) and a_ is not lp_ and lp_ in list(callee.ancestors(a_)) for a_ in callee.ancestors(b_)):
                continue
            gs_ = [ast.unparse(t)[:50] for t, pol, k in norm_guards(callee, b_, stop=lp_)]
            obs.append(Ob("A10", clause, callee, b_, False,
                          "the re-index loop over `%s` STOPS early (break under %s): that is sound only if the remaining deleted indices are larger than the current one, "
                          "but every caller passes the list in DESCENDING order - the smaller deleted indices that follow are never applied and surviving terms keep stale atom numbers" % (P, gs_ or "no condition"),
                          slot="reindex-break", positive=True))
    for c in anys:
        obs.append(Ob("A10", clause, callee, c, call_name(c) == "any",
                      "a term is dropped when %s of its atoms is in the deleted set (must be ANY)" % call_name(c).upper(), slot="drop-quantifier"))
    sites = []
    for fn in repo.all_fns():
        for c in calls_in(fn):
            if isinstance(c.func, ast.Attribute) and c.func.attr == callee.name:
                sites.append((fn, c))
    floor("A10", "call sites of the re-index helper", len(sites), 4)
    for fn, c in sites:
        a = c.args[1] if len(c.args) >= 2 else kwarg(c, P)
        e = expand(fn, a) if a is not None else None
        ok = sorts_itself
        detail = "callee sorts its index argument itself" if sorts_itself else ""
        if not ok and isinstance(e, ast.Call) and call_name(e) == "sorted":
            rev = kwarg(e, "reverse")
            ok = isinstance(rev, ast.Constant) and rev.value is True
            detail = "index argument resolves to %s" % ast.unparse(e)
        elif not ok:
            detail = "index argument %s is not produced by sorted(..., reverse=True); the iterative re-index needs descending order" % (
                ast.unparse(e) if e is not None else "?")
        k = kind_of(ast.unparse(c.args[0])) if c.args else None
        obs.append(Ob("A10", clause, fn, c, ok, detail, slot="callsite:%s" % k))
    return obs


def A11_pop_deletes(repo, clause):
    fn = repo.fn("Atoms.pop")
    cfg = fn.cfg
    obs = []
    dels = []
    for n in fn.own_nodes():
        if isinstance(n, ast.Delete):
            bare = [t for t in n.targets if isinstance(t, ast.Name) or
                    (isinstance(t, ast.Tuple) and all(isinstance(e, ast.Name) for e in t.elts))]
            if bare:
                obs.append(Ob("A11", clause, fn, n, False,
                              "`del` of bare local names only unbinds the names %s; no atom is removed from the object"
                              % [ast.unparse(t) for t in bare], slot="bare-del", positive=True))
            for t in n.targets:
                if isinstance(t, ast.Subscript) and isinstance(t.value, ast.Name) and t.value.id == "self":
                    dels.append((n, t.slice))
        elif isinstance(n, ast.Call) and isinstance(n.func, ast.Attribute) and n.func.attr == "__delitem__" \
                and isinstance(n.func.value, ast.Name) and n.func.value.id == "self":
            dels.append((fn.stmt_of(n), n.args[0] if n.args else None))
    on_all = bool(dels) and cfg.must_pass(cfg.ENTRY, [d for d, _ in dels], cfg.EXIT)
    obs.append(Ob("A11", clause, fn, dels[0][0] if dels else fn.node, on_all,
                  "every path through pop reaches a deletion on self (%d deletion statements found)" % len(dels),
                  construct="del self[...]" if not dels else None, slot="reaches-delitem", positive=not dels or not on_all))
    # negative default index must be normalised before __delitem__ (which compares raw index values)
    dflt = fn.param_defaults()
    pos = fn.params[1] if len(fn.params) > 1 else None
    neg_default = pos is not None and pos in dflt and (const_value(dflt[pos]) or 0) < 0
    if dels and neg_default:
        di = repo.fn("Atoms.__delitem__")
        callee_norm = any(isinstance(x, ast.BinOp) and isinstance(x.op, ast.Mod) for x in ast.walk(di.node)) or \
            any(isinstance(x, ast.Call) and call_name(x) in ("arange",) for x in ast.walk(di.node))
        # a normalisation inside __delitem__ (`i % len(self)`) must read the length BEFORE the per-atom arrays are shortened
        for m_ in [x for x in di.own_nodes() if isinstance(x, ast.BinOp) and isinstance(x.op, ast.Mod) and isinstance(x.right, ast.Call) and call_name(x.right) == "len"
                   and ast.unparse(x.right.args[0]) in ("self", "self.positions")]:
            st_m = di.stmt_of(m_)
            shr = [x for x in di.own_nodes() if isinstance(x, ast.Assign) and any(is_self_attr(t, "positions") for t in x.targets)]
            stale = [x for x in shr if st_m is not None and di.cfg.reaches(x, st_m) and x is not st_m]
            obs.append(Ob("A11", clause, di, m_, not stale,
                          "negative indices are normalised with `%s` %s" % (ast.unparse(m_)[:40], "before the atoms are removed" if not stale else
                                                                            "AFTER `%s` has already shortened the per-atom arrays: the length is stale, so a negative index is mapped to the wrong atom for the term bookkeeping" % ast.unparse(stale[0])[:50]),
                          slot="normalisation-before-removal", positive="robust" if stale else False))
        from .common import eval_small, Undecidable
        import copy as _copy

        class _AbsLen(ast.NodeTransformer):
            def visit_Call(self, n):
                if call_name(n) == "len" and len(n.args) == 1 and ast.unparse(n.args[0]) in ("self", "self.positions"):
                    return ast.copy_location(ast.Name(id="N", ctx=ast.Load()), n)
                return self.generic_visit(n)
        for d, idx in dels:
            e = expand(fn, idx) if idx is not None else None
            txt = ast.unparse(e) if e is not None else ""
            # the index handed to __delitem__, evaluated for a structure of five atoms: every valid negative position must arrive as the non-negative index of the same atom
            sem_n = None
            if e is not None and not callee_norm:
                try:
                    bad = []
                    ea = _AbsLen().visit(_copy.deepcopy(e))
                    for pv in (-1, -2, -5, 0, 3):
                        got = eval_small(ea, {pos: pv, "N": 5})
                        got = got[0] if isinstance(got, tuple) and len(got) == 1 else got
                        if got != pv % 5:
                            bad.append((pv, got))
                    sem_n = (not bad, bad[:1])
                except Undecidable:
                    sem_n = None
            if sem_n is not None:
                okn, exn = sem_n
                obs.append(Ob("A11", clause, fn, d, okn,
                              "every position, negative ones included, reaches the deletion as the non-negative index of the same atom%s" % (
                                  "" if okn else ": pop(%d) on five atoms hands over %r (term re-indexing compares raw index values: the terms of the removed atom survive and the others are re-indexed wrongly)" % exn[0]),
                              slot="negative-index", positive="robust" if not okn else False))
                continue
            normalised = callee_norm or ("len(" in txt) or any(isinstance(x, ast.Call) and call_name(x) in ("range", "arange") for x in ast.walk(e))
            obs.append(Ob("A11", clause, fn, d, normalised,
                          "default index %s is negative; it is %s to a non-negative atom index before term re-indexing compares raw index values"
                          % (ast.unparse(dflt[pos]), "normalised" if normalised else "NOT normalised"), slot="negative-index",
                          positive=(not normalised) and e is not None and re.sub(r"[\[\]\s]", "", txt) == pos))
    return obs


def A12_extend_bookkeeping(repo, clause):
    fn = repo.fn("Atoms.extend")
    cfg = fn.cfg
    obs = []
    P = per_atom_attrs(repo)
    # appends: self.X = np.append(self.X, other.X[SEL] ...)
    appends = {}
    for n in fn.own_nodes():
        if isinstance(n, ast.Assign) and len(n.targets) == 1 and is_self_attr(n.targets[0]) and n.targets[0].attr in P:
            v = n.value
            if isinstance(v, ast.Call) and call_name(v) == "append" and len(v.args) >= 2 and is_self_attr(v.args[0], n.targets[0].attr):
                appends[n.targets[0].attr] = (n, v)
    missing = sorted(P - set(appends))
    obs.append(Ob("A12", clause, fn, fn.node, not missing,
                  "every per-atom array %s is appended to in extend (missing: %s)" % (sorted(P), missing or "none"),
                  construct="def extend", slot="all-per-atom-appended"))
    sels = {}
    for a, (n, v) in appends.items():
        sel = None
        for x in ast.walk(v.args[1]):
            if isinstance(x, ast.Subscript):
                s = x.slice
                if isinstance(s, ast.Tuple):
                    s = s.elts[0]
                sel = s
                break
        sels[a] = sel
    uniq = {ast.unparse(s) if s is not None else None for s in sels.values()}
    obs.append(Ob("A12", clause, fn, fn.node, len(uniq) == 1 and None not in uniq,
                  "all per-atom appends select the other's rows with the same selector %s" % sorted(map(str, uniq)),
                  construct="np.append(self.<per-atom>, other.<per-atom>[sel])", slot="same-selector", positive=not missing and len(uniq) > 1))
    selname = next(iter(uniq)) if len(uniq) == 1 else None
    # rows come from the matching attribute of other (positions<-positions etc.)
    for a, (n, v) in sorted(appends.items()):
        srcs = [x.attr for x in ast.walk(v.args[1]) if isinstance(x, ast.Attribute) and isinstance(x.value, ast.Name) and x.value.id != "self"]
        e = expand(fn, v.args[1])
        srcs_e = [x.attr for x in ast.walk(e) if isinstance(x, ast.Attribute) and isinstance(x.value, ast.Name) and x.value.id != "self"]
        ok = (a in srcs) or (a == "extra_atom_fields" and ("extra_atom_fields" in srcs_e or any("atoms" in s or "atom" in s for s in names_in(v.args[1]))))
        obs.append(Ob("A12", clause, fn, n, ok, "rows appended to self.%s come from other.%s (%s)" % (a, a, ast.unparse(v.args[1])[:60]),
                      slot="source:%s" % a))
    # offset read before any store to self.positions
    offs = []
    for n in fn.own_nodes():
        if isinstance(n, ast.Assign) and isinstance(n.value, ast.Call) and call_name(n.value) == "len" and n.value.args \
                and len(n.targets) == 1 and isinstance(n.targets[0], ast.Name):
            a0 = expand(fn, n.value.args[0])
            if is_self_attr(a0, "positions") or (isinstance(a0, ast.Name) and a0.id == "self"):
                offs.append(n)
    if len(offs) != 1:
        raise AnalysisError("A12: atom index offset (len(self.positions) read) not found uniquely in extend")
    off = offs[0]
    offname = off.targets[0].id
    pos_stores = [n for (n, a) in _self_attr_stores(fn) if a == "positions"]
    stale = any(cfg.reaches(s, off) for s in pos_stores)
    obs.append(Ob("A12", clause, fn, off, not stale and len(fn.rd.gen[off]) == 1,
                  "atom index offset is read from len(self.positions) %s the atoms are appended" % ("AFTER" if stale else "before"),
                  slot="offset-before-append"))
    # index map: {a: i + offset for i, a in enumerate(SEL)}, then .update(structure_index_map)
    maps = [n for n in fn.own_nodes() if isinstance(n, ast.Assign) and isinstance(n.value, ast.DictComp)]
    okmap = None
    for m in maps:
        dc = m.value
        g = dc.generators[0]
        if isinstance(g.iter, ast.Call) and call_name(g.iter) == "enumerate" and g.iter.args and ast.unparse(g.iter.args[0]) == selname \
                and isinstance(g.target, ast.Tuple) and len(g.target.elts) == 2:
            i, a = g.target.elts[0].id, g.target.elts[1].id
            key_ok = isinstance(dc.key, ast.Name) and dc.key.id == a
            start = kwarg(g.iter, "start") or (g.iter.args[1] if len(g.iter.args) > 1 else None)
            if start is None:
                val_ok = nf(dc.value) == nf(ast.parse("%s + %s" % (i, offname), mode="eval").body) and not g.ifs
            else:
                # enumerate(sel, start=offset): the counter itself is the row
                val_ok = isinstance(start, ast.Name) and start.id == offname and isinstance(dc.value, ast.Name) and dc.value.id == i and not g.ifs
            okmap = (m, key_ok and val_ok)
    if okmap is None:
        obs.append(Ob("A12", clause, fn, fn.node, False, "index map of appended atoms (enumerate over the selector + offset) not found",
                      construct="{a: i + offset for i, a in enumerate(sel)}", slot="index-map"))
    else:
        m, ok = okmap
        obs.append(Ob("A12", clause, fn, m, ok, "appended atom #i of the selector maps to row offset+i (key = other index, value = self index)",
                      slot="index-map"))
        mname = m.targets[0].id
        upd = [c for c in method_calls_on(fn, mname, "update")]
        # the other spelling of the overlay: merged = {**appended_map, **structure_index_map} (later entries win, as with update)
        merged = [n for n in fn.own_nodes() if isinstance(n, ast.Assign) and len(n.targets) == 1 and isinstance(n.targets[0], ast.Name) and isinstance(n.value, ast.Dict)
                  and len(n.value.keys) == 2 and all(k_ is None for k_ in n.value.keys)
                  and isinstance(n.value.values[0], ast.Name) and n.value.values[0].id == mname]
        if not upd and len(merged) == 1:
            mg = merged[0]
            ok_u = isinstance(mg.value.values[1], ast.Name) and mg.value.values[1].id == "structure_index_map" and cfg.dominates(m, mg)
            obs.append(Ob("A12", clause, fn, mg, ok_u, "the caller's identity map overlays the appended-row map ({**appended, **identity}: the later entries win)",
                          slot="identity-overlay", positive=not ok_u))
            overlay_stmt, mname = mg, mg.targets[0].id
        else:
            ok_u = len(upd) == 1 and upd[0].args and isinstance(upd[0].args[0], ast.Name) and upd[0].args[0].id == "structure_index_map" \
                and cfg.dominates(m, fn.stmt_of(upd[0]))
            obs.append(Ob("A12", clause, fn, upd[0] if upd else m, ok_u, "the caller's identity map overlays the appended-row map (update after construction)",
                          slot="identity-overlay"))
            overlay_stmt = fn.stmt_of(upd[0]) if upd else None
        # converter built from that map after the overlay
        conv = [n for n in fn.own_nodes() if isinstance(n, ast.Assign) and isinstance(n.value, ast.Call) and call_name(n.value) == "vectorize"]
        ok_c = len(conv) == 1 and ast.unparse(conv[0].value.args[0]) == "%s.get" % mname and overlay_stmt is not None and cfg.dominates(overlay_stmt, conv[0])
        obs.append(Ob("A12", clause, fn, conv[0] if conv else m, bool(ok_c), "term atom indices are converted through that merged map", slot="converter"))
        if conv:
            cname = conv[0].targets[0].id
            for k in KINDS:
                cs = [c for c in calls_named(fn, cname) if c.args and kind_of(ast.unparse(expand(fn, c.args[0]))) == k]
                a0_ = expand(fn, cs[0].args[0]) if cs else None
                ok_k = len(cs) == 1 and isinstance(a0_, ast.Attribute) and isinstance(a0_.value, ast.Name) \
                    and a0_.value.id != "self"
                obs.append(Ob("A12", clause, fn, cs[0] if cs else conv[0], ok_k,
                              "the other's %s tuples are re-targeted through the merged index map" % k, slot="convert:%s" % k,
                              undecided=not cs and any(not (c.args and kind_of(ast.unparse(c.args[0]))) for c in calls_named(fn, cname))))
    # selector = atoms of other not in the identity map
    seldef = [n for n in fn.own_nodes() if isinstance(n, ast.Assign) and len(n.targets) == 1 and isinstance(n.targets[0], ast.Name)
              and n.targets[0].id == selname]
    ok_s = False
    if len(seldef) == 1 and isinstance(seldef[0].value, ast.ListComp):
        lc = seldef[0].value
        g = lc.generators[0]
        rng = isinstance(g.iter, ast.Call) and call_name(g.iter) == "range" and len(g.iter.args) == 1 and \
            isinstance(g.iter.args[0], ast.Call) and call_name(g.iter.args[0]) == "len"
        flt = len(g.ifs) == 1 and isinstance(g.ifs[0], ast.Compare) and isinstance(g.ifs[0].ops[0], ast.NotIn) and \
            "structure_index_map" in ast.unparse(g.ifs[0].comparators[0])
        ok_s = rng and flt and isinstance(lc.elt, ast.Name) and lc.elt.id == g.target.id
    obs.append(Ob("A12", clause, fn, seldef[0] if seldef else fn.node, ok_s,
                  "selector = every atom index of other, in order, that is not a key of the identity map", slot="selector"))
    # identity-mapped atoms adopt other's type + offset and extra fields: self.atom_types[self_index] = other.atom_types[other_index] + offsets[0]
    loops = [n for n in fn.own_nodes() if isinstance(n, ast.For) and "structure_index_map" in ast.unparse(n.iter)]
    ok_i = False
    detail = "loop over the identity map not found"
    if loops and isinstance(loops[0].iter, ast.Call) and call_name(loops[0].iter) == "items" and isinstance(loops[0].target, ast.Tuple):
        ko, vs = [e.id for e in loops[0].target.elts]
        stores = [n for n in ast.walk(loops[0]) if isinstance(n, ast.Assign) and isinstance(n.targets[0], ast.Subscript)]
        good = 0
        for s in stores:
            t = s.targets[0]
            ti = t.slice.elts[0] if isinstance(t.slice, ast.Tuple) else t.slice
            lhs_self = is_self_attr(t.value) and isinstance(ti, ast.Name) and ti.id == vs
            rsub = [x for x in ast.walk(expand(fn, s.value)) if isinstance(x, ast.Subscript)]
            rhs_other = False
            for x in rsub:
                xi = x.slice.elts[0] if isinstance(x.slice, ast.Tuple) else x.slice
                if isinstance(xi, ast.Name) and xi.id == ko and not is_self_attr(x.value):
                    rhs_other = True
                if isinstance(xi, ast.Name) and xi.id == vs and not is_self_attr(x.value) and not (isinstance(x.value, ast.Name) and x.value.id == "offsets"):
                    rhs_other = False
                    break
            if lhs_self and rhs_other:
                good += 1
        ok_i = good == len(stores) and good >= 1
        detail = "%d/%d stores in the identity-map loop write self[...self index...] from other[...other index...]" % (good, len(stores))
    obs.append(Ob("A12", clause, fn, loops[0] if loops else fn.node, ok_i, detail, slot="identity-adopts"))
    # an atom declared identical stays THE STRUCTURE'S atom: it adopts the other's type and extra fields (documented), never its position, charge or group
    if loops:
        for s_ in [n for n in ast.walk(loops[0]) if isinstance(n, (ast.Assign, ast.AugAssign))]:
            for t_ in (s_.targets if isinstance(s_, ast.Assign) else [s_.target]):
                if isinstance(t_, ast.Subscript) and is_self_attr(t_.value) and t_.value.attr in ("charges", "groups", "positions"):
                    obs.append(Ob("A12", clause, fn, s_, False,
                                  "`%s` overwrites self.%s of an atom that is declared IDENTICAL to an existing atom: such atoms keep their own position, charge and group "
                                  "(replacing a pattern by itself would otherwise wipe the structure's charges / molecule ids with the pattern's)" % (ast.unparse(s_)[:70], t_.value.attr),
                                  slot="identity-keeps:%s" % t_.value.attr, positive="robust"))
    # ... and they do so for EVERY identical atom: no path through the loop body skips a store, except the extra-field store when
    # there are no extra fields at all
    if loops:
        for s_ in [n for n in ast.walk(loops[0]) if isinstance(n, ast.Assign) and isinstance(n.targets[0], ast.Subscript) and is_self_attr(n.targets[0].value)]:
            attr = n_attr = s_.targets[0].value.attr
            extra = []
            for t, pol, k in norm_guards(fn, s_, stop=loops[0]):
                if isinstance(t, ast.Name):
                    # a flag computed once before the loop (`has_fields = self.extra_atom_fields.size > 0`): judge the test it stands for -
                    # unless the attribute it reads is re-bound between the flag and the loop (then the flag is STALE: the padded columns are not seen)
                    from verif_sa.dataflow import _attr_rebound_between
                    uv_ = fn.rd.unique_value(t)
                    if uv_ is not None and _attr_rebound_between(fn, uv_[0], fn.stmt_of(t), uv_[1]):
                        read_attrs = sorted({x.attr for x in ast.walk(uv_[1]) if is_self_attr(x)})
                        obs.append(Ob("A12", clause, fn, uv_[0], False,
                                      "the flag `%s` is computed from self.%s BEFORE a statement that re-binds that attribute (the padding with the other structure's columns): "
                                      "the identity-map loop tests a stale value and skips the adoption of the other atom's extra fields" % (t.id, "/".join(read_attrs)),
                                      slot="identity-flag-stale", positive=True))
                    t_e = expand(fn, t)
                    if t_e is not t and not isinstance(t_e, ast.Name):
                        t, pol = strip_not(t_e, pol)
                txt = ast.unparse(t)
                size_test = ("extra_atom_fields" in txt and (".size" in txt or "len(" in txt or ".shape" in txt)) and attr == "extra_atom_fields"
                if size_test:
                    # it must really be the NON-EMPTINESS test taken positively: size > 0 / size != 0 / size >= 1 (or the negation of size == 0)
                    nonempty = None
                    if isinstance(t, ast.Compare) and len(t.ops) == 1:
                        c0 = const_value(t.comparators[0])
                        op_ = type(t.ops[0])
                        if c0 == 0 and op_ in (ast.Gt, ast.NotEq, ast.GtE):     # `>= 0` is always true: it never skips the store
                            nonempty = True
                        elif c0 == 1 and op_ is ast.GtE:
                            nonempty = True
                        elif c0 == 0 and op_ in (ast.Eq, ast.LtE):
                            nonempty = False
                        elif c0 == 1 and op_ is ast.Lt:
                            nonempty = False
                    elif isinstance(t, (ast.Attribute, ast.Call)):
                        nonempty = True
                    if nonempty is None or nonempty != bool(pol):
                        size_test = False
                # skipping a store because the target already holds the value is a no-op
                same_value = False
                e_ = eq_const(t) if False else None
                if isinstance(t, ast.Compare) and len(t.ops) == 1 and isinstance(t.ops[0], (ast.Eq, ast.NotEq)):
                    sides = {ast.unparse(expand(fn, t.left)), ast.unparse(expand(fn, t.comparators[0]))}
                    want_ = {ast.unparse(expand(fn, s_.targets[0])), ast.unparse(expand(fn, s_.value))}
                    store_when_equal = (isinstance(t.ops[0], ast.Eq)) == bool(pol)
                    same_value = sides == want_ and not store_when_equal
                if not size_test and not same_value:
                    extra.append((t, pol, k))
            obs.append(Ob("A12", clause, fn, s_, not extra,
                          "identical atoms: the store into self.%s is executed for every entry of the identity map%s" % (
                              attr, "" if not extra else " -- NOT when `%s` is %s (%s): that atom keeps its old %s although it is now the other structure's atom" % (
                                  ast.unparse(extra[0][0])[:60], extra[0][1], extra[0][2], "extra fields" if "extra" in attr else "type")),
                          slot="identity-unconditional:%s" % attr, positive=bool(extra)))
    return obs


def A13_exhaustive_per_atom(repo, clause, part="all"):
    obs = []
    P = per_atom_attrs(repo)
    if part in ("all", "delitem"):
        fn = repo.fn("Atoms.__delitem__")
        idxp = fn.params[1]
        seen = {}
        for n in fn.own_nodes():
            if isinstance(n, ast.Assign) and len(n.targets) == 1 and is_self_attr(n.targets[0]) and n.targets[0].attr in P:
                v = n.value
                a = n.targets[0].attr
                if isinstance(v, ast.Call) and call_name(v) == "delete" and len(v.args) >= 2 and is_self_attr(v.args[0], a):
                    ax = kwarg(v, "axis") if kwarg(v, "axis") is not None else (v.args[2] if len(v.args) > 2 else None)
                    same_idx = isinstance(v.args[1], ast.Name) and v.args[1].id == idxp
                    seen[a] = (n, same_idx and const_value(ax) == 0)
        for a in sorted(P):
            n, ok = seen.get(a, (None, False))
            others_recognised = sum(1 for b in P if b != a and seen.get(b, (None, False))[1])
            obs.append(Ob("A13", clause, fn, n if n is not None else fn.node, ok,
                          "per-atom array self.%s: rows of the deleted indices are removed (np.delete(self.%s, %s, axis=0))%s"
                          % (a, a, idxp, "" if ok else " -- MISSING or different index/axis"),
                          construct=None if n is not None else "self.%s" % a, slot="delitem:%s" % a,
                          positive=(not ok) and others_recognised >= 3))
    if part in ("all", "getitem"):
        fn = repo.fn("Atoms.__getitem__")
        ext = repo.fn("Atoms.extend_types")
        tables = []
        for n in ext.own_nodes():
            if isinstance(n, ast.Assign) and len(n.targets) == 1 and is_self_attr(n.targets[0]) and kind_of(n.targets[0].attr) is None:
                if isinstance(n.value, ast.Call) and call_name(n.value) == "append":
                    tables.append(n.targets[0].attr)
        floor("A13", "atom-type tables merged by extend_types", len(tables), 4)
        ctor = [c for c in calls_in(fn) if call_name(c) in ("Atoms", "cls", "type") or (isinstance(c.func, ast.Attribute) and c.func.attr == "__class__")]
        ctor = [c for c in calls_in(fn) if isinstance(c.func, ast.Name) and c.func.id == "Atoms"] or ctor
        if len(ctor) != 1:
            raise AnalysisError("A13: constructor call in __getitem__ not found")
        c = ctor[0]
        for t in tables:
            a = kwarg(c, t)
            ok = a is not None and is_self_attr(a, t)
            obs.append(Ob("A13", clause, fn, c, ok,
                          "subset keeps type-level table %s (%s)" % (t, "forwarded" if ok else "DROPPED: type ids of the subset lose their %s" % t),
                          construct="Atoms(..., %s=self.%s)" % (t, t), slot="getitem:%s" % t,
                          positive=not any(k.arg is None for k in c.keywords)))
        for p in sorted(P - {"extra_atom_fields"}):
            a = kwarg(c, p)
            ok = a is not None and isinstance(a, ast.Call) and call_name(a) == "take" and a.args and is_self_attr(a.args[0], p)
            obs.append(Ob("A13", clause, fn, c, ok, "subset takes rows of per-atom array %s with the index" % p,
                          construct="Atoms(..., %s=np.take(self.%s, idx))" % (p, p), slot="getitem-rows:%s" % p))
        a = kwarg(c, "cell")
        ok = a is not None and is_self_attr(a, "cell")
        obs.append(Ob("A13", clause, fn, c, ok,
                      "subset keeps the unit cell (%s)" % ("forwarded" if ok else "DROPPED: the subset is no longer periodic, searches and wraps on it ignore the lattice"),
                      construct="Atoms(..., cell=self.cell)", slot="getitem:cell", positive=not any(k.arg is None for k in c.keywords)))
    return obs


RANDOM_TABLE = {
    # (function, callee dotted) -> reason
    ("find_pattern_in_structure", "random.choice"): "tie-break among already accepted symmetric orderings of one atom group",
    ("quaternion_from_two_vectors", "np.random.random"): "arbitrary perpendicular axis in the (anti)parallel case",
    ("replace_pattern_in_structure", "random.sample"): "selection of round(f*n) matches when replace_fraction < 1",
    ("remove_duplicates", "random.choice"): "pick_random option (not used by the main path)",
}


def A14_randomness_sites(repo, clause):
    obs = []
    n = 0
    for fn in repo.all_fns():
        if fn.module.name not in ("mofun.mofun", "mofun.helpers", "mofun.atoms"):
            continue
        for c in calls_in(fn):
            d = dotted(c.func)
            if d is None:
                continue
            root = d.split(".")[0]
            imp = fn.module.imports.get(root)
            is_rand = (imp is not None and imp[0] == "random") or ".random." in "." + d or d.startswith("random.")
            if imp is not None and imp[0] == "numpy" and ".random." not in "." + d:
                is_rand = False
            if not is_rand:
                continue
            n += 1
            top = fn
            while top.outer is not None:
                top = top.outer
            reason = RANDOM_TABLE.get((top.qualname, d))
            ok = reason is not None
            detail = reason or "randomness call site not in the confirmed table: results may depend on the generator state beyond the documented choices"
            if ok:
                ok, extra = _random_site_constraint(repo, fn, c, d)
                detail += "; " + extra
            obs.append(Ob("A14", clause, fn, c, ok, detail, slot="%s:%s" % (top.qualname, d), positive=reason is None))
    floor("A14", "randomness call sites", n, 3)
    obs.extend(_degenerate_axis_fallback(repo, clause))
    return obs


def A14b_fallback_axis(repo, clause):
    return _degenerate_axis_fallback(repo, clause)


def _degenerate_axis_fallback(repo, clause):
    """The (anti)parallel case of quaternion_from_two_vectors: cross(v1, v2) vanishes and a perpendicular axis must be
    made up.  Three obligations: (1) the case is detected with a *tolerance* on the cross product (an antiparallel pair
    built by rotations is antiparallel only up to rounding noise); (2) the parallel case is excluded by a test on the
    angle that does not rely on exact equality with pi; (3) the replacement axis is cross(v1, helper) with a random or
    input-dependent helper - a constant helper, or any fixed *linear* construction from the components of v1 (which is
    w x v1 for a fixed w), vanishes for inputs along some direction."""
    fn = repo.fn("quaternion_from_two_vectors")
    obs = []
    # the axis variable: assigned from cross(a, b) at top level of the function
    top = [n for n in fn.node.body if isinstance(n, ast.Assign) and isinstance(n.value, ast.Call) and call_name(n.value) == "cross"
           and len(n.targets) == 1 and isinstance(n.targets[0], ast.Name)]
    if len(top) != 1:
        raise AnalysisError("A14: rotation axis (cross product of the two unit vectors) not found in quaternion_from_two_vectors")
    axis = top[0].targets[0].id
    v1 = ast.unparse(top[0].value.args[0]) if top[0].value.args else None
    sites = [n for n in fn.own_nodes() if isinstance(n, ast.Assign) and len(n.targets) == 1 and isinstance(n.targets[0], ast.Name)
             and n.targets[0].id == axis and n is not top[0] and isinstance(fn.parents.get(n), ast.If)]
    if len(sites) != 1:
        raise AnalysisError("A14: fallback axis construction for the (anti)parallel case not found in quaternion_from_two_vectors")
    n = sites[0]
    ifst = fn.parents.get(n)
    test = expand(fn, ifst.test, stop_names=(axis,))
    conj = test.values if isinstance(test, ast.BoolOp) and isinstance(test.op, ast.And) else [test]

    def mentions(e, name):
        return any(isinstance(x, ast.Name) and x.id == name for x in ast.walk(e))

    # (1) tolerance on the cross product
    axis_tests = [c for c in conj if mentions(c, axis)]
    tol_ok = exact = None
    for c in axis_tests:
        calls = [x for x in ast.walk(c) if isinstance(x, ast.Call)]
        if any(call_name(x) in ("isclose", "allclose") for x in calls):
            tol_ok = c
        elif any(isinstance(x, ast.Compare) and isinstance(x.ops[0], (ast.Lt, ast.LtE)) and any(call_name(y) == "norm" for y in ast.walk(x) if isinstance(y, ast.Call))
                 for x in ast.walk(c)):
            tol_ok = c
        elif any(call_name(x) in ("any", "all", "count_nonzero", "array_equal") for x in calls) or \
                any(isinstance(x, ast.Compare) and isinstance(x.ops[0], (ast.Eq, ast.NotEq)) for x in ast.walk(c)):
            exact = c
    ok1 = tol_ok is not None and exact is None
    obs.append(Ob("A14", clause, fn, ifst, ok1,
                  "degenerate-axis case detected by %s" % (
                      "`%s` (tolerance on the cross product)" % ast.unparse(tol_ok)[:60] if ok1 else
                      ("the EXACT zero test `%s`: vectors that are antiparallel only up to rounding noise (built by rotate/translate/wrap) are not detected and the noise is used as the rotation axis" % ast.unparse(exact)[:50]
                       if exact is not None else "no recognised test of the cross product")),
                  construct=ifst.test, slot="fallback-axis-detection", positive=exact is not None, undecided=exact is None))
    # (2) exclusion of the parallel case
    ang = [c for c in conj if not mentions(c, axis)]
    ok2 = False
    pos2 = False
    d2 = "no test separating antiparallel from parallel"
    for c in ang:
        c0, pol = c, True
        while isinstance(c0, ast.UnaryOp) and isinstance(c0.op, ast.Not):
            c0, pol = c0.operand, not pol
        if isinstance(c0, ast.Compare) and len(c0.ops) == 1:
            op = type(c0.ops[0])
            sides = [c0.left, c0.comparators[0]]
            zero = any(const_value(x) == 0 for x in sides)
            pi = any("pi" in ast.unparse(x) for x in sides)
            if zero and ((op is ast.NotEq and pol) or (op is ast.Eq and not pol) or op in (ast.Gt, ast.Lt, ast.GtE, ast.LtE)):
                ok2, d2 = True, "`%s` (the parallel case, angle 0, is excluded)" % ast.unparse(c)
            elif pi and ((op is ast.Eq and pol) or (op is ast.NotEq and not pol)):
                ok2, pos2 = False, True
                d2 = "`%s`: EXACT equality of an arccos result with pi - a dot product of -0.9999999999999999 gives an angle just below pi, the fallback is skipped and the rotation collapses to the identity" % ast.unparse(c)
            elif op in (ast.Gt, ast.GtE, ast.Lt, ast.LtE):
                ok2, d2 = True, "`%s` (threshold test)" % ast.unparse(c)
    obs.append(Ob("A14", clause, fn, ifst, ok2, "antiparallel case selected by %s" % d2, construct=ifst.test, slot="fallback-axis-angle-test", positive=pos2, undecided=not pos2))
    # (3) the replacement axis
    val = expand(fn, n.value)

    def is_const_vec(e):
        if isinstance(e, ast.Call) and call_name(e) in ("array", "asarray") and e.args:
            e = e.args[0]
        return isinstance(e, (ast.List, ast.Tuple)) and all(const_value(x) is not None for x in e.elts)

    def linear_in_input(e):
        if isinstance(e, ast.Call) and call_name(e) in ("array", "asarray") and e.args:
            e = e.args[0]
        if not isinstance(e, (ast.List, ast.Tuple)) or len(e.elts) != 3:
            return False
        for x in e.elts:
            while isinstance(x, ast.UnaryOp) and isinstance(x.op, (ast.USub, ast.UAdd)):
                x = x.operand
            if const_value(x) is not None:
                continue
            if isinstance(x, ast.BinOp) and isinstance(x.op, ast.Mult):
                parts = [y for y in (x.left, x.right) if const_value(y) is None]
                if len(parts) != 1:
                    return False
                x = parts[0]
            if isinstance(x, ast.Subscript) and const_value(x.slice) is not None:
                continue
            return False
        return True

    consts, rnd, lin = [], False, False
    if isinstance(val, ast.Call) and call_name(val) == "cross":
        args = [expand(fn, a_) for a_ in val.args]
        consts = [a_ for a_ in args if is_const_vec(a_)]
        rnd = any("random" in ast.unparse(a_) for a_ in args)
        # a helper that is a deterministic, branch-free (continuous) function of the input alone: cross(v, f(v)) is a continuous tangent field on the
        # sphere and vanishes for some direction (hairy-ball theorem; for linear f: along a real eigenvector of f)
        case_split = any(isinstance(y, (ast.IfExp, ast.Compare)) or (isinstance(y, ast.Call) and call_name(y) in ("argmin", "argmax", "where", "argsort", "choice")) for a_ in args for y in ast.walk(a_))
        raw_args = list(n.value.args) if isinstance(n.value, ast.Call) else []
        others = [a_ for a_ in raw_args if ast.unparse(a_) != v1 and not is_const_vec(a_)]
        lin = (not rnd) and (not consts) and (not case_split) and bool(others) and all(
            all((not isinstance(y, ast.Name)) or y.id in (v1, "np", "numpy") for y in ast.walk(o_)) for o_ in others)
        ok3 = not consts and not lin
        # a case split that picks a coordinate axis by arg-min / arg-max of the input's components: only the axis of the smallest ABSOLUTE component is safely non-parallel
        bad_pick = None
        if not rnd:
            for a_ in args:
                for y in ast.walk(a_):
                    if isinstance(y, ast.Call) and call_name(y) in ("argmin", "argmax") and (y.args or isinstance(y.func, ast.Attribute)):
                        operand = y.args[0] if y.args else y.func.value
                        has_abs = any(isinstance(z, ast.Call) and call_name(z) in ("abs", "absolute", "fabs", "square") for z in ast.walk(operand)) or \
                            any(isinstance(z, ast.BinOp) and isinstance(z.op, ast.Pow) for z in ast.walk(operand))
                        if call_name(y) == "argmin" and not has_abs:
                            bad_pick = "`%s` takes the most NEGATIVE component, not the smallest in magnitude: for an input along -x (or -y, -z) that is the component along the input itself, the picked axis is parallel to it and the cross product vanishes" % ast.unparse(y)[:40]
                        elif call_name(y) == "argmax":
                            bad_pick = "`%s` picks the axis the input is MOST aligned with: for an input along a coordinate axis the helper is parallel to it and the cross product vanishes" % ast.unparse(y)[:40]
        if bad_pick:
            ok3 = False
        kind = bad_pick if bad_pick else "random (never parallel to the input, almost surely)" if rnd else (
            "a CONSTANT vector: inputs along it give a zero axis and a degenerate rotation, so occurrences in that pose are lost" if consts else (
                "a deterministic, branch-free function of the input alone: cross(v, f(v)) is a continuous tangent field on the sphere and therefore ZERO for some direction (e.g. along an eigenvector of f); poses along that direction are lost" if lin else "input-dependent with a case split"))
        d3 = "fallback axis = %s: helper is %s" % (ast.unparse(n.value)[:70], kind)
    else:
        lin = linear_in_input(val)
        ok3 = False
        d3 = "fallback axis = %s: %s" % (ast.unparse(n.value)[:70],
                                         "a FIXED LINEAR construction from the components of the input (it equals w x v for one fixed w): it is the zero vector for inputs along w, the rotation degenerates and occurrences in that pose are lost"
                                         if lin else "not a cross product with a helper vector")
    bad_pick_ = locals().get("bad_pick")
    obs.append(Ob("A14", clause, fn, n, ok3, d3, slot="fallback-axis-helper", positive="robust" if bad_pick_ else (bool(consts) or lin), undecided=not (bool(consts) or lin or bool(bad_pick_))))
    return obs


def _random_site_constraint(repo, fn, c, d):
    q = fn.qualname
    if q == "find_pattern_in_structure":
        a = c.args[0] if c.args else None
        if not isinstance(a, ast.Name):
            return False, "argument is not the per-group accepted list"
        inits = [n for n in fn.own_nodes() if isinstance(n, ast.Assign) and any(isinstance(t, ast.Name) and t.id == a.id for t in n.targets)]
        loops_c = [x for x in fn.ancestors(c) if isinstance(x, ast.For)]
        ok = bool(inits) and bool(loops_c) and all(loops_c[-1] in list(fn.ancestors(i)) or loops_c[0] in list(fn.ancestors(i)) for i in inits)
        return ok, "argument %s is initialised inside the group loop (local to one atom group)=%s" % (a.id, ok)
    if q == "quaternion_from_two_vectors":
        gs = norm_guards(fn, c)
        # the degenerate-axis test in any spelling: np.isclose(axis, 0).all(), np.allclose(axis, 0), norm(axis) < tol (its tolerance is judged by A14b)
        def _degenerate_test(t):
            return any(isinstance(x, ast.Call) and call_name(x) in ("isclose", "allclose") for x in ast.walk(t)) or \
                (isinstance(t, ast.Compare) and len(t.ops) == 1 and isinstance(t.ops[0], (ast.Lt, ast.LtE)) and
                 any(isinstance(x, ast.Call) and call_name(x) == "norm" for x in ast.walk(t.left)))
        ok = any(pol and _degenerate_test(t) for t, pol, k in gs)
        return ok, "used only under the degenerate-axis test=%s" % ok
    if q == "replace_pattern_in_structure":
        gs = norm_guards(fn, c)
        ok_g = any(pol and isinstance(t, ast.Compare) and "replace_fraction" in ast.unparse(t) and isinstance(t.ops[0], ast.Lt)
                   and const_value(t.comparators[0]) == 1 for t, pol, k in gs)
        k = kwarg(c, "k") or (c.args[1] if len(c.args) > 1 else None)
        pop = c.args[0] if c.args else None
        ok_k = False
        ok_p = False
        if k is not None and pop is not None:
            ke = expand(fn, k)
            if isinstance(ke, ast.Call) and call_name(ke) == "round" and len(ke.args) == 1 and isinstance(ke.args[0], ast.BinOp) \
                    and isinstance(ke.args[0].op, ast.Mult):
                parts = [ke.args[0].left, ke.args[0].right]
                frac = [p for p in parts if isinstance(p, ast.Name) and p.id == "replace_fraction"]
                lens = [p for p in parts if isinstance(p, ast.Call) and call_name(p) == "len"]
                pe = expand(fn, pop)
                plen = [x for x in ast.walk(pe) if isinstance(x, ast.Call) and call_name(x) == "len"]
                ok_k = len(frac) == 1 and len(lens) == 1
                ok_p = ok_k and bool(plen) and _same_match_list(fn, lens[0].args[0], plen[0].args[0]) and \
                    any(isinstance(x, ast.Call) and call_name(x) == "range" for x in ast.walk(pe))
        ok = ok_g and ok_k and ok_p
        return ok, "under replace_fraction < 1=%s, k=round(fraction*len(matches))=%s, population=range(len(matches)) of the same match list=%s" % (ok_g, ok_k, ok_p)
    if q == "remove_duplicates":
        gs = norm_guards(fn, c)
        ok = any(pol and isinstance(t, ast.Name) and t.id == "pick_random" for t, pol, k in gs)
        return ok, "only under pick_random=%s" % ok
    return True, ""


def _same_match_list(fn, a, b):
    """Both names are results of the same search call (parallel lists) or the same name."""
    if ast.unparse(a) == ast.unparse(b):
        return True
    if isinstance(a, ast.Name) and isinstance(b, ast.Name):
        da, db = fn.rd.defs_of_use(a), fn.rd.defs_of_use(b)
        return len(da) == 1 and da == db
    return False


def A15_none_tests(repo, clause, funcs=("find_pattern_in_structure", "replace_pattern_in_structure")):
    """Parameters with default None that are used as subscripts must be tested with `is None`."""
    obs = []
    n_tests = 0
    for q in funcs:
        fn = repo.fn(q)
        dflt = fn.param_defaults()
        for p, d in dflt.items():
            if not (isinstance(d, ast.Constant) and d.value is None):
                continue
            used_as_index = False
            for n in fn.all_nodes():
                if isinstance(n, ast.Subscript):
                    if any(isinstance(x, ast.Name) and x.id == p for x in ast.walk(n.slice)):
                        used_as_index = True
            if not used_as_index:
                continue
            for n in fn.all_nodes():
                if isinstance(n, ast.Name) and n.id == p and isinstance(n.ctx, ast.Load):
                    par = fn.parents.get(n)
                    truthy = None
                    if isinstance(par, ast.BoolOp):
                        truthy = "operand of `%s`" % ("or" if isinstance(par.op, ast.Or) else "and")
                    elif isinstance(par, ast.UnaryOp) and isinstance(par.op, ast.Not):
                        truthy = "operand of `not`"
                    elif isinstance(par, (ast.If, ast.While, ast.IfExp)) and par.test is n:
                        truthy = "bare truth test"
                    elif isinstance(par, ast.Compare) and is_none_test(par, p):
                        n_tests += 1
                        obs.append(Ob("A15", clause, fn, par, True, "optional index %s is tested with `%s`" % (p, ast.unparse(par)),
                                      slot="%s:%s" % (p, ast.unparse(par))))
                    if truthy:
                        obs.append(Ob("A15", clause, fn, fn.stmt_of(n), False,
                                      "optional index parameter %s is used as %s: index 0 is falsy and is treated as 'not given'" % (p, truthy),
                                      slot="%s:truthiness" % p, positive=True))
    floor("A15", "`is None` tests on optional index parameters", n_tests, 4)
    return obs


def A16_zip_star_guard(repo, clause, funcs=("Atoms.load_cml",)):
    obs = []
    exempt = {("Atoms.load_cml", "atom"): "a CML molecule in the property's domain has at least one atom"}
    for q in funcs:
        fn = repo.fn(q)
        for n in fn.own_nodes():
            if isinstance(n, ast.Assign) and isinstance(n.targets[0], (ast.Tuple, ast.List)) and isinstance(n.value, ast.Call) \
                    and call_name(n.value) == "zip" and any(isinstance(a, ast.Starred) for a in n.value.args):
                src = ast.unparse(n.value.args[0].value)
                guarded = any(src.split("[")[0] in ast.unparse(t) for t, pol, k in norm_guards(fn, n))
                tag = "atom" if "atom" in src else ("bond" if "bond" in src else src)
                ex = exempt.get((q, tag))
                ok = guarded or ex is not None
                obs.append(Ob("A16", clause, fn, n, ok,
                              "`a, b, ... = zip(*%s)` raises ValueError when %s is empty; %s" % (
                                  src, src, "guarded" if guarded else ("exempt: " + ex if ex else "NOT guarded and empty input is inside the property's domain")),
                              slot="unpack-zip:%s" % tag, positive=True))
    # bonds must be resolved through the id map
    fn = repo.fn("Atoms.load_cml")
    return obs


def A17_mass_guess(repo, clause):
    obs = []
    outer = repo.fn("guess_elements_from_masses")
    cands = [f for f in repo.all_fns() if f.outer is outer] or [outer]
    fe = cands[0] if cands[0] is not outer else outer
    tolname = "max_delta"
    if tolname not in outer.params:
        raise AnalysisError("A17: tolerance parameter max_delta vanished")
    # tolerance tests
    tests = []
    for f in [outer] + [c for c in cands if c is not outer]:
        for r_ in [x for x in f.own_nodes() if isinstance(x, ast.Return) and x.value is not None]:
            for t, pol, k in norm_guards(f, r_):
                for n in ast.walk(t):
                    if isinstance(n, ast.Compare) and any(isinstance(x, ast.Name) and x.id == tolname for x in ast.walk(n)) \
                            and not any(isinstance(x, ast.Call) and call_name(x) in ("isclose", "allclose") for x in ast.walk(n)):
                        if all(n is not t2 for _, t2 in tests):
                            tests.append((f, n))
                    elif isinstance(n, ast.Call) and call_name(n) in ("isclose", "allclose") and any(isinstance(x, ast.Name) and x.id == tolname for x in ast.walk(n)):
                        if all(n is not t2 for _, t2 in tests):
                            tests.append((f, n))
    for f in [outer] + [c for c in cands if c is not outer]:
        for comp in [x for x in f.own_nodes() if isinstance(x, ast.comprehension)]:
            for cond in comp.ifs:
                for n in ast.walk(cond):
                    if isinstance(n, ast.Compare) and any(isinstance(x, ast.Name) and x.id == tolname for x in ast.walk(n)) \
                            and not any(isinstance(x, ast.Call) and call_name(x) in ("isclose", "allclose") for x in ast.walk(n)):
                        if all(n is not t2 for _, t2 in tests):
                            tests.append((f, n))
                    elif isinstance(n, ast.Call) and call_name(n) in ("isclose", "allclose") and any(isinstance(x, ast.Name) and x.id == tolname for x in ast.walk(n)):
                        if all(n is not t2 for _, t2 in tests):
                            tests.append((f, n))
    floor("A17", "tolerance tests", len(tests), 1)
    for f, t in tests:
        two_sided, why = _two_sided(t, tolname, f)
        obs.append(Ob("A17", clause, f, t, two_sided, why, slot="two-sided", positive=True))
    # nearest vs first hit
    first_hit = []
    nearest = []
    scan_loops = []
    for f in [outer] + [c for c in cands if c is not outer]:
        for n in f.own_nodes():
            if isinstance(n, ast.Return) and any(isinstance(a, ast.For) for a in f.ancestors(n)):
                gs = norm_guards(f, n)
                if any(tolname in ast.unparse(t) for t, p, k in gs):
                    first_hit.append((f, n))
            if isinstance(n, ast.Return) and n.value is not None:
                # `return hits[0]` / `return next(...)` where hits is the table FILTERED by the tolerance (in table order): the first qualifying entry
                try:
                    rv_ = expand(f, n.value)
                except Exception:
                    rv_ = n.value
                sel_ = None
                if isinstance(rv_, ast.Subscript) and const_value(rv_.slice) == 0:
                    try:
                        sel_ = expand(f, rv_.value)
                    except Exception:
                        sel_ = rv_.value
                elif isinstance(rv_, ast.Call) and call_name(rv_) == "next" and rv_.args:
                    try:
                        sel_ = expand(f, rv_.args[0])
                    except Exception:
                        sel_ = rv_.args[0]
                if isinstance(sel_, (ast.ListComp, ast.GeneratorExp)) and any(tolname in ast.unparse(c_) for g_ in sel_.generators for c_ in g_.ifs) \
                        and not any(isinstance(y_, ast.Call) and call_name(y_) in ("sorted", "min", "argmin") for y_ in ast.walk(sel_)) and (f, n) not in first_hit:
                    first_hit.append((f, n))
                    for g_ in sel_.generators:
                        for c_ in g_.ifs:
                            for y_ in ast.walk(c_):
                                if isinstance(y_, ast.Compare) and tolname in ast.unparse(y_) and all(y_ is not t2 for _, t2 in tests):
                                    tests.append((f, y_))
                                    obs.append(Ob("A17", clause, f, y_, *_two_sided(y_, tolname, f), slot="two-sided", positive=True))
            if isinstance(n, ast.Call) and call_name(n) in ("min", "argmin", "sorted", "nsmallest"):
                nearest.append((f, n))
            if isinstance(n, ast.For) and "ATOMIC_MASSES" in ast.unparse(n.iter):
                scan_loops.append((f, n))
    # vectorised first hit: argmax / nonzero()[0] / flatnonzero()[0] over the boolean matrix `abs(table - mass) < tolerance` picks the FIRST entry within tolerance
    mask_first = []
    for f in [outer] + [c for c in cands if c is not outer]:
        for n in f.own_nodes():
            if isinstance(n, ast.Call) and call_name(n) == "argmax" and not nearest:
                recv = n.func.value if isinstance(n.func, ast.Attribute) and not (isinstance(n.func.value, ast.Name) and n.func.value.id in ("np", "numpy")) else (n.args[0] if n.args else None)
                if recv is None:
                    continue
                try:
                    rv = expand(f, recv)
                except Exception:
                    rv = recv
                if isinstance(rv, ast.Compare) and any(isinstance(x, ast.Name) and x.id == tolname for x in ast.walk(rv)):
                    mask_first.append((f, n, rv))
    for f, n, rv in mask_first:
        obs.append(Ob("A17", clause, f, n, False,
                      "`%s` takes the position of the first True of the boolean matrix `%s`: the FIRST table entry within the tolerance, not the nearest one "
                      "(two entries can both be within tolerance)" % (ast.unparse(n)[:40], ast.unparse(rv)[:50]), slot="nearest", positive="robust"))
    for f, n in first_hit:
        obs.append(Ob("A17", clause, f, n, False,
                      "the scan returns the first table entry that passes the tolerance test, not the nearest one "
                      "(two entries can both be within tolerance)", slot="nearest", positive=True))
    # the scan must cover the whole table: an early `break` is only sound if the table is ordered by mass, which it is not
    for f, lp in scan_loops:
        for b in ast.walk(lp):
            if isinstance(b, ast.Break):
                from .fam_e import _literal
                try:
                    m_, v_, table = _literal(repo, "ATOMIC_MASSES")
                    vals = list(table.values())
                    ordered = all(a <= b2 for a, b2 in zip(vals, vals[1:]))
                    inversions = [k for k, (a, b2) in zip(list(table)[1:], zip(vals, vals[1:])) if a > b2]
                except AnalysisError:
                    ordered, inversions = False, []
                obs.append(Ob("A17", clause, f, b, ordered,
                              "the scan over the mass table stops early; that is only sound for a table in increasing mass order, "
                              "and ATOMIC_MASSES is %s (entries lighter than their predecessor: %s)" % (
                                  "ordered" if ordered else "NOT ordered", inversions[:8]), slot="early-termination", positive=True))
    if mask_first and not first_hit:
        first_hit = [(f, n) for f, n, rv in mask_first]
    if not first_hit:
        best_loop = None
        for f, lp in scan_loops:
            # best-so-far idiom: `if abs(m - x) < abs(best - x): best = m`
            for t in ast.walk(lp):
                if isinstance(t, ast.If) and isinstance(t.test, ast.Compare) and len(t.test.ops) == 1 and isinstance(t.test.ops[0], (ast.Lt, ast.LtE)) \
                        and all(isinstance(x, ast.Call) and call_name(x) in ("abs", "fabs") for x in (t.test.left, t.test.comparators[0])):
                    best_loop = (f, lp, t)
                # ... or with the best difference so far kept in a local: `if abs(m - x) < best: sym, best = s, abs(m - x)`
                elif isinstance(t, ast.If) and [c_ for c_ in ast.walk(t.test) if isinstance(c_, ast.Compare) and len(c_.ops) == 1 and isinstance(c_.ops[0], (ast.Lt, ast.LtE))
                                               and isinstance(c_.comparators[0], ast.Name) and (
                                                   (isinstance(c_.left, ast.Call) and call_name(c_.left) in ("abs", "fabs")) or
                                                   (isinstance(c_.left, ast.Name) and any(isinstance(d_, ast.Assign) and len(d_.targets) == 1 and isinstance(d_.targets[0], ast.Name)
                                                                                          and d_.targets[0].id == c_.left.id and isinstance(d_.value, ast.Call) and call_name(d_.value) in ("abs", "fabs")
                                                                                          for d_ in ast.walk(lp))))]:
                    c0_ = [c_ for c_ in ast.walk(t.test) if isinstance(c_, ast.Compare) and len(c_.ops) == 1 and isinstance(c_.ops[0], (ast.Lt, ast.LtE)) and isinstance(c_.comparators[0], ast.Name)][0]
                    bname = c0_.comparators[0].id
                    lhs = ast.unparse(c0_.left)
                    upd = False
                    for st_ in t.body:
                        if isinstance(st_, ast.Assign):
                            tg_, vl_ = st_.targets[0], st_.value
                            pairs_ = list(zip(tg_.elts, vl_.elts)) if isinstance(tg_, ast.Tuple) and isinstance(vl_, ast.Tuple) and len(tg_.elts) == len(vl_.elts) else [(tg_, vl_)]
                            for a_, b_ in pairs_:
                                if isinstance(a_, ast.Name) and a_.id == bname and ast.unparse(b_) == lhs:
                                    upd = True
                    if upd:
                        best_loop = (f, lp, t)
        if nearest:
            f, n = nearest[0]
            keyed = kwarg(n, "key") is not None or call_name(n) == "argmin"
            txt = ast.unparse(expand(f, n))
            has_abs = "abs(" in txt or "fabs(" in txt or "np.abs" in txt
            keyx = kwarg(n, "key")
            crit = None            # the expression the candidates are ranked by
            if keyx is not None:
                kx = expand(f, keyx)
                if isinstance(kx, ast.Lambda):
                    crit = kx.body
                elif isinstance(kx, ast.Attribute) and kx.attr in ("get", "__getitem__"):
                    dx = expand(f, kx.value)
                    crit = dx.value if isinstance(dx, ast.DictComp) else None
                    if crit is None and isinstance(dx, ast.Dict):
                        crit = ast.Tuple(elts=list(dx.values), ctx=ast.Load())
            elif n.args:
                it = expand(f, n.args[0])
                if isinstance(it, (ast.GeneratorExp, ast.ListComp)):
                    crit = it.elt.elts[0] if isinstance(it.elt, ast.Tuple) and it.elt.elts else it.elt
                elif call_name(n) == "argmin":
                    crit = it
            key_src = ast.unparse(crit) if crit is not None else (ast.unparse(keyx) if keyx is not None else "")
            tparams = {p_ for p_ in f.params if p_ != tolname}
            # names computed from the looked-up masses: loop variables over them, locals assigned from them (fixpoint)
            for _i in range(6):
                grew = False
                for x_ in f.all_nodes():
                    tg_, src_ = None, None
                    if isinstance(x_, (ast.For, ast.comprehension)):
                        tg_, src_ = x_.target, x_.iter
                    elif isinstance(x_, ast.Assign) and len(x_.targets) == 1:
                        tg_, src_ = x_.targets[0], x_.value
                    if tg_ is None or not any(isinstance(y_, ast.Name) and y_.id in tparams for y_ in ast.walk(src_)):
                        continue
                    for y_ in ast.walk(tg_):
                        if isinstance(y_, ast.Name) and y_.id not in tparams and y_.id != tolname:
                            tparams.add(y_.id)
                            grew = True
                if not grew:
                    break
            mentions_target = crit is not None and any(isinstance(x, ast.Name) and x.id in tparams for x in ast.walk(crit))
            keyed = crit is not None
            has_abs = crit is not None and any(isinstance(x, ast.Call) and call_name(x) in ("abs", "fabs", "absolute") for x in ast.walk(crit))
            blind = call_name(n) in ("min", "sorted", "nsmallest", "argmin") and not mentions_target
            obs.append(Ob("A17", clause, f, n, keyed and has_abs and not blind,
                          "element is chosen by %s over the absolute mass difference (nearest entry)=%s%s" % (
                              call_name(n), keyed and has_abs and not blind,
                              "" if not blind else " -- the ranking criterion `%s` does NOT depend on the mass being looked up: it picks the lightest / first qualifying entry, not the nearest" % (key_src or "(natural order)")),
                          slot="nearest", positive=blind))
        elif best_loop is not None:
            f, lp, t = best_loop
            obs.append(Ob("A17", clause, f, t, True, "element is chosen by a best-so-far scan over the absolute mass difference", slot="nearest"))
        else:
            raise AnalysisError("A17: neither a first-hit return nor a nearest selection (min/argmin/sorted/best-so-far) recognised")
    # every element handed back comes from the nearest-element selection; a shortcut that accepts another candidate by the tolerance alone is a first-hit rule in disguise
    if fe is not outer:
        for c_ in [x for x in outer.own_nodes() if isinstance(x, ast.Call) and isinstance(x.func, ast.Attribute) and x.func.attr in ("append", "extend") and x.args]:
            a0 = c_.args[0]
            from_sel = isinstance(a0, ast.Call) and call_name(a0) == fe.name
            tol_guard = any(tolname in ast.unparse(t) for t, pol, k in norm_guards(outer, c_))
            if not from_sel:
                obs.append(Ob("A17", clause, outer, c_, False,
                              "`%s` adds an element that does NOT come from the nearest-element selection %s(...)%s" % (
                                  ast.unparse(c_)[:50], fe.name, ": it is accepted because it is within the tolerance (e.g. the previous type's element), although another element may be nearer" if tol_guard else ""),
                              slot="result-from-selection", positive=tol_guard, undecided=not tol_guard))
    # the raise for "no element" must exist
    raises = [n for f in [outer] + cands for n in f.own_nodes() if isinstance(n, ast.Raise)]
    obs.append(Ob("A17", clause, fe, raises[0] if raises else fe.node, bool(raises),
                  "an exception is raised when no element qualifies (no element is invented)", slot="raise-when-none"))
    # default tolerance of the helper vs. loader: loader passes its own guess_atol
    ld = repo.fn("Atoms.load_lmpdat")
    calls = calls_named(ld, "guess_elements_from_masses")
    if len(calls) != 1:
        raise AnalysisError("A17: load_lmpdat no longer calls guess_elements_from_masses exactly once")
    c = calls[0]
    a = get_arg(c, outer.params, tolname)
    obs.append(Ob("A17", clause, ld, c, a is not None and isinstance(a, ast.Name) and a.id in ld.params,
                  "loader forwards its documented tolerance parameter (%s) to the guess" % (ast.unparse(a) if a is not None else "nothing"),
                  slot="loader-forwards-tolerance", positive=True))
    # fallback handler
    tr = [t for t in ld.own_nodes() if isinstance(t, ast.Try) and any(x is c for b in t.body for x in ast.walk(b))]
    if len(tr) != 1:
        obs.append(Ob("A17", clause, ld, c, False, "the guess is not wrapped in the documented fallback handler", slot="fallback"))
        return obs
    t = tr[0]
    tgt = None
    for b in t.body:
        if isinstance(b, ast.Assign) and any(x is c for x in ast.walk(b)):
            tgt = b.targets[0].id if isinstance(b.targets[0], ast.Name) else None
    # the guess may go through a temporary inside the try body (guessed = guess(..); elements = [guessed[i] ...]): the handler replaces the LAST name the body assigns
    body_targets = [b.targets[0].id for b in t.body if isinstance(b, ast.Assign) and isinstance(b.targets[0], ast.Name)]
    handler_targets = {b.targets[0].id for h in t.handlers for b in h.body if isinstance(b, ast.Assign) and isinstance(b.targets[0], ast.Name)}
    if tgt not in handler_targets and body_targets and body_targets[-1] in handler_targets:
        tgt = body_targets[-1]
    ok = False
    recognised = False
    robust_ = False
    detail = "fallback handler not recognised"

    def _one_based_strings(v):
        """(source text, first number) when v builds the strings str(k), str(k+1), ... one per entry of a sequence; None otherwise"""
        if isinstance(v, ast.ListComp) and len(v.generators) == 1 and not v.generators[0].ifs:
            g = v.generators[0]
            elt = v.elt
            if not (isinstance(elt, ast.Call) and call_name(elt) == "str" and len(elt.args) == 1):
                return None
            if isinstance(g.iter, ast.Call) and call_name(g.iter) == "range" and isinstance(g.target, ast.Name):
                ra = g.iter.args
                lo = 0 if len(ra) == 1 else const_value(ra[0])
                hi = ra[0] if len(ra) == 1 else (ra[1] if len(ra) == 2 else None)
                if hi is None or not isinstance(lo, int):
                    return None
                # hi = len(X) + lo
                hi_nf = nf(hi)
                src = None
                for c_ in ast.walk(hi):
                    if isinstance(c_, ast.Call) and call_name(c_) == "len" and c_.args:
                        want = nf(ast.parse("len(%s) + %d" % (ast.unparse(c_.args[0]), lo), mode="eval").body) if lo else nf(c_)
                        if hi_nf == want:
                            src = ast.unparse(c_.args[0])
                if src is None:
                    return None
                # element: str(i + d)
                e0 = elt.args[0]
                d = None
                if isinstance(e0, ast.Name) and e0.id == g.target.id:
                    d = 0
                elif isinstance(e0, ast.BinOp) and isinstance(e0.op, ast.Add):
                    for x_, y_ in ((e0.left, e0.right), (e0.right, e0.left)):
                        if isinstance(x_, ast.Name) and x_.id == g.target.id and isinstance(const_value(y_), int):
                            d = const_value(y_)
                if d is None:
                    return None
                return src, lo + d
            if isinstance(g.iter, ast.Call) and call_name(g.iter) == "enumerate" and isinstance(g.target, ast.Tuple) and len(g.target.elts) == 2 and g.iter.args:
                st_ = kwarg(g.iter, "start") or (g.iter.args[1] if len(g.iter.args) > 1 else None)
                s0 = 0 if st_ is None else const_value(st_)
                e0 = elt.args[0]
                iv = g.target.elts[0].id if isinstance(g.target.elts[0], ast.Name) else None
                if isinstance(s0, int) and isinstance(e0, ast.Name) and e0.id == iv:
                    return ast.unparse(g.iter.args[0]), s0
                if isinstance(s0, int) and isinstance(e0, ast.BinOp) and isinstance(e0.op, ast.Add) and isinstance(e0.left, ast.Name) and e0.left.id == iv and isinstance(const_value(e0.right), int):
                    return ast.unparse(g.iter.args[0]), s0 + const_value(e0.right)
        return None
    for h in t.handlers:
        for b in h.body:
            if isinstance(b, ast.Assign) and isinstance(b.targets[0], ast.Name) and b.targets[0].id == tgt:
                r_ = _one_based_strings(b.value)
                if r_ is not None:
                    recognised = True
                    src, first = r_
                    ok = "mass" in src and first == 1
                    detail = "handler replaces the elements of ALL types by their type numbers: one string per entry of %s, numbered from %d%s" % (
                        src, first, "" if ok else (" (type ids are 1-based: the fallback labels are off by one)" if first != 1 else " (not the mass table)"))
                    # the counted table must have one entry per atom TYPE: a name that (also) holds the distinct masses at this point gives one label per distinct mass
                    if ok and re.fullmatch(r"\w+", src):
                        try:
                            ds_ = ld.rd.defs_at(b, src)
                        except Exception:
                            ds_ = []
                        for d_ in ds_:
                            dv = getattr(d_, "value", None)
                            if dv is not None and any(isinstance(x, ast.Call) and (call_name(x) in ("unique", "set", "fromkeys", "frozenset")) for x in ast.walk(dv)):
                                ok = False
                                robust_ = True
                                detail = ("the fallback numbers the entries of `%s`, which at this point holds the DISTINCT masses (`%s`): two atom types with the same mass get one label, "
                                          "and the element list no longer has one entry per atom type" % (src, ast.unparse(d_)[:60]))
    obs.append(Ob("A17", clause, ld, t.handlers[0] if t.handlers else t, ok, detail, slot="fallback", positive=("robust" if robust_ else (recognised and not ok)), undecided=not recognised))
    return obs


def _abs_valued(fn, name, depth=0):
    """every value ever bound to local `name` in fn (None / inf placeholders aside) is an absolute value, directly or through another such local"""
    if fn is None or depth > 3:
        return False
    vals = []
    for st in fn.all_nodes():
        if isinstance(st, ast.Assign):
            for tg in st.targets:
                if isinstance(tg, ast.Name) and tg.id == name:
                    vals.append(st.value)
                elif isinstance(tg, ast.Tuple) and isinstance(st.value, ast.Tuple) and len(tg.elts) == len(st.value.elts):
                    vals += [v for a, v in zip(tg.elts, st.value.elts) if isinstance(a, ast.Name) and a.id == name]
                elif isinstance(tg, ast.Tuple) and any(isinstance(a, ast.Name) and a.id == name for a in tg.elts):
                    return False
    vals = [v for v in vals if not (isinstance(v, ast.Constant) and v.value is None) and "inf" not in ast.unparse(v)]
    if not vals:
        return False
    for v in vals:
        if isinstance(v, ast.Call) and call_name(v) in ("abs", "fabs", "absolute"):
            continue
        if isinstance(v, ast.Name) and v.id != name and _abs_valued(fn, v.id, depth + 1):
            continue
        return False
    return True


def _two_sided(t, tol, fn=None):
    if isinstance(t, ast.Compare) and len(t.ops) == 1 and any(isinstance(sd, ast.Name) and sd.id != tol and _abs_valued(fn, sd.id) for sd in [t.left] + t.comparators):
        return True, "|difference| (kept in a local) compared with the tolerance (%s)" % ast.unparse(t)
    if isinstance(t, ast.Call):
        d = dotted(t.func) or ""
        if d.startswith("math."):
            return True, "math.isclose with abs_tol=%s is two-sided (rel_tol default 1e-9 is negligible)" % tol
        rt = kwarg(t, "rtol")
        if rt is not None and const_value(rt) == 0:
            return True, "np.isclose with atol=%s and rtol=0 is a two-sided absolute test" % tol
        return False, "np.isclose/allclose adds the hidden relative tolerance rtol*|b| (default 1e-5) to %s: masses outside the absolute tolerance are accepted" % tol
    txt = ast.unparse(t)
    if any(isinstance(x, ast.Call) and call_name(x) in ("abs", "fabs", "absolute") for x in ast.walk(t)):
        return True, "|difference| compared with the tolerance (%s)" % txt
    if len(t.ops) == 2:
        return True, "chained two-sided comparison (%s)" % txt
    # bare difference on one side
    for side in [t.left] + t.comparators:
        if isinstance(side, ast.BinOp) and isinstance(side.op, ast.Sub):
            return False, "bare difference `%s` is compared with the tolerance on one side only: every lighter entry passes" % txt
    return False, "tolerance test `%s` is not recognisably two-sided" % txt


# ---- CLI -----------------------------------------------------------------------------------------

CLI_SINKS = {
    # parameter -> (callee name, keyword or positional index, description)
    "atol": [("replace_pattern_in_structure", "atol"), ("find_pattern_in_structure", "atol")],
    "replace_fraction": [("replace_pattern_in_structure", "replace_fraction")],
    "axisp1_idx": [("replace_pattern_in_structure", "axisp1_idx")],
    "axisp2_idx": [("replace_pattern_in_structure", "axisp2_idx")],
    "opoint_idx": [("replace_pattern_in_structure", "opoint_idx")],
    "replicate": [("replicate", 0)],
    "find_path": [("load", 0)],
    "replace_path": [("load", 0)],
    "inputpath": [("load", 0)],
    "extract_uc_path": [("load", 0)],
    "outputpath": [("save", 0)],
}


def _click_dest(dec):
    """Destination parameter name of a click.option / click.argument decorator."""
    strs = [a.value for a in dec.args if isinstance(a, ast.Constant) and isinstance(a.value, str)]
    kind = call_name(dec)
    if kind == "argument":
        return strs[0] if strs else None
    plain = [s for s in strs if not s.startswith("-")]
    if plain:
        return plain[0]
    longs = [s for s in strs if s.startswith("--")]
    if longs:
        return longs[0][2:].replace("-", "_")
    shorts = [s for s in strs if s.startswith("-")]
    return shorts[0].lstrip("-").replace("-", "_") if shorts else None


def A18_cli_wiring(repo, clause):
    fn = repo.fn("mofun_cli")
    cfg = fn.cfg
    obs = []
    dests = []
    for d in fn.node.decorator_list:
        if isinstance(d, ast.Call) and call_name(d) in ("option", "argument"):
            dests.append((d, _click_dest(d)))
    floor("A18", "click options/arguments", len(dests), 16)
    for d, name in dests:
        obs.append(Ob("A18", clause, fn, d, name in fn.params,
                      "command-line %s %s is bound to parameter %s of mofun_cli (%s)" % (
                          call_name(d), [a.value for a in d.args if isinstance(a, ast.Constant)][:2], name,
                          "exists" if name in fn.params else "NO SUCH PARAMETER: click raises TypeError"), slot="dest:%s" % name, positive=True))
    for p in fn.params:
        if p not in [n for _, n in dests]:
            obs.append(Ob("A18", clause, fn, fn.node, False, "parameter %s has no command-line option" % p, construct="def mofun_cli", slot="param-without-option:%s" % p, positive=True))

    def flows_to(param, callee, where):
        hits = []
        for c in calls_in(fn):
            if call_name(c) != callee:
                continue
            a = kwarg(c, where) if isinstance(where, str) else (c.args[where] if len(c.args) > where else None)
            if a is None and isinstance(where, str):
                cal = repo.maybe_fn(callee)
                if cal is not None:
                    a = get_arg(c, cal.params, where)
            if a is None:
                continue
            e = expand(fn, a)
            if isinstance(e, ast.Name) and e.id == param:
                hits.append(c)
        return hits

    for p, sinks in CLI_SINKS.items():
        if p not in fn.params:
            raise AnalysisError("A18: mofun_cli no longer has parameter %s" % p)
        for callee, where in sinks:
            hits = flows_to(p, callee, where)
            # all calls of the callee that should receive it
            cands = [c for c in calls_in(fn) if call_name(c) == callee]
            if callee in ("replace_pattern_in_structure", "find_pattern_in_structure"):
                ok = bool(cands) and len(hits) == len(cands)
            else:
                ok = bool(hits)
            obs.append(Ob("A18", clause, fn, hits[0] if hits else (cands[0] if cands else fn.node), ok,
                          "option value %s %s %s(%s=...)" % (p, "reaches" if ok else "DOES NOT reach", callee, where),
                          construct=None if (hits or cands) else "%s(...)" % callee, slot="flow:%s->%s" % (p, callee)))
    # replace_pattern_in_structure forwards the hints to the search
    rp = repo.fn("replace_pattern_in_structure")
    fp = repo.fn("find_pattern_in_structure")
    fc = calls_named(rp, "find_pattern_in_structure")
    for h in ("axisp1_idx", "axisp2_idx", "opoint_idx"):
        a = get_arg(fc[0], fp.params, h) if fc else None
        ok = a is not None and isinstance(a, ast.Name) and a.id == h and h in rp.params
        obs.append(Ob("A18", clause, rp, fc[0] if fc else rp.node, ok, "replace forwards hint %s unchanged to the search" % h, slot="forward-hint:%s" % h))
    # chargefile -> atoms.charges ; mic -> replicate factors ; pp -> assign_pair_params_to_structure
    def stmt_with(pred):
        return [n for n in fn.own_nodes() if isinstance(n, ast.stmt) and pred(n)]
    ch = stmt_with(lambda n: isinstance(n, ast.Assign) and isinstance(n.targets[0], ast.Attribute) and n.targets[0].attr == "charges")
    ok = bool(ch) and "chargefile" in ast.unparse(expand(fn, ch[0].value)) and any(
        pol and is_none_test(t, "chargefile") == "isnot" for t, pol, k in norm_guards(fn, ch[0]))
    obs.append(Ob("A18", clause, fn, ch[0] if ch else fn.node, ok, "charge file values are stored as the structure's charges (only when given)" if ch else
                  "the values of --chargefile are NEVER stored into the structure (no assignment to .charges)", construct=None if ch else "atoms.charges = charges",
                  slot="flow:chargefile", positive=not ch))
    # blank lines of the charge file are skipped, every other line is a charge: the line filter and the conversion are evaluated on representative lines
    # ("", whitespace only, a number, a number with surrounding blanks / newline) - a kept line must be convertible, a line with a number must be kept
    if ch:
        from .common import eval_small, Undecidable
        cv = expand(fn, ch[0].value)
        comps = [x for x in ast.walk(cv) if isinstance(x, (ast.ListComp, ast.GeneratorExp)) and len(x.generators) == 1 and isinstance(x.generators[0].target, ast.Name)
                 and "chargefile" in ast.unparse(expand(fn, x.generators[0].iter))]
        if len(comps) == 1:
            comp = comps[0]
            g = comp.generators[0]
            lv = g.target.id
            conv = comp.elt.args[0] if isinstance(comp.elt, ast.Call) and call_name(comp.elt) == "float" and len(comp.elt.args) == 1 else None
            # lines as the iteration delivers them: file iteration keeps the newline, read().split("\n") / splitlines() do not
            it_txt = ast.unparse(expand(fn, g.iter))
            nl = "" if ("split(" in it_txt or "splitlines" in it_txt) else "\n"
            verdict, why, und = None, "", None
            try:
                if conv is None:
                    raise Undecidable("conversion is not float(<line>)")
                for raw, has_number in (("", False), (" ", False), ("\t", False), ("0.5", True), (" 0.5 ", True), ("-1", True)):
                    line = raw + nl if not (raw == "" and nl == "") else raw
                    env_ = {lv: line}
                    kept = all(bool(eval_small(c_, env_)) for c_ in g.ifs)
                    if kept:
                        arg = eval_small(conv, env_)
                        if not isinstance(arg, str) or arg.strip() == "":
                            verdict, why = False, "the line %r passes the filter `%s` and reaches float(): a whitespace-only line makes the command fail" % (line, " and ".join(ast.unparse(c_) for c_ in g.ifs) or "(none)")
                            break
                    elif has_number:
                        verdict, why = False, "the line %r is DROPPED by the filter `%s` although it carries a charge" % (line, " and ".join(ast.unparse(c_) for c_ in g.ifs))
                        break
                else:
                    verdict, why = True, "blank and whitespace-only lines are skipped, every other line is converted"
            except Undecidable as e_:
                und = str(e_)
            obs.append(Ob("A18", clause, fn, comp, verdict is True, "charge file lines: %s" % (why if und is None else "filter / conversion outside the table language (%s)" % und),
                          slot="chargefile-filter", positive="robust" if verdict is False else False, undecided=verdict is None))
    reps = [c for c in calls_in(fn) if call_name(c) == "replicate"]
    mic_c = [c for c in reps if c.args and "mic" in ast.unparse(expand(fn, c.args[0]))]
    ok = len(mic_c) == 1 and any(pol and is_none_test(expand(fn, t), "mic") == "isnot" for t, pol, k in norm_guards(fn, mic_c[0]))
    obs.append(Ob("A18", clause, fn, mic_c[0] if mic_c else fn.node, ok, "minimum-image cutoff determines the second replication (only when given)", slot="flow:mic"))
    if mic_c:
        obs.append(_mic_formula(fn, clause, mic_c[0]))
        # the replication is not skipped for any count vector that has a component above 1: a guard on the counts is evaluated on representative vectors
        if mic_c[0].args and isinstance(mic_c[0].args[0], ast.Name):
            from .common import eval_small, Undecidable, Vec
            rn = mic_c[0].args[0].id
            gsr = [(t, pol) for t, pol, k in norm_guards(fn, mic_c[0]) if any(isinstance(y, ast.Name) and y.id == rn for y in ast.walk(t))]
            if gsr:
                try:
                    bad = []
                    for vec in ((1, 1, 1), (2, 1, 1), (1, 3, 1), (1, 1, 2), (2, 2, 2), (3, 1, 2)):
                        taken = all(bool(eval_small(t, {rn: Vec(vec)})) == pol for t, pol in gsr)
                        if not taken and max(vec) > 1:
                            bad.append(vec)
                    obs.append(Ob("A18", clause, fn, mic_c[0], not bad,
                                  "the --mic replication is %s" % ("only skipped when every count is 1" if not bad else
                                                                   "SKIPPED for the counts %s under `%s`: a cell that is long enough on one axis but too short on another is written un-replicated" % (
                                                                       list(bad[0]), " and ".join(ast.unparse(t) for t, _ in gsr)[:60])),
                                  slot="mic-replicate-guard", positive="robust" if bad else False))
                except Undecidable as e_:
                    obs.append(Ob("A18", clause, fn, mic_c[0], False, "the --mic replication is guarded by a test on the counts that is outside the table language (%s)" % e_,
                                  slot="mic-replicate-guard", undecided=True))
    ppc = [c for c in calls_in(fn) if call_name(c) == "assign_pair_params_to_structure"]
    ok = len(ppc) == 1 and any(pol and isinstance(t, ast.Name) and t.id == "pp" for t, pol, k in norm_guards(fn, ppc[0]))
    obs.append(Ob("A18", clause, fn, ppc[0] if ppc else fn.node, ok, "--pp triggers pair-coefficient assignment", slot="flow:pp"))
    # order of operations
    def first_stmt(cond):
        for n in sorted([n for n in fn.own_nodes() if isinstance(n, ast.stmt)], key=lambda n: n.lineno):
            if cond(n):
                return n
        return None

    def has_call(n, name, argpred=None):
        for e in header_exprs(n):
            for c in ast.walk(e):
                if isinstance(c, ast.Call) and call_name(c) == name and (argpred is None or argpred(c)):
                    return True
        return False

    stages = [
        ("load", first_stmt(lambda n: has_call(n, "load", lambda c: c.args and "inputpath" in ast.unparse(c.args[0])))),
        ("charge-override", ch[0] if ch else None),
        ("replicate", first_stmt(lambda n: has_call(n, "replicate", lambda c: c.args and isinstance(c.args[0], ast.Name) and c.args[0].id == "replicate"))),
        ("mic-replicate", fn.stmt_of(mic_c[0]) if mic_c else None),
        ("pair-coeffs", fn.stmt_of(ppc[0]) if ppc else None),
        ("find/replace", first_stmt(lambda n: has_call(n, "replace_pattern_in_structure"))),
        ("save", first_stmt(lambda n: has_call(n, "save"))),
    ]
    for (na, a), (nb, b) in zip(stages, stages[1:]):
        if a is None or b is None:
            obs.append(Ob("A18", clause, fn, fn.node, False, "stage %s or %s not found" % (na, nb), construct="%s < %s" % (na, nb), slot="order:%s<%s" % (na, nb)))
            continue
        ok = cfg.reaches(a, b) and not cfg.reaches(b, a)
        obs.append(Ob("A18", clause, fn, b, ok, "stage `%s` runs before stage `%s` on every path (and never after it)" % (na, nb), slot="order:%s<%s" % (na, nb)))
    # result of replace is what gets saved; find-only leaves atoms untouched
    rcall = [c for c in calls_in(fn) if call_name(c) == "replace_pattern_in_structure"]
    if rcall:
        st = fn.stmt_of(rcall[0])
        struct_arg = rcall[0].args[0] if rcall[0].args else None
        ok = isinstance(st, ast.Assign) and isinstance(st.targets[0], ast.Name) and isinstance(struct_arg, ast.Name) and st.targets[0].id == struct_arg.id
        sv = [c for c in calls_in(fn) if call_name(c) == "save"]
        ok = ok and bool(sv) and isinstance(sv[0].func.value, ast.Name) and sv[0].func.value.id == st.targets[0].id
        obs.append(Ob("A18", clause, fn, st, ok, "the replaced structure is what gets saved", slot="result-saved"))
    fcall = [c for c in calls_in(fn) if call_name(c) == "find_pattern_in_structure"]
    if fcall:
        st = fn.stmt_of(fcall[0])
        blk = fn.parents[st]
        reassigned = False
        if isinstance(blk, ast.If):
            for s in (blk.orelse if any(st is x for x in blk.orelse) else blk.body):
                for x in ast.walk(s):
                    if isinstance(x, ast.Name) and isinstance(x.ctx, ast.Store) and fcall[0].args and isinstance(fcall[0].args[0], ast.Name) \
                            and x.id == fcall[0].args[0].id:
                        reassigned = True
        obs.append(Ob("A18", clause, fn, st, not reassigned, "find-only branch does not reassign the structure (it is written unmodified)", slot="find-only"))
    # the loaded patterns and structure reach the library unmodified (no in-place edits in between)
    eff = repo.effects
    pat_vars = set()
    for c_ in calls_in(fn):
        if call_name(c_) in ("replace_pattern_in_structure", "find_pattern_in_structure"):
            for a_ in c_.args[1:3]:
                if isinstance(a_, ast.Name):
                    pat_vars.add(a_.id)
    touched = []
    for ap in eff.apps.get(fn, []):
        tgt = ap.target
        while isinstance(tgt, (ast.Attribute, ast.Subscript)):
            tgt = tgt.value
        if isinstance(tgt, ast.Name) and tgt.id in pat_vars:
            touched.append(ap)
    obs.append(Ob("A18", clause, fn, touched[0].node if touched else fn.node, not touched,
                  "the find/replace patterns are handed to the library exactly as loaded%s" % (
                      "" if not touched else " -- the CLI modifies `%s` first (%s): the API user's result differs" % (ast.unparse(touched[0].target), touched[0].how)),
                  construct=None if touched else "Atoms.load(find_path) -> replace_pattern_in_structure(...)", slot="patterns-unmodified", positive=True))
    # suffix tables
    load = repo.fn("Atoms.load")
    save = repo.fn("Atoms.save")

    def dispatch_types(f):
        out = set()
        for n in f.own_nodes():
            e = eq_const(n) if isinstance(n, ast.Compare) else None
            if e is not None and isinstance(e[0], ast.Name) and e[0].id in f.params and isinstance(e[1], str):
                out.add(e[1])      # `== "cif"` selects the handler, `!= "cif"` guards the refusal: either way the type is known to the dispatcher
            if isinstance(n, ast.Compare) and len(n.ops) == 1 and isinstance(n.ops[0], (ast.In, ast.NotIn)) and isinstance(n.left, ast.Name) and n.left.id in f.params \
                    and isinstance(n.comparators[0], (ast.Tuple, ast.List, ast.Set)):
                out.update(x.value for x in n.comparators[0].elts if isinstance(x, ast.Constant) and isinstance(x.value, str))
            if isinstance(n, ast.Dict) and n.keys and all(isinstance(k_, ast.Constant) and isinstance(k_.value, str) for k_ in n.keys):
                out.update(k_.value for k_ in n.keys)   # table-driven dispatch
        return out
    for which, f, var in (("input", load, "inputpath"), ("output", save, "outputpath")):
        lits = None

        def _lit_list(n):
            """the literal suffix list a membership test of the path variable compares with (looked through one local name)"""
            if not (isinstance(n, ast.Compare) and isinstance(n.ops[0], (ast.In, ast.NotIn)) and var in ast.unparse(n.left)):
                return None
            cmp_ = n.comparators[0]
            if isinstance(cmp_, ast.Name):
                try:
                    cmp_ = expand(fn, cmp_)
                except Exception:
                    return None
            return cmp_ if isinstance(cmp_, (ast.List, ast.Tuple, ast.Set)) else None
        for n in fn.own_nodes():
            ll = _lit_list(n)
            if ll is not None:
                lits = [e.value for e in ll.elts if isinstance(e, ast.Constant)]
        dt = dispatch_types(f)
        ok = lits is not None and all(s.startswith(".") and s[1:] in dt for s in lits)
        # the test reads the LAST suffix of the path, as the dispatcher's os.path.splitext does
        for n in fn.own_nodes():
            if _lit_list(n) is not None:
                l_ = n.left
                is_suffix = isinstance(l_, ast.Attribute) and l_.attr == "suffix" and isinstance(l_.value, ast.Name) and l_.value.id == var
                other_suffix = (not is_suffix) and "suffixes" in ast.unparse(l_)
                obs.append(Ob("A18", clause, fn, n, is_suffix,
                              "%s file type is decided by `%s`%s" % (which, ast.unparse(l_), "" if is_suffix else (
                                  ": NOT the last suffix - for a name with an extra dot (out.run2.cif) the command line and the dispatcher (os.path.splitext) disagree, the file goes through the ASE writer and loses charges and terms"
                                  if other_suffix else " (not the plain .suffix)")),
                              slot="suffix-attr:%s" % which, positive=other_suffix, undecided=not is_suffix and not other_suffix))
        obs.append(Ob("A18", clause, fn, fn.node, ok, "%s suffixes %s are all dispatched by Atoms.%s (%s)" % (which, lits, f.name, sorted(dt)),
                      construct="%s.suffix in %s" % (var, lits), slot="suffix:%s" % which, positive="robust" if (lits is not None and len(dt) >= 2) else False, depends=(f,)))
        # and the other way round: every type the dispatcher handles natively is routed to it (a native format sent to ASE loses charges, types and terms - or cannot be read at all)
        if lits is not None and len(dt) >= 2:
            missing = sorted(t for t in dt if "." + t not in lits)
            obs.append(Ob("A18", clause, fn, fn.node, not missing,
                          "%s: every file type Atoms.%s dispatches (%s) is routed to it by the command line%s" % (
                              which, f.name, sorted(dt), "" if not missing else ": NOT %s - such a file goes to ase.io instead" % missing),
                          construct="%s.suffix in %s" % (var, lits), slot="suffix-complete:%s" % which, positive="robust", depends=(f,)))
    return obs


def atoms_attr_universe(repo):
    """Methods, properties and every attribute ever stored on self inside class Atoms."""
    names = set()
    for (m, q), fn in repo.fns.items():
        if fn.cls == "Atoms":
            if q.count(".") == 1:
                names.add(fn.name)
            top = fn
            for n in fn.all_nodes():
                if isinstance(n, ast.Attribute) and isinstance(n.ctx, ast.Store) and isinstance(n.value, ast.Name) and n.value.id == "self":
                    names.add(n.attr)
    return names


ATOMS_PARAM_NAMES = {"structure", "pattern", "search_pattern", "replace_pattern", "other", "orig_structure", "final_structure"}
ATOMS_PRODUCERS = {"load", "load_lmpdat", "load_cml", "load_p1_cif", "from_ase_atoms", "replicate",
                   "replace_pattern_in_structure"}


def atoms_typed_names(repo, fn):
    """Local names that hold Atoms values (flow-insensitive, every definition must agree)."""
    typed = {}
    for p in fn.params:
        if p in ATOMS_PARAM_NAMES or (p == "atoms" and fn.module.name in ("mofun.rough_uff", "mofun.helpers") and fn.name != "from_ase_atoms"):
            typed[p] = True
    if fn.cls == "Atoms" and fn.params and fn.params[0] == "self":
        typed["self"] = True
    changed = True
    rounds = 0
    while changed and rounds < 5:
        changed = False
        rounds += 1
        for n in fn.own_nodes():
            if isinstance(n, ast.Assign) and len(n.targets) == 1 and isinstance(n.targets[0], ast.Name):
                v = n.value
                name = n.targets[0].id
                is_atoms = None
                if isinstance(v, ast.Call):
                    cn = call_name(v)
                    if isinstance(v.func, ast.Name) and v.func.id in ("Atoms", "cls") and fn.module.name.startswith("mofun"):
                        is_atoms = v.func.id == "Atoms" or fn.cls == "Atoms"
                    elif isinstance(v.func, ast.Attribute) and cn in ATOMS_PRODUCERS and (
                            dotted(v.func.value) in ("Atoms", "cls") or (isinstance(v.func.value, ast.Name) and typed.get(v.func.value.id))):
                        is_atoms = True
                    elif isinstance(v.func, ast.Name) and cn == "replace_pattern_in_structure":
                        is_atoms = True
                    elif isinstance(v.func, ast.Attribute) and cn == "copy" and isinstance(v.func.value, ast.Name) and typed.get(v.func.value.id):
                        is_atoms = True
                    else:
                        is_atoms = False
                else:
                    is_atoms = isinstance(v, ast.Name) and bool(typed.get(v.id))
                prev = typed.get(name)
                new = is_atoms if prev is None else (prev and is_atoms)
                if name in fn.params and name in typed and not is_atoms:
                    new = False
                if new != prev:
                    typed[name] = new
                    changed = True
    return {k for k, v in typed.items() if v}


def A19_attribute_discipline(repo, clause, funcs=None, modules=None):
    obs = []
    universe = atoms_attr_universe(repo)
    floor("A19", "Atoms attributes", len(universe), 60)
    total = 0
    for fn in repo.all_fns():
        if funcs is not None and fn.qualname not in funcs:
            continue
        if modules is not None and fn.module.name not in modules:
            continue
        typed = atoms_typed_names(repo, fn)
        typed.discard("self")
        # flow-sensitive addition: a name that is re-used for other things (a list of atom lines, then the constructed object) is Atoms-typed at the accesses that are reached
        # only by its constructor / loader definitions
        ctor_defs = {}
        for d_ in fn.own_nodes():
            if isinstance(d_, ast.Assign) and len(d_.targets) == 1 and isinstance(d_.targets[0], ast.Name) and isinstance(d_.value, ast.Call) and isinstance(d_.value.func, ast.Name) \
                    and (d_.value.func.id == "Atoms" or (d_.value.func.id == "cls" and fn.cls == "Atoms")):
                ctor_defs.setdefault(d_.targets[0].id, set()).add(d_)
        flow_typed = set()
        for n in fn.own_nodes():
            if isinstance(n, ast.Attribute) and isinstance(n.value, ast.Name) and n.value.id not in typed and n.value.id in ctor_defs:
                try:
                    ds = fn.rd.defs_of_use(n.value)
                except Exception:
                    ds = set()
                if ds and all(d_ in ctor_defs[n.value.id] for d_ in ds):
                    flow_typed.add(n)
        if not typed and not flow_typed:
            continue
        bad = []
        n_acc = 0
        for n in fn.own_nodes():
            if isinstance(n, ast.Attribute) and isinstance(n.value, ast.Name) and (n.value.id in typed or n in flow_typed):
                n_acc += 1
                if n.attr not in universe and not (n.attr.startswith("__") and n.attr.endswith("__")):
                    bad.append(n)
        total += n_acc
        if n_acc:
            obs.append(Ob("A19", clause, fn, fn.node, True,
                          "%d attribute accesses on Atoms-typed values %s: %s" % (
                              n_acc, sorted(typed), "all are methods/properties/attributes of Atoms" if not bad else
                              "unknown attribute(s) %s reported individually below" % sorted({b.attr for b in bad})),
                          construct="def %s" % fn.name, slot="accesses"))
            for b in bad:
                obs.append(Ob("A19", clause, fn, b, False, "`%s` is not an attribute, property or method of Atoms" % ast.unparse(b),
                              slot="unknown-attr:%s" % b.attr, positive=not _dynamic_attrs(repo)))
    if funcs is None and modules is None:
        floor("A19", "attribute accesses on Atoms-typed values", total, 100)
    else:
        anchor = repo.fn(funcs[0]) if funcs else next(f for f in repo.all_fns() if f.module.name in modules)
        obs.append(Ob("A19", clause, anchor, anchor.node, True, "%d attribute accesses on Atoms-typed values inspected in %s" % (total, ", ".join(funcs or modules)),
                      construct="attribute inventory", slot="inventory"))
    return obs


def A20_cif_api(repo, clause):
    from verif_sa.libapi import CifApi
    api = CifApi()
    obs = []
    n = 0
    for q in ("Atoms.load_p1_cif", "Atoms.save_p1_cif"):
        fn = repo.fn(q)
        # values typed by construction: cf = CifFile.ReadCif(...) | CifFile.CifFile(); block = CifFile.CifBlock() | cf[...]
        typed = {}
        for st in fn.own_nodes():
            if isinstance(st, ast.Assign) and len(st.targets) == 1 and isinstance(st.targets[0], ast.Name):
                v = st.value
                d = dotted(v.func) if isinstance(v, ast.Call) else None
                if d in ("CifFile.ReadCif", "CifFile.CifFile"):
                    typed[st.targets[0].id] = "CifFile"
                elif d == "CifFile.CifBlock":
                    typed[st.targets[0].id] = "CifBlock"
                elif isinstance(v, ast.Subscript) and isinstance(v.value, ast.Name) and typed.get(v.value.id) == "CifFile":
                    typed[st.targets[0].id] = "CifBlock"
        for f2 in [fn] + [f for f in repo.all_fns() if f.outer is fn]:
            for c in calls_in(f2):
                d = dotted(c.func)
                if d and d.startswith("CifFile."):
                    name = d.split(".", 1)[1]
                    ok = api.module_has(name)
                    n += 1
                    obs.append(Ob("A20", clause, f2, c, ok, "CifFile.%s %s in the installed PyCifRW %s" % (name, "exists" if ok else "DOES NOT EXIST", api.version),
                                  construct="CifFile.%s(...)" % name, slot="module:%s" % name, positive=True))
                elif isinstance(c.func, ast.Attribute) and isinstance(c.func.value, ast.Name):
                    recv = c.func.value.id
                    cls = typed.get(recv)
                    if cls is None and recv == "block":
                        cls = "CifBlock"
                    if cls is None:
                        continue
                    ok = api.class_has(cls, c.func.attr)
                    n += 1
                    obs.append(Ob("A20", clause, f2, c, ok,
                                  "%s.%s %s in the installed PyCifRW %s class hierarchy %s" % (
                                      cls, c.func.attr, "exists" if ok else "DOES NOT EXIST (AttributeError on every call)", api.version, api.mro(cls)),
                                  construct="%s.%s(...)" % (recv, c.func.attr), slot="%s.%s" % (cls, c.func.attr), positive=True))
    floor("A20", "CIF library calls", n, 8)
    return obs


def _mic_formula(fn, clause, call):
    """The replication count that makes every cell length >= 2*mic is ceil(2*mic / length): `floor(x) + 1` replicates once too
    often exactly when 2*mic is a multiple of a cell length, round/floor replicate too little."""
    e = expand(fn, call.args[0])
    # strip integer conversions
    while True:
        if isinstance(e, ast.Call) and call_name(e) in ("array", "asarray", "int", "astype", "int_", "int64") and (e.args or isinstance(e.func, ast.Attribute)):
            if call_name(e) == "astype" and isinstance(e.func, ast.Attribute):
                e = e.func.value
            else:
                e = e.args[0]
            continue
        break
    ok = False
    positive = False
    why = "not recognised as ceil(2*mic / cell lengths)"

    def is_ratio(x):
        if isinstance(x, ast.BinOp) and isinstance(x.op, ast.Div):
            num = nf(x.left)
            two_mic = nf(ast.parse("2*mic", mode="eval").body)
            return same(x.left, ast.parse("2*mic", mode="eval").body) or repr(num) == repr(two_mic)
        return False
    if isinstance(e, ast.Call) and call_name(e) == "ceil" and e.args and is_ratio(e.args[0]):
        den = e.args[0].right
        den = expand(fn, den)
        ok = isinstance(den, ast.Call) and call_name(den) in ("diag", "diagonal")
        why = "ceil(2*mic / np.diag(cell))" if ok else "ceil(2*mic / %s): the divisor is not the cell diagonal" % ast.unparse(den)[:40]
    else:
        txt = ast.unparse(e)
        has_floor = any(isinstance(x, ast.BinOp) and isinstance(x.op, ast.FloorDiv) for x in ast.walk(e)) or \
            any(isinstance(x, ast.Call) and call_name(x) in ("floor", "floor_divide", "trunc", "fix") for x in ast.walk(e))
        has_round = any(isinstance(x, ast.Call) and call_name(x) in ("round", "rint", "around") for x in ast.walk(e))
        if has_floor or has_round:
            positive = True
            why = "`%s` is %s, not the ceiling: %s" % (txt[:60], "floor(...)+k" if has_floor else "rounding",
                                                      "when 2*mic is an exact multiple of a cell length it replicates once more than needed (or once too little without the +1)"
                                                      if has_floor else "cells just below the threshold are not replicated")
    return Ob("A18", clause, fn, call, ok, "minimum-image replication factor: %s" % why, slot="mic-formula", positive=positive, undecided=not positive)


def A18b_pair_params_parallel(repo, clause):
    """--pp: pair coefficients and type labels are produced one per atom TYPE, in type order: both derive from
    structure.atom_type_elements through comprehensions without filter and without any container that merges equal keys."""
    fn = repo.fn("assign_pair_params_to_structure")
    obs = []
    S = fn.params[0]
    stores = {}
    for n in fn.own_nodes():
        if isinstance(n, ast.Assign) and len(n.targets) == 1 and isinstance(n.targets[0], ast.Attribute) and isinstance(n.targets[0].value, ast.Name) \
                and n.targets[0].value.id == S:
            stores[n.targets[0].attr] = n
    for attr in ("pair_coeffs", "atom_type_labels"):
        if attr not in stores:
            obs.append(Ob("A18b", clause, fn, fn.node, False, "assign_pair_params_to_structure does not set structure.%s" % attr,
                          construct="structure.%s = ..." % attr, slot="parallel:%s" % attr, positive=True))
            continue
        st = stores[attr]
        merged = None
        src = None
        e = st.value
        hops = 0
        while hops < 8:
            hops += 1
            e = expand(fn, e) if not isinstance(e, ast.Name) else e
            if isinstance(e, ast.Name):
                # a list filled by unconditional appends in one loop is a comprehension over that loop's iterable
                apps = [c_ for c_ in method_calls_on(fn, e.id, "append")]
                if apps:
                    loops_ = [[a_ for a_ in fn.ancestors(c_) if isinstance(a_, (ast.For, ast.If, ast.While, ast.Try))] for c_ in apps]
                    if len(apps) == 1 and len(loops_[0]) == 1 and isinstance(loops_[0][0], ast.For):
                        e = loops_[0][0].iter
                        continue
                    break
                vals = all_values(fn, e)
                if not vals or len(vals) != 1:
                    break
                e = vals[0]
                continue
            if isinstance(e, (ast.DictComp, ast.SetComp, ast.Dict, ast.Set)) and not (isinstance(e, ast.Dict) and not e.keys):
                merged = e
                break
            if isinstance(e, ast.Call) and call_name(e) in ("set", "dict", "fromkeys", "unique", "frozenset", "OrderedDict"):
                merged = e
                break
            if isinstance(e, ast.Call) and call_name(e) in ("values", "keys", "items") and isinstance(e.func, ast.Attribute):
                e = e.func.value
                merged_candidate = e
                # a dict view: follow to the dict's definition
                continue
            if isinstance(e, ast.Call) and call_name(e) in ("list", "tuple", "array") and e.args:
                e = e.args[0]
                continue
            if isinstance(e, (ast.ListComp, ast.GeneratorExp)):
                if len(e.generators) != 1 or e.generators[0].ifs:
                    break
                e = e.generators[0].iter
                continue
            if isinstance(e, ast.Attribute) and isinstance(e.value, ast.Name) and e.value.id == S:
                src = e.attr
                break
            break
        ok = src == "atom_type_elements" and merged is None
        if merged is not None:
            d = "goes through `%s`, a container that MERGES equal keys: two atom types of the same element yield one entry, so the per-type lists come out too short and misnumbered" % ast.unparse(merged)[:60]
        elif ok:
            d = "is derived one-to-one from structure.atom_type_elements (comprehensions without filter)"
        else:
            d = "derivation from structure.atom_type_elements not recognised (stopped at `%s`)" % ast.unparse(e)[:50]
        obs.append(Ob("A18b", clause, fn, st, ok, "structure.%s %s" % (attr, d), slot="parallel:%s" % attr, positive=merged is not None, undecided=merged is None))
    return obs


def _is_emptiness(t):
    """len(x) == 0 / x.size == 0 / len(x) < 1 / not x.size ..."""
    txt = ast.unparse(t)
    if isinstance(t, ast.Compare) and len(t.ops) == 1:
        sides = [t.left, t.comparators[0]]
        has_len = any((isinstance(x, ast.Call) and call_name(x) == "len") or (isinstance(x, ast.Attribute) and x.attr in ("size",)) for x in sides)
        has_small = any(const_value(x) in (0, 1) for x in sides)
        return has_len and has_small
    if isinstance(t, ast.BoolOp):
        return all(_is_emptiness(v) for v in t.values)
    if isinstance(t, ast.Attribute) and t.attr == "size":
        return True
    if isinstance(t, ast.Call) and call_name(t) == "len":
        return True
    return False


def _reindex_reached(repo, clause, callee, P, loops):
    """Every normal return of the helper is preceded by the re-index loop, except on paths on which there is nothing to
    re-index (an emptiness test).  A value-dependent shortcut in front of the loop is judged against the ordering contract:
    `P[0] > x` reads P[0] as the SMALLEST deleted index, but every caller passes the list in DESCENDING order."""
    obs = []
    cfg = callee.cfg
    if not loops:
        return obs
    lp = loops[0]
    for r in [n for n in callee.own_nodes() if isinstance(n, ast.Return)]:
        if cfg.dominates(lp, r):
            continue
        bad = None
        belief = None
        for t, pol, k in norm_guards(callee, r):
            if _is_emptiness(t):
                continue
            bad = (t, pol)
            for x in ast.walk(t):
                if isinstance(x, ast.Compare) and len(x.ops) == 1:
                    l, rr = x.left, x.comparators[0]
                    def first_of_P(e):
                        return isinstance(e, ast.Subscript) and isinstance(e.value, ast.Name) and e.value.id == P and const_value(e.slice) == 0
                    def last_of_P(e):
                        return isinstance(e, ast.Subscript) and isinstance(e.value, ast.Name) and e.value.id == P and const_value(e.slice) == -1
                    if (first_of_P(l) and isinstance(x.ops[0], (ast.Gt, ast.GtE))) or (first_of_P(rr) and isinstance(x.ops[0], (ast.Lt, ast.LtE))):
                        belief = "`%s` treats %s[0] as the SMALLEST deleted index" % (ast.unparse(x), P)
                    if (last_of_P(l) and isinstance(x.ops[0], (ast.Lt, ast.LtE))) or (last_of_P(rr) and isinstance(x.ops[0], (ast.Gt, ast.GtE))):
                        belief = "`%s` treats %s[-1] as the LARGEST deleted index" % (ast.unparse(x), P)
            break
        if bad is None:
            obs.append(Ob("A10", clause, callee, r, True, "early return without re-indexing only when there is nothing to re-index (emptiness test)", slot="reindex-reached"))
        else:
            obs.append(Ob("A10", clause, callee, r, False,
                          "the helper returns WITHOUT re-indexing when `%s` is %s%s" % (
                              ast.unparse(bad[0])[:70], bad[1],
                              "; %s, but every caller passes the list sorted in DESCENDING order (the contract of the iterative re-index): the shortcut fires while smaller deleted indices are still pending and surviving terms keep stale atom indices" % belief
                              if belief else " (a value-dependent shortcut that this rule cannot justify)"),
                          slot="reindex-reached", positive=belief is not None, undecided=belief is None))
    return obs


def _row_indices_original(repo, clause, callee):
    """The row numbers handed back to __delitem__ (which applies them to the *_types and extra_*_fields arrays of the ORIGINAL
    length) must be row numbers of the original term array: they may not be computed from an array from which rows have
    already been removed."""
    obs = []
    cfg = callee.cfg
    rets = [r for r in callee.own_nodes() if isinstance(r, ast.Return) and isinstance(r.value, ast.Tuple) and len(r.value.elts) == 2]
    if not rets:
        return obs
    L = rets[-1].value.elts[1]
    if not isinstance(L, ast.Name):
        return obs
    L = L.id
    adds = []
    for n in callee.own_nodes():
        if isinstance(n, ast.Call) and isinstance(n.func, ast.Attribute) and n.func.attr in ("append", "extend") and isinstance(n.func.value, ast.Name) \
                and n.func.value.id == L and n.args:
            adds.append((callee.stmt_of(n), n.args[0]))
        elif isinstance(n, ast.AugAssign) and isinstance(n.target, ast.Name) and n.target.id == L:
            adds.append((n, n.value))
    shrinks = {}
    for n in callee.own_nodes():
        if isinstance(n, ast.Assign) and len(n.targets) == 1 and isinstance(n.targets[0], ast.Name) and isinstance(n.value, ast.Call) \
                and call_name(n.value) == "delete" and n.value.args and isinstance(n.value.args[0], ast.Name) and n.value.args[0].id == n.targets[0].id:
            shrinks.setdefault(n.targets[0].id, []).append(n)
    for st, val in adds:
        # arrays the index value is computed from
        srcs = set()
        work = [val]
        seen = set()
        while work:
            e = work.pop()
            for x in ast.walk(e):
                if isinstance(x, ast.Name) and isinstance(x.ctx, ast.Load) and x.id not in seen:
                    seen.add(x.id)
                    srcs.add(x.id)
                    if callee.stmt_of(x) is not None:
                        for d in callee.rd.defs_of_use(x):
                            if isinstance(d, ast.Assign):
                                work.append(d.value)
                            elif isinstance(d, ast.For):
                                work.append(d.iter)
        stale = None
        subset = None
        for lp_ in [a for a in callee.ancestors(st) if isinstance(a, ast.For)]:
            it_ = lp_.iter
            if isinstance(it_, ast.Call) and call_name(it_) == "enumerate" and it_.args and isinstance(it_.args[0], ast.Subscript) \
                    and isinstance(it_.args[0].value, ast.Name) and it_.args[0].value.id in (callee.params[1] if len(callee.params) > 1 else "", "arr") \
                    and isinstance(lp_.target, ast.Tuple) and isinstance(lp_.target.elts[0], ast.Name) and lp_.target.elts[0].id in srcs:
                subset = it_.args[0]
        if subset is not None:
            obs.append(Ob("A10", clause, callee, st, False,
                          "row numbers added to `%s` count positions within the SELECTION `%s`, not rows of the term array: __delitem__ deletes those positions from the full-length type and extra-field arrays, so another term's type is removed" % (
                              L, ast.unparse(subset)[:50]), slot="row-indices-original", positive=True))
            continue
        for nm in sorted(srcs):
            for sh in shrinks.get(nm, []):
                if cfg.reaches(sh, st):
                    stale = (nm, sh)
        obs.append(Ob("A10", clause, callee, st, stale is None,
                      "row numbers added to `%s` are computed from %s" % (L, "the term array as it was passed in" if stale is None else
                                                                        "`%s` AFTER rows have been removed from it (`%s`): they index the shrunk array, but __delitem__ deletes those rows from the full-length type and extra-field arrays - surviving terms get another term's type" % (stale[0], ast.unparse(stale[1])[:60])),
                      slot="row-indices-original", positive=stale is not None))
    return obs


def A18c_option_types(repo, clause):
    """Every command-line option delivers a value of the kind its use requires, and the defaults of the command line are the
    defaults of the API: a path whose `.suffix` is read is a pathlib.Path; a value that enters arithmetic or a numeric comparison
    is declared float; an index hint is declared int; the replication factors are three ints; a switch that is truth-tested is a flag;
    click passes None for an option without default, so an option whose sink needs a number must carry the API's default."""
    fn = repo.fn("mofun_cli")
    obs = []
    decs = {}
    for d in fn.node.decorator_list:
        if isinstance(d, ast.Call) and call_name(d) in ("option", "argument"):
            decs[_click_dest(d)] = d
    sig_defaults = fn.param_defaults()

    def declared(d):
        t = kwarg(d, "type")
        kind = None
        if isinstance(t, ast.Name) and t.id in ("int", "float", "str"):
            kind = t.id
        elif isinstance(t, ast.Attribute) and t.attr in ("INT", "FLOAT", "STRING"):
            kind = {"INT": "int", "FLOAT": "float", "STRING": "str"}[t.attr]
        elif isinstance(t, ast.Call) and call_name(t) == "Path":
            pt = kwarg(t, "path_type")
            kind = "path" if pt is not None and ast.unparse(pt).endswith("Path") else "strpath"
        elif isinstance(t, ast.Call) and call_name(t) == "File":
            kind = "file"
        dflt = kwarg(d, "default")
        if kind is None and dflt is not None and isinstance(const_value(dflt), float):
            kind = "float"
        if kind is None and dflt is not None and isinstance(const_value(dflt), bool):
            kind = "bool"
        if kind is None and dflt is not None and isinstance(const_value(dflt), int):
            kind = "int"
        return kind, const_value(kwarg(d, "nargs")) if kwarg(d, "nargs") is not None else None, const_value(kwarg(d, "is_flag")) is True, dflt

    def sink_need(callee, q, depth=0):
        """what does parameter q of package function callee need? ('int' index, 'float' number, 'ints' sequence of counts)"""
        if depth < 2:
            for c_ in calls_in(callee):
                inner = repo.maybe_fn(call_name(c_))
                if inner is None or inner is callee:
                    continue
                for k_ in c_.keywords:
                    if isinstance(k_.value, ast.Name) and k_.value.id == q and k_.arg in inner.params:
                        nd_ = sink_need(inner, k_.arg, depth + 1)
                        if nd_:
                            return nd_
        for n in callee.own_nodes():
            if isinstance(n, ast.Subscript):
                idx = n.slice
                parts = idx.elts if isinstance(idx, ast.Tuple) else [idx]
                if any(isinstance(p_, ast.Name) and p_.id == q for p_ in parts):
                    return "int"
        for n in callee.own_nodes():
            if isinstance(n, (ast.ListComp, ast.GeneratorExp)) and any(isinstance(g.iter, ast.Name) and g.iter.id == q for g in n.generators) \
                    and any(isinstance(c_, ast.Call) and call_name(c_) in ("range", "arange") for c_ in ast.walk(n.elt)):
                return "ints"
        for n in callee.own_nodes():
            if isinstance(n, ast.Compare) and len(n.ops) == 1 and isinstance(n.ops[0], (ast.Lt, ast.LtE, ast.Gt, ast.GtE)):
                sides = [n.left, n.comparators[0]]
                if any(isinstance(x, ast.Name) and x.id == q for x in sides) and any(isinstance(const_value(x), (int, float)) for x in sides):
                    return "float"
            if isinstance(n, ast.BinOp) and isinstance(n.op, (ast.Add, ast.Sub, ast.Mult, ast.Div)) and any(isinstance(x, ast.Name) and x.id == q for x in (n.left, n.right)):
                return "float"
            if isinstance(n, ast.keyword) and n.arg in ("atol", "abs_tol", "rtol") and isinstance(n.value, ast.Name) and n.value.id == q:
                return "float"
        return None

    n_typed = 0
    for p, d in decs.items():
        if p not in fn.params:
            continue
        need = None
        why = ""
        api_default = None
        api_defaults = []
        for n in fn.own_nodes():
            if isinstance(n, ast.Attribute) and isinstance(n.value, ast.Name) and n.value.id == p and n.attr in ("suffix", "stem", "parent", "name", "with_suffix"):
                need, why = "path", "`%s.%s` is read" % (p, n.attr)
        if need is None:
            for n in fn.own_nodes():
                if isinstance(n, ast.BinOp) and isinstance(n.op, (ast.Add, ast.Sub, ast.Mult, ast.Div)) and any(isinstance(x, ast.Name) and x.id == p for x in (n.left, n.right)):
                    need, why = "float", "it enters the arithmetic `%s`" % ast.unparse(n)[:40]
        if need is None:
            for n in fn.own_nodes():
                if isinstance(n, ast.If) and isinstance(n.test, ast.Name) and n.test.id == p:
                    need, why = "flag", "it is truth-tested (`if %s:`)" % p
                if isinstance(n, ast.comprehension) and isinstance(n.iter, ast.Name) and n.iter.id == p:
                    need, why = "file", "it is iterated line by line"
        if need is None:
            for c in calls_in(fn):
                callee = repo.maybe_fn(call_name(c)) or repo.maybe_fn("Atoms.%s" % call_name(c))
                if callee is None:
                    continue
                params = [x for x in callee.params if x not in ("self", "cls")]
                for i, a in enumerate(c.args):
                    if isinstance(a, ast.Name) and a.id == p and i < len(params):
                        nd = sink_need(callee, params[i])
                        if nd:
                            need, why = nd, "it is passed to %s(%s)" % (callee.qualname, params[i])
                            api_default = callee.param_defaults().get(params[i])
                for k in c.keywords:
                    if isinstance(k.value, ast.Name) and k.value.id == p and k.arg in callee.params:
                        nd = sink_need(callee, k.arg)
                        if nd:
                            need, why = nd, "it is passed to %s(%s=...)" % (callee.qualname, k.arg)
                            api_default = callee.param_defaults().get(k.arg)
                            if api_default is not None:
                                api_defaults.append((callee.qualname, api_default))
        if need is None:
            continue
        n_typed += 1
        kind, nargs, is_flag, dflt = declared(d)
        if need == "path":
            ok = kind == "path"
            msg = "declared click.Path(path_type=pathlib.Path)" if ok else "NOT declared as a pathlib.Path (declared: %s): click delivers a str and `.suffix` fails" % kind
        elif need == "float":
            ok = kind in ("float", "int")
            msg = "declared numeric (%s)" % kind if ok else "NOT declared numeric (declared: %s): the command line delivers the text as a str" % kind
        elif need == "int":
            ok = kind == "int"
            msg = "declared int" if ok else "NOT declared int (declared: %s): an index hint arrives as %s" % (kind, "a float" if kind == "float" else "text")
        elif need == "ints":
            ok = kind == "int" and nargs == 3
            msg = "declared as three ints (nargs=3, type=int)" if ok else "NOT declared as three ints (type %s, nargs %s)" % (kind, nargs)
        elif need == "flag":
            ok = is_flag
            msg = "declared is_flag=True" if ok else "NOT a flag: `--%s` then demands a value and any non-empty text is true" % p.replace("_", "-")
        else:
            ok = kind == "file"
            msg = "declared click.File" if ok else "NOT declared click.File (declared: %s)" % kind
        obs.append(Ob("A18c", clause, fn, d, ok, "option for `%s`: %s, and is %s" % (p, why, msg), slot="option-type:%s" % p, positive=True))
        # defaults: click passes its own default (None when there is none) - the signature default never applies
        for cq, api_default in (api_defaults if need in ("float",) else []):
            dv = const_value(dflt) if dflt is not None else None
            av = const_value(api_default)
            okd = dflt is not None and dv == av
            obs.append(Ob("A18c", clause, fn, d, okd,
                          "default of `%s`: command line %s, %s %r%s" % (p, repr(dv) if dflt is not None else "NONE (click then passes None)", cq, av,
                                                                          "" if okd else (": omitting the option does not behave like the API default" if dflt is not None else
                                                                                          ": omitting the option hands None to a numeric comparison")),
                          slot="option-default:%s:%s" % (p, cq), positive=True))
            sv = sig_defaults.get(p)
            if sv is not None and const_value(sv) is not None:
                obs.append(Ob("A18c", clause, fn, fn.node, const_value(sv) == av, "signature default of mofun_cli(%s=%r) equals the API default %r" % (p, const_value(sv), av),
                              construct="def mofun_cli(... %s=%s ...)" % (p, ast.unparse(sv)), slot="signature-default:%s:%s" % (p, cq), positive=True))
    floor("A18c", "options whose required kind can be derived from their use", n_typed, 11)
    # the structure is read by the library loader exactly for the suffixes the loader dispatches on
    tests = [n for n in fn.own_nodes() if isinstance(n, ast.If) and isinstance(n.test, (ast.Compare, ast.UnaryOp)) and "suffix" in ast.unparse(n.test)]
    for t in tests:
        te, pol = t.test, True
        while isinstance(te, ast.UnaryOp) and isinstance(te.op, ast.Not):
            te, pol = te.operand, not pol
        if not (isinstance(te, ast.Compare) and len(te.ops) == 1 and isinstance(te.ops[0], (ast.In, ast.NotIn))):
            continue
        if isinstance(te.ops[0], ast.NotIn):
            pol = not pol
        lib_branch = t.body if pol else t.orelse
        which = "load" if "inputpath" in ast.unparse(te.left) else "save"
        uses_lib = any(isinstance(c_, ast.Call) and call_name(c_) == which for b in lib_branch for c_ in ast.walk(b))
        obs.append(Ob("A18c", clause, fn, t, uses_lib,
                      "files whose suffix is in %s are handled by Atoms.%s%s" % (ast.unparse(te.comparators[0])[:40], which,
                                                                                "" if uses_lib else " -- NO: the branches are exchanged, the library's own formats go to ASE and everything else to the library"),
                      slot="suffix-branch:%s" % which, positive=True))
    return obs


def _order_beliefs(repo, clause, callee, P):
    """Every caller passes the deleted indices in DESCENDING order (the contract of the iterative re-index), so P[0] is the LARGEST and
    P[-1] the SMALLEST deleted index.  A comparison that has P[0] on the greater side (`P[0] > x`, `x < P[0]`) uses it as a lower bound of
    the deleted indices - i.e. believes it is the smallest - and vice versa for P[-1]: a contradiction with the contract."""
    obs = []
    for x in [n for n in callee.own_nodes() if isinstance(n, ast.Compare) and len(n.ops) == 1 and isinstance(n.ops[0], (ast.Lt, ast.LtE, ast.Gt, ast.GtE))]:
        l, r = expand(callee, x.left), expand(callee, x.comparators[0])
        def end_of_P(e):
            if isinstance(e, ast.Subscript) and const_value(e.slice) in (0, -1):
                v = e.value
                # order-preserving wrappers: np.asarray(P), np.array(P, dtype=int), list(P), tuple(P)
                while isinstance(v, ast.Call) and call_name(v) in ("asarray", "array", "list", "tuple", "asanyarray") and v.args:
                    v = v.args[0]
                if isinstance(v, ast.Name) and v.id == P:
                    return const_value(e.slice)
            return None
        gt = isinstance(x.ops[0], (ast.Gt, ast.GtE))
        greater, smaller = (l, r) if gt else (r, l)
        bad = None

        def has_call(e, names):
            return any(isinstance(y, ast.Call) and call_name(y) in names for y in ast.walk(e))
        # "P[0] exceeds a MAXIMUM of remaining atom numbers" only says something if P[0] is the smallest deleted index;
        # "P[-1] is below a MINIMUM" only if P[-1] is the largest.  (P[0] against a minimum / P[-1] against a maximum are consistent uses.)
        if end_of_P(greater) == 0 and has_call(smaller, ("max", "amax")):
            bad = "%s[0] as a LOWER bound of the deleted indices (as if it were the smallest)" % P
        elif end_of_P(smaller) == -1 and has_call(greater, ("min", "amin")):
            bad = "%s[-1] as an UPPER bound of the deleted indices (as if it were the largest)" % P
        if end_of_P(greater) is None and end_of_P(smaller) is None:
            continue
        obs.append(Ob("A10", clause, callee, x, bad is None,
                      "`%s` uses %s" % (ast.unparse(x), bad + ", but every caller passes the list in DESCENDING order: terms touching a smaller deleted index are skipped and keep stale atom numbers"
                                        if bad else "the ends of the descending list consistently with the contract"),
                      slot="order-belief", positive="robust" if bad is not None else False))
    return obs


def A18d_option_decisions(repo, clause):
    """Which operation runs for which combination of options: every optional stage runs exactly when its option was given (truth
    table of the stage's guards over given / not given), the find/replace decision over the four combinations of -f and -r, the minimum
    image factor as a monomial, and flag defaults."""
    import itertools
    fn = repo.fn("mofun_cli")
    obs = []

    class Unk(Exception):
        pass

    def tv(e, given, data=None):
        if isinstance(e, ast.BoolOp):
            vals = [tv(v, given, data) for v in e.values]
            return all(vals) if isinstance(e.op, ast.And) else any(vals)
        if isinstance(e, ast.UnaryOp) and isinstance(e.op, ast.Not):
            return not tv(e.operand, given, data)
        if data is not None and not ({x.id for x in ast.walk(e) if isinstance(x, ast.Name)} & set(given)):
            # a condition on the data (cell shape ...), not on the options: a free boolean of the table
            key_ = ast.unparse(e)
            if key_ not in data:
                raise KeyError(key_)
            return data[key_]
        if isinstance(e, ast.Compare) and len(e.ops) == 1 and isinstance(e.left, ast.Name) and e.left.id in given \
                and isinstance(e.comparators[0], ast.Constant) and e.comparators[0].value is None:
            if isinstance(e.ops[0], ast.Is):
                return not given[e.left.id]
            if isinstance(e.ops[0], ast.IsNot):
                return given[e.left.id]
        if isinstance(e, ast.Name) and e.id in given:
            return given[e.id]
        raise Unk(ast.unparse(e))

    def runs(node, given, only):
        """can the stage run under this option pattern - for SOME values of the data-dependent conditions that share a guard with an option?"""
        gs_ = []
        for t, pol, k in norm_guards(fn, node):
            t = expand(fn, t)           # a flag such as `enforce_mic = mic is not None` stands for its definition
            names = {x.id for x in ast.walk(t) if isinstance(x, ast.Name)}
            if not names & set(only):
                continue
            gs_.append((t, pol))
        atoms_ = []

        def collect(e):
            if isinstance(e, ast.BoolOp):
                for v in e.values:
                    collect(v)
            elif isinstance(e, ast.UnaryOp) and isinstance(e.op, ast.Not):
                collect(e.operand)
            elif not ({x.id for x in ast.walk(e) if isinstance(x, ast.Name)} & set(given)):
                if ast.unparse(e) not in atoms_:
                    atoms_.append(ast.unparse(e))
        for t, pol in gs_:
            collect(t)
        if len(atoms_) > 4:
            raise Unk("too many data conditions")
        for bits in itertools.product((False, True), repeat=len(atoms_)):
            data = dict(zip(atoms_, bits))
            if all(tv(t, given, data) == pol for t, pol in gs_):
                return True
        return False

    stages = []
    for c in calls_in(fn):
        nm = call_name(c)
        if nm == "replicate" and c.args and isinstance(c.args[0], ast.Name) and c.args[0].id == "replicate":
            stages.append(("replicate", c, ["replicate"], lambda g: g["replicate"]))
        elif nm == "replicate":
            stages.append(("mic-replicate", c, ["mic"], lambda g: g["mic"]))
        elif nm == "assign_pair_params_to_structure":
            stages.append(("pair-coeffs", c, ["pp"], lambda g: g["pp"]))
        elif nm == "replace_pattern_in_structure":
            stages.append(("replace", c, ["find_path", "replace_path"], lambda g: g["find_path"] and g["replace_path"]))
        elif nm == "find_pattern_in_structure":
            stages.append(("find-only", c, ["find_path", "replace_path"], lambda g: g["find_path"] and not g["replace_path"]))
    ch = [n for n in fn.own_nodes() if isinstance(n, ast.Assign) and isinstance(n.targets[0], ast.Attribute) and n.targets[0].attr == "charges"]
    if ch:
        stages.append(("charge-override", ch[0], ["chargefile"], lambda g: g["chargefile"]))
    uc = [n for n in fn.own_nodes() if isinstance(n, ast.Assign) and isinstance(n.targets[0], ast.Attribute) and n.targets[0].attr == "cell" and "extract_uc_path" in ast.unparse(n.value)]
    if uc and "extract_uc_path" in fn.params:
        stages.append(("extract-uc", uc[0], ["extract_uc_path"], lambda g: g["extract_uc_path"]))
    # a stage may depend on its option only: an additional data-dependent condition makes the command line differ from the API sequence for some inputs
    for name, node, opts, want in stages:
        for t, pol, k in norm_guards(fn, node):
            t = expand(fn, t)
            if not pol:
                continue     # a negated compound guard (an earlier elif arm) does not ADD a requirement of this form
            parts = t.values if isinstance(t, ast.BoolOp) else [t]
            names_t = {x.id for x in ast.walk(t) if isinstance(x, ast.Name)}
            if not names_t & set(opts):
                continue
            extra_ = [p_ for p_ in parts if not ({x.id for x in ast.walk(p_) if isinstance(x, ast.Name)} & set(opts))]
            if extra_ and isinstance(t, ast.BoolOp) and isinstance(t.op, ast.And):
                obs.append(Ob("A18d", clause, fn, node, False,
                              "stage `%s` additionally requires `%s`: with the option given, the stage is silently skipped for inputs where that is false, which the API sequence does not do" % (name, ast.unparse(extra_[0])[:60]),
                              slot="stage-extra-condition:%s" % name, positive=True))
    floor("A18d", "optional stages of the command line", len(stages), 5)
    for name, node, opts, want in stages:
        wrong = []
        try:
            for bits in itertools.product((False, True), repeat=len(opts)):
                g = dict(zip(opts, bits))
                if runs(node, g, opts) != bool(want(g)):
                    wrong.append(g)
        except Unk as e:
            obs.append(Ob("A18d", clause, fn, node, False, "stage %s: guard `%s` is outside the option-table language" % (name, e), slot="stage-table:%s" % name, undecided=True))
            continue
        obs.append(Ob("A18d", clause, fn, node, not wrong,
                      "stage `%s` runs exactly when %s" % (name, {"replace": "-f and -r are both given", "find-only": "-f is given without -r"}.get(name, "its option is given")) + (
                          "" if not wrong else " -- WRONG for %s: the stage %s" % (
                              {k: ("given" if v else "absent") for k, v in wrong[0].items()}, "is skipped" if want(wrong[0]) else "runs anyway")),
                      slot="stage-table:%s" % name, positive=True))
    # minimum-image factor as a monomial: 2 * mic / diag(cell), inside ceil
    mic_c = [c for c in calls_in(fn) if call_name(c) == "replicate" and c.args and "mic" in ast.unparse(expand(fn, c.args[0]))]
    if mic_c:
        e = expand(fn, mic_c[0].args[0])
        inner = [x for x in ast.walk(e) if isinstance(x, ast.Call) and call_name(x) == "ceil" and x.args]
        if inner:
            def mono(x):
                if const_value(x) is not None and isinstance(const_value(x), (int, float)):
                    return float(const_value(x)), {}
                if isinstance(x, ast.Name):
                    return 1.0, {x.id: 1}
                if isinstance(x, ast.Call) and call_name(x) in ("diag", "diagonal"):
                    return 1.0, {"diag": 1}
                if isinstance(x, ast.BinOp) and isinstance(x.op, (ast.Mult, ast.Div)):
                    c1, a1 = mono(x.left)
                    c2, a2 = mono(x.right)
                    sgn = 1 if isinstance(x.op, ast.Mult) else -1
                    if sgn == -1 and c2 == 0:
                        raise Unk("div0")
                    out = dict(a1)
                    for k, v in a2.items():
                        out[k] = out.get(k, 0) + sgn * v
                    return (c1 * c2 if sgn == 1 else c1 / c2), {k: v for k, v in out.items() if v}
                raise Unk(ast.unparse(x))
            try:
                cf, at = mono(inner[0].args[0])
                okm = abs(cf - 2.0) < 1e-12 and at == {"mic": 1, "diag": -1}
                obs.append(Ob("A18d", clause, fn, inner[0], okm,
                              "minimum-image factor = ceil(%g * %s)%s" % (cf, " * ".join("%s^%d" % kv for kv in sorted(at.items())),
                                                                            "" if okm else " -- must be ceil(2 * mic / cell length): every cell length has to reach TWICE the cutoff"),
                              slot="mic-monomial", positive=True))
            except Unk:
                pass
    # a flag is off unless given; every constant default of an option equals the default in the signature
    sig = fn.param_defaults()
    for d in fn.node.decorator_list:
        if not (isinstance(d, ast.Call) and call_name(d) in ("option",)):
            continue
        p = _click_dest(d)
        dv = kwarg(d, "default")
        if dv is None or p not in sig:
            continue
        a, b = const_value(dv), const_value(sig[p])
        if isinstance(dv, ast.Constant) and isinstance(sig[p], ast.Constant):
            obs.append(Ob("A18d", clause, fn, d, a == b, "option default of `%s` is %r, signature default %r" % (p, a, b), slot="default-agreement:%s" % p, positive=True))
    return obs
