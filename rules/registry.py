"""Property -> rules map.  Each entry: (rule function, clause label[, kwargs])."""
from . import fam_a as A
from . import fam_a2 as A2
from . import fam_b as B
from . import fam_d as D
from . import fam_e as E
from . import fam_c as C

COMMON_ASSUMPTIONS = [
    "CPython's ast module parses /repo/mofun exactly as the interpreter would",
    "NumPy/SciPy/ordered-set/PyCifRW functions behave as documented (np.delete/np.append return new arrays, cdist is a distance matrix, ...)",
    "implicit exceptions of ordinary expressions are not modelled by the CFG (only explicit raise and try bodies)",
    "only the structural clauses listed under clauses_decided are decided; the value-level remainder under not_decided is NOT claimed",
]

PROPERTIES = {
    "C01": {
        "rules": [
            (C.C_find_gates, "C01.1-2 element gate and full-prefix distance check"),
            (A.A6_rotation_gate, "C01.3-4 rotation re-check gates every reported match; tuples and rotations stay paired"),
            (A.A6r_every_return_through_groups, "C01.3 every return of the search reports the re-checked survivors, never the raw candidates"),
            (A.A7_tolerance_provenance, "C01.2-3 tolerance provenance", {"funcs": ["find_pattern_in_structure", "replace_pattern_in_structure"]}),
            (C.C_idx_find, "C01.4 index spaces: image index folding, parallel results"),
            (A.A1_inputs_not_mutated, "C01.5 search does not modify its inputs",
             {"only": ["find_pattern_in_structure", "_get_positions_from_all_adjacent_unit_cells", "position_index_farthest_from_axis", "group_duplicates", "Atoms.copy"]}),
            (A.A2_copy_is_deep, "C01.5 copies are deep"),
            (C.C_quaternion_layout, "C01 rotation construction: quaternion layout (vector, scalar), same half angle, normalised axis, clipped angle"),
            (C.C_roll_every_return, "C01 every return of the roll helper is the rotation built from the measured angle (no tolerance shortcut to the identity)"),
            (A2.A14b_fallback_axis, "C01 antiparallel poses: the fallback rotation axis is never degenerate by construction"),
        ],
        "decided": "element equality gate per pattern position; every earlier distance is re-checked with atol; no match is returned without passing "
                   "the rotation re-check (rotate, then translate to the anchor, compare with atol); returned indices, positions and rotations "
                   "are selected by the same accepted candidate and folded with the same image index; inputs are not modified",
        "not_decided": "that the quaternion construction yields a proper rotation that aligns the pattern (numerical geometry); distinctness of atoms in a tuple; "
                       "np.allclose's hidden rtol; behaviour for all tolerances and poses as values",
        "explanation": "Static rules over find_pattern_in_structure: control-dependence of every accepted candidate on the element test, the "
                       "distance loop and the rotation re-check; typestate of the checked pattern copy (copy < rotate < translate < compare); "
                       "index-space typing of every subscript (unit-cell atoms / image atoms / nearby atoms / pattern atoms); ownership analysis of inputs.",
    },
    "C02": {
        "rules": [
            (D.D4_windows, "C02.1-2 search radius and window bounds on all axes"),
            (C.C_axis_windows, "C02.2-3 plane normals paired with the remaining lattice row; 27 images; home cell first"),
            (B.B2_axis_runs, "C02 per-axis sibling expressions cover axes 0,1,2 exactly once", {"funcs": ["_get_positions_from_all_adjacent_unit_cells", "uc_neighbor_offsets"]}),
            (C.C_idx_find, "C02.3-4 start atoms from the home block; grouping key folds like the result"),
            (A.A6_rotation_gate, "C02.4 at most one survivor per atom group"),
            (A.A6r_every_return_through_groups, "C02.4 every return of the search reports the per-group survivors, never the raw candidates"),
            (A.A7_tolerance_provenance, "C02.5 filter tolerance", {"funcs": ["find_pattern_in_structure"]}),
            (A2.A14b_fallback_axis, "C02 antiparallel poses: the fallback rotation axis is never degenerate by construction"),
        ],
        "decided": "search radius = pattern diameter + c*atol (c>=1) shared by both spatial filters; each of the 18 window bounds extends by the radius "
                   "beyond the cell on its axis; triclinic plane normals are paired with the remaining lattice vector; all 27 images are generated and the "
                   "home cell is block 0 from which start atoms are taken; duplicates are grouped by the folded, sorted atom indices and at most one survives",
        "not_decided": "that these windows suffice for every pose (geometric argument that a match has diameter <= D + atol is an assumption); "
                       "that nothing outside tolerance is reported; equality of counts",
        "explanation": "Affine normal forms of every window comparison (lower <= -r, upper >= extent + r), sibling agreement of the per-axis conjuncts, "
                       "axis-role check of the triclinic normals, literal check of the 27 image multipliers, path enumeration of the group loop.",
    },
    "C03": {
        "rules": [
            (A2.A15_none_tests, "C03.1 hints honoured for every valid index including 0"),
            (A2.A18_cli_wiring, "C03.1 hints forwarded unchanged by replace and by the CLI"),
            (A2.A14_randomness_sites, "C03.2 randomness confined to confirmed sites"),
            (C.C_taint_absolute_coords, "C03.3 absolute coordinates reach no comparison other than the windows"),
            (C.C_axis_replicate, "C03.4 supercell construction (cell scaling per lattice vector)"),
            (A.A7_tolerance_provenance, "C03 matching is decided by an absolute tolerance that does not depend on where the atoms sit", {"funcs": ["find_pattern_in_structure"]}),
            (D.D4_windows, "C03 shift/wrap invariance needs windows that extend by the full pattern radius on every axis"),
            (C.C_axis_windows, "C03 shift/wrap invariance on triclinic cells: plane normals, widths and norms are paired per axis"),
        ],
        "decided": "optional hint indices are tested with `is None` (index 0 is valid) and forwarded unchanged; random calls are exactly the confirmed "
                   "sites with group-local arguments; absolute coordinates only flow into the three shift-covariant window filters, the distance matrix and the "
                   "pattern-relative re-check; supercell cell scaling is per lattice vector",
        "not_decided": "the metamorphic equalities themselves (shift, permutation, rigid motion of the pattern, a*b*c multiplicity) are relations between two runs",
        "explanation": "Truthiness lint on optional index parameters, who-may-call table for random/np.random with argument provenance, "
                       "taint-style dataflow from structure.positions to comparison sinks, axis-role inference on cell arithmetic.",
    },
    "C04": {
        "rules": [
            (A.A1_inputs_not_mutated, "C04.1 inputs unmodified", {"only": ["replace_pattern_in_structure", "find_pattern_in_structure", "find_unchanged_atom_pairs", "Atoms.copy"]}),
            (A.A2_copy_is_deep, "C04.1 copies are deep"),
            (A.A1w_who_may_mutate, "C04.1 no helper reached from the replacement mutates a caller-owned object (package-wide effect summaries)"),
            (A.A5_overlap_guard, "C04.2 deletion set = matched minus retained"),
            (A.A3_fragment_typestate, "C04.2 single bulk delete after all insertions"),
            (A2.A14_randomness_sites, "C04.3 round(f*M) matches sampled"),
            (C.C_idx_replace, "C04.3 parallel results filtered by the same index list; reported count"),
            (A2.A12_extend_bookkeeping, "C04.4 bystanders untouched by extend"),
            (C.C_unchanged_pairs, "C04 atoms common to both patterns are identified by equal element and coinciding coordinates"),
            (D.D2_type_counts, "C04 inserted atoms get their own element/label/mass rows: the atom-type offset equals the table length", {"kinds": ("atom",), "pair": False}),
            (A.A7_tolerance_provenance, "C04 only matches found with the caller's tolerance are replaced", {"funcs": ["replace_pattern_in_structure", "find_pattern_in_structure"]}),
            (A2.A13_exhaustive_per_atom, "C04.4 delete removes rows only at the given indices", {"part": "delitem"}),
        ],
        "decided": "all three inputs are only read or deep-copied; deletion set is the union over selected matches of (match atoms - retained atoms), applied by one "
                   "bulk delete after the last insertion; number selected = round(f*len(matches)) over range(len(matches)); the three parallel search results are "
                   "filtered by the same index list and the reported count is the filtered length; extend writes existing rows only through the identity map",
        "not_decided": "element-count arithmetic; 'only found matches are replaced' as a value statement",
        "explanation": "Ownership/effect analysis with summaries over the call graph, typestate + dominance rules in the replace loop, argument provenance of random.sample, index-space typing.",
    },
    "C05": {
        "rules": [
            (A.A4_same_frame, "C05.1 same frame for both patterns; anchor agreement"),
            (A.A3_fragment_typestate, "C05.2 placement order rotate < translate < wrap < insert"),
            (C.C_idx_replace, "C05.2 rotation, anchor and index tuple of one match come from the same match number"),
            (C.C_axis_diag, "C05.3 wrapping valid for every cell shape"),
            (A.A7_tolerance_provenance, "C05.2 the match rotation is accepted with the caller's tolerance", {"funcs": ["find_pattern_in_structure", "replace_pattern_in_structure"]}),
            (C.C_unchanged_pairs, "C05 replacement-only atoms are inserted, shared atoms kept: shared means coinciding coordinates"),
            (C.C_quaternion_layout, "C05 the match rotation is built as a proper rotation quaternion in SciPy's layout"),
            (C.C_roll_every_return, "C05 every return of the roll helper is the rotation built from the measured angle (no tolerance shortcut to the identity)"),
        ],
        "decided": "both patterns are shifted by the same vector read before either is moved; the fragment goes copy < rotate < translate < wrap < extend on every path; "
                   "the final translation goes to the match position of the atom that was the origin; np.diag(cell) is used for wrapping only under an orthorhombic guard",
        "not_decided": "the numeric bound proportional to the tolerance; invariance under joint rigid motion (relation between runs)",
        "explanation": "Use-before-kill dataflow on the two origin shifts, path typestate of the inserted fragment, axis-role rule on np.diag(cell).",
    },
    "C06": {
        "rules": [
            (D.D2_type_counts, "C06.1 type-id offsets point at the appended rows"),
            (B.B4_offsets_tuple, "C06.1 offsets tuple order = subscript per kind"),
            (A.A3_fragment_typestate, "C06.1 extend_types once before the loop, offsets passed to every extend"),
            (A2.A12_extend_bookkeeping, "C06.2 re-targeting of term atom indices"),
            (C.C_idx_extend, "C06.2 index spaces in extend"),
            (C.C_unchanged_pairs, "C06 which pattern atoms are taken over vs. inserted: shared means equal element and coinciding coordinates"),
            (E.E_override_both_directions, "C06.3 override in both directions"),
            (B.B1_kind_blocks, "C06.3 per-kind blocks agree", {"funcs": ["Atoms.extend", "Atoms.extend_types", "Atoms.__delitem__"]}),
            (A2.A9_companion_index_lists, "C06.3-4 deletion of overridden/touched rows uses the index list of the same kind"),
        ],
        "decided": "per kind, the merge offset equals the length of the coefficient table it indexes on every leaf; tuple order = subscript per kind; type tables are merged "
                   "once and every insertion receives those offsets; term atoms are re-targeted through identity map + appended-row map; existing terms on the same atoms are "
                   "found forwards and reversed and both index lists are deleted from tuples, types and extra fields of the same kind",
        "not_decided": "'exactly once'; coefficient-text equality as values",
        "explanation": "Decision-list leaf analysis of num_*_types against table lengths, sibling anti-unification of the per-kind blocks, reaching definitions of index lists.",
    },
    "C07": {
        "rules": [
            (A.A5_overlap_guard, "C07 guard shape, raise, retained atoms, set semantics"),
            (B.G1_no_swallowed_errors, "C07 no handler between the refusal and the caller: the overlap error cannot be swallowed"),
            (C.C_idx_replace, "C07 retained-atom map values are structure indices of this match"),
            (C.C_unchanged_pairs, "C07 which atoms count as retained: equal element and coinciding coordinates only"),
        ],
        "decided": "the running deletion set is updated only if disjoint from this match's deletion set or the ignore flag is set; otherwise the dedicated exception is raised "
                   "before any structure is returned and no handler swallows it; retained atoms are excluded from the per-match deletion set and are exactly the atoms passed as "
                   "identities to extend; the empty-replacement branch is a plain union",
        "not_decided": "value-level behaviour of Python sets",
        "explanation": "Control-dependence of the update on the disjointness test, CFG reachability of the raise, per-path agreement of the retained-atom map between extend and the deletion set.",
    },
    "C08": {
        "rules": [
            (C.C_unchanged_pairs, "C08.1 atoms present in both patterns are kept in place"),
            (A.A5_overlap_guard, "C08.1 retained atoms are excluded from deletion and passed as identities"),
            (A.A4_same_frame, "C08.2 both patterns compared in the same frame"),
            (C.C_identity_rotation_single_atom, "C08.3 one-atom pattern: rotation is the identity on every path"),
            (C.C_idx_replace, "C08 reversibility needs each match to be placed with its own rotation/anchor (parallel lists stay parallel)"),
            (A.A3_fragment_typestate, "C08 reversibility needs the placement order rotate < translate < wrap < insert"),
            (C.C_axis_diag, "C08 reversibility on tilted cells needs a lattice-correct wrap"),
            (D.D4_windows, "C08 'a second search finds none' needs the search radius to cover the whole pattern"),
            (D.D2_type_counts, "C08 re-typed atoms keep their element in chained replacements: the atom-type offset equals the table length", {"kinds": ("atom",), "pair": False}),
            (E.E_override_both_directions, "C08 self-replacement keeps the set of bonded tuples: exactly the superseded terms are removed"),
            (A.A7_tolerance_provenance, "C08 replace searches with the caller's tolerance", {"funcs": ["replace_pattern_in_structure", "find_pattern_in_structure"]}),
        ],
        "decided": "find_unchanged_atom_pairs pairs atoms only under (distance < max_delta) and (equal element); its result (replacement index -> search index) becomes "
                   "(replacement index -> structure index), is the identity map given to extend and is excluded from deletion; both patterns are in the same frame; for a "
                   "one-atom pattern the rotation stays the identity",
        "not_decided": "every equality in the statement (positions, charges, groups, topology unchanged; A->B->A restores the multiset; second search finds nothing): relations between structures at run time",
        "explanation": "Only the structural preconditions of the no-op are decided: control dependence of the pairing on both tests, index-space typing of the pair map, reaching definitions of the rotation.",
    },
    "C09": {
        "rules": [
            (A2.A13_exhaustive_per_atom, "C09.1/3 every per-atom array handled; subset keeps type tables"),
            (A2.A9_companion_index_lists, "C09.1 companion arrays use their own kind's index list"),
            (B.B1_kind_blocks, "C09.1 per-kind blocks agree"),
            (A2.A8_assertion_postdominates, "C09.1 consistency assertion ends every size-changing operation"),
            (D.D2_type_counts, "C09.2 type ids keep resolving to their own rows"),
            (B.B4_offsets_tuple, "C09.2 offsets per kind"),
            (A2.A10_descending_contract, "C09.1 index re-mapping on delete: descending-order contract, drop iff any atom deleted"),
            (A2.A11_pop_deletes, "C09.1 pop deletes exactly one atom with a normalised index"),
            (A.A5_overlap_guard, "C09 replacing hands the bulk delete a set of distinct atom indices"),
            (A.A2_copy_is_deep, "C09.4 copy is deep"),
            (A.A1_inputs_not_mutated, "C09.4 replicate / subset work on copies", {"only": ["Atoms.replicate", "Atoms.__getitem__", "Atoms.copy"]}),
            (A.A1w_who_may_mutate, "C09 only the documented operations modify an Atoms object in place (package-wide effect summaries)"),
            (E.E1_lmpdat_writer_reader, "C09.5 writer counts come from arrays of their own kind"),
        ],
        "decided": "every size-changing operation updates every per-atom array and every per-term companion array with the index list of its own kind and ends in the consistency "
                   "assertion; counts used as offsets/declared counts equal table lengths on every leaf; subsets forward all atom-type tables; copies are deep",
        "not_decided": "the invariant over arbitrary operation histories as a value statement; 'reads back to the same structure'",
        "explanation": "Exhaustiveness derived from the consistency assertion itself, post-dominance on the CFG, sibling anti-unification, decision-list leaf analysis.",
    },
    "C10": {
        "rules": [
            (A2.A11_pop_deletes, "C10.1 pop performs a deletion"),
            (A2.A13_exhaustive_per_atom, "C10.2 all per-atom arrays deleted with the same index", {"part": "delitem"}),
            (A2.A10_descending_contract, "C10.3-4 drop iff any atom deleted; descending-order contract"),
            (A2.A9_companion_index_lists, "C10.3 type and extra-field rows dropped with the same kind's index list"),
            (B.B1_kind_blocks, "C10.3 per-kind blocks agree", {"funcs": ["Atoms.__delitem__"]}),
            (A2.A8_assertion_postdominates, "C10 consistency assertion"),
        ],
        "decided": "pop reaches __delitem__ on self on every path with a normalised index; all five per-atom arrays are deleted with the same index along axis 0; a term is dropped iff any "
                   "of its atoms is deleted, together with its type and extra-field rows of the same kind; all four call sites pass a descending index sequence to the iterative re-index",
        "not_decided": "that the iterative decrement is arithmetically right for every subset (the callee's algorithm)",
        "explanation": "Must-pass-through on pop's CFG, table derived from the consistency assertion, caller/callee contract check, reaching definitions.",
    },
    "C11": {
        "rules": [
            (A2.A12_extend_bookkeeping, "C11 offset before append, one selector, index map, identity adoption"),
            (C.C_idx_extend, "C11 index spaces in extend: other-indices select the other's rows, self-indices the receiver's rows"),
            (B.B1_kind_blocks, "C11 per-kind blocks agree", {"funcs": ["Atoms.extend", "Atoms.extend_types", "Atoms._extend_extra_fields", "Atoms.__init__"]}),
            (B.B4_offsets_tuple, "C11 offset slot per kind"),
            (E.E_override_both_directions, "C11 forward and reverse override"),
            (E.E_extra_fields_order, "C11 self padded to merged label set before other's rows are matched"),
            (A2.A8_assertion_postdominates, "C11 consistency assertion"),
            (A2.A9_companion_index_lists, "C11 overridden rows deleted with the same kind's index list"),
            (D.D2_type_counts, "C11 added terms resolve to the other's own coefficient text: the type offset equals the table length", {"pair": False}),
            (A.A21_no_mutable_default_mutation, "C11 repeated extension: the identity-map parameter (mutable default) is never written"),
            (A.A1w_who_may_mutate, "C11 extend modifies only the receiver", {"roots": ("Atoms.extend", "Atoms.replicate")}),
        ],
        "decided": "offset read before append; one selector for all per-atom appends; index map = appended rows overlaid with the identity map; identity-mapped atoms adopt the other's type + offset "
                   "and extra fields; per-kind blocks (convert, find existing, append, delete overridden) agree; forward and reverse override; label merge order",
        "not_decided": "value-level statements ('.' filling, coefficient text equality)",
        "explanation": "Dataflow/dominance rules in Atoms.extend, sibling anti-unification over the four kinds, order rules in _extend_extra_fields.",
    },
    "C12": {
        "rules": [
            (C.C_axis_replicate, "C12.1-2 cell scaling per lattice vector; image translation"),
            (B.B4_offsets_tuple, "C12.3 shared type ids: explicit zero offsets of the right arity"),
            (A.A1_inputs_not_mutated, "C12.4 original untouched", {"only": ["Atoms.replicate", "Atoms.copy"]}),
            (A.A2_copy_is_deep, "C12.4 copies are deep"),
            (A2.A12_extend_bookkeeping, "C12.5 terms copied per image by extend"),
            (B.B1_kind_blocks, "C12.5 per-kind blocks of extend agree (every kind of term is copied with its own types)", {"funcs": ["Atoms.extend", "Atoms._extend_extra_fields"]}),
            (E.E_extra_fields_order, "C12.5 extra columns survive the per-image extend"),
            (A.A21_no_mutable_default_mutation, "C12 per-image extend: no state shared between calls through mutable defaults"),
        ],
        "decided": "cell scaling multiplies each lattice vector (row) by its own factor; image translation contracts the multipliers over the lattice axis; multipliers enumerate range(r) per "
                   "dimension with the zero image removed once; every extend in replicate passes zero offsets of the arity extend indexes; accumulator and images are deep copies",
        "not_decided": "the count/offset enumeration as values",
        "explanation": "Axis-role inference (cell: rows = lattice vectors), literal-tuple arity, ownership analysis.",
    },
    "C13": {
        "rules": [
            (E.E1_lmpdat_writer_reader, "C13 section table, column layouts, +1/-1 pairing, tilt entries, count lines, comments"),
            (B.B1_kind_blocks, "C13 per-kind writer and reader blocks agree", {"funcs": ["Atoms.save_lmpdat", "Atoms.load_lmpdat", "Atoms.num_*_types"]}),
            (D.D2_type_counts, "C13 declared type counts match the sections written", {"pair": False}),
            (D.D3_format_arity, "C13 format arity at all writer sites", {"modules": ["mofun.atoms"]}),
            (E.E_dispatch, "C13 load/save dispatch by extension or explicit type"),
            (C.C_axis_diag, "C13 box lengths from the cell diagonal only after LAMMPS orientation is validated"),
            (B.G1_no_swallowed_errors, "C13 the reader's only exception handler is the documented element fallback"),
        ],
        "decided": "sections written are sections parsed; per section and atom style the writer's columns equal the reader's slices with +1/-1 pairing; tilt factors are written from and read back "
                   "into the same cell entries; count lines use arrays of their own kind; declared type counts equal table lengths; comment re-attachment uses the writer's separator; dispatch opens the right mode",
        "not_decided": "numeric round-trip 'to the printed precision'; byte-identity after one pass",
        "explanation": "Writer/reader table extraction (format strings vs. slices), sibling agreement, decision-list leaves, format-slot arity.",
    },
    "C14": {
        "rules": [
            (A2.A17_mass_guess, "C14 two-sided tolerance, nearest element, fallback for all types"),
            (E.E3_mass_table, "C14 mass table well-formed"),
            (A.A22_no_module_state, "C14 the guess depends only on the masses and the tolerance of THIS call (no memo across calls)", {"modules": ("mofun.atoms", "mofun.helpers")}),
            (D.D2_type_counts, "C14 write/read cycle: masses stay aligned with elements and labels when type tables are merged", {"kinds": ("atom",), "pair": False}),
        ],
        "decided": "the tolerance test is two-sided, the nearest entry is chosen, an exception is raised when none qualifies, the loader forwards its documented tolerance and on failure replaces the elements of all types",
        "not_decided": "the exhaustive sweep over the table as values",
        "explanation": "Comparison-shape rule (one-sided vs two-sided), first-hit vs nearest rule, handler shape rule, literal table check.",
    },
    "C15": {
        "rules": [
            (A2.A20_cif_api, "C15.1 the writer can run with the installed CIF library"),
            (E.E2_cif_tags, "C15.2-4 writer and reader agree on tags; s.u. stripping; wrap before cell product; P1 rejection"),
            (B.B1_kind_blocks, "C15.2/5 per-kind blocks agree", {"funcs": ["Atoms.load_p1_cif", "Atoms.save_p1_cif", "Atoms.__init__"]}),
            (E.E_cif_labels, "C15.3 labels unique and resolvable"),
            (B.B2_axis_runs, "C15 x/y/z columns and label_1..n tags are listed completely and in order", {"funcs": ["Atoms.save_p1_cif", "Atoms.load_p1_cif", "Atoms.cell_abc_alpha_beta_gamma"]}),
        ],
        "decided": "every CifFile API used exists in the installed PyCifRW; tags written are tags read (case-insensitively) for coordinates, labels, charges, bonds, angles, torsions, cell; every numeric "
                   "conversion goes through the s.u.-stripping helper; fractional wrap precedes the cell product; non-P1 is rejected; labels are element + running count and resolved through the label list",
        "not_decided": "numeric equality of cell parameters/coordinates, agreement with ASE, identical text on re-write",
        "explanation": "API-existence rule over the installed PyCifRW source (read, not imported), tag tables, order rules, sibling agreement.",
    },
    "C16": {
        "rules": [
            (A2.A16_zip_star_guard, "C16 a bond-free molecule is handled"),
            (E.E4_cml, "C16 document order, same attribute row, bonds through the id map, path vs file"),
        ],
        "decided": "atoms come from one findall pass and the id map enumerates the same list; element/x3/y3/z3 are read from the same attribute row; bond endpoints are resolved through the id map; "
                   "an empty bond list does not raise; Atoms.load passes path or file to the same routine",
        "not_decided": "float parsing fidelity",
        "explanation": "Unpack-of-empty lint with domain table, provenance rules in load_cml.",
    },
    "C17": {
        "rules": [
            (D.D1_symmetry, "C17.1 cutoff symmetric", {"funcs": ["max_bond_length"]}),
            (E.E_bond_cutoff, "C17.1-3 cutoff formula, strict comparison on own elements, each pair once"),
            (E.E3_radius_tables, "C17.1 tables well-formed"),
            (C.C_axis_windows, "C17.4 all 27 images", {"only_images": True}),
            (A.A1_inputs_not_mutated, "C17 bond detection does not modify (or cache anything on) its input", {"only": ["detect_bonds"]}),
            (A.A22_no_module_state, "C17 no hidden module-level state", {"modules": ("mofun.detect_bonds",)}),
        ],
        "decided": "cutoff = r1 + r2 + (0.45 if either is a non-metal); strict < between a Euclidean distance and the cutoff of the two atoms' own elements, any over images; inner sequence is the suffix after "
                   "idx1 and the second index is rebuilt with the same offset; 27 image offsets when a cell exists, zero offset otherwise",
        "not_decided": "invariance under shift/reordering as a relation between runs; that 27 images suffice (assumption on cell widths)",
        "explanation": "Decision list of max_bond_length, affine agreement of slice start and index expression, literal tables.",
    },
    "C18": {
        "rules": [
            (D.D1_symmetry, "C18.1 order independence"),
            (D.D3_angle_styles, "C18.2 style selection total and consistent"),
            (D.D3_format_arity, "C18.2 format arities", {"modules": ["mofun.rough_uff", "mofun.cli.mofun_cli"]}),
            (E.E3_uff_table, "C18.3 domain of the formulas over all 221 types", {"part": "domain"}),
            (E.E_bond_order_leaves, "C18.4 guessed bond orders are positive literals"),
            (B.B5_bond_order_arms, "C18 documented bond-order guesses: same-type pairs only, sibling arms agree"),
            (A.A21_no_mutable_default_mutation, "C18 parameters do not depend on call history: mutable defaults are never written", {"funcs": ["angle_params"]}),
            (A.A22_no_module_state, "C18 no hidden module-level state", {"modules": ("mofun.rough_uff",)}),
        ],
        "decided": "guess_bond_order, bond_params, angle_params, dihedral_params have identical decision lists under reversal of the type sequence; the linear/trigonal/square branch binds n and b on every path; "
                   "styles returned = styles formatted with matching arity; table columns used as divisor/sqrt argument are positive / non-negative for all rows; every guessed bond order is one of 1, 1.5, 2",
        "not_decided": "equality with the published functional forms as numbers, positivity of angle force constants and bond lengths, finiteness",
        "explanation": "Partial evaluation to decision lists with AC-normalisation (syntactic equality, no solver), literal-table domain checks.",
    },
    "C19": {
        "rules": [
            (B.B3_assign_pipeline, "C19.1-3 typing pipeline, dihedral specifics, exclusion"),
            (D.D1_symmetry, "C19.1 keys canonical under reversal; parameters order-independent"),
            (E.E_retype, "C19.4 retyping: labels, elements, masses from one sorted unique list"),
            (E.E3_uff_table, "C19.4 every UFF key's element prefix has a mass", {"part": "masses"}),
            (E.E_enumeration_shape, "C19.5 angle / dihedral enumeration shape"),
            (B.B6_uff_key_prefix, "C19.4 UFF keys are looked up by the padded two-character element field"),
            (B.B7_terms_types_coeffs_together, "C19 term list, per-term types and coefficient table are re-assigned together on every normal exit"),
            (A.A21_no_mutable_default_mutation, "C19 coefficients do not depend on the order in which types are processed: mutable defaults are never written", {"funcs": ["angle_params"]}),
        ],
        "decided": "the three assign_* functions share one pipeline (exclusion threshold = arity, canonical key, first-seen numbering, parameters of unique keys, coefficient strings in the same order); "
                   "dihedral multiplicity key and None-removal are consistent; retyping derives labels, elements, masses and ids from one list; enumeration shapes",
        "not_decided": "completeness/uniqueness on arbitrary graphs as a combinatorial statement (relies on networkx semantics), invariance under renaming as a relation",
        "explanation": "Sibling comparison of the three pipelines, min-idiom recognition for typekey, decision-list symmetry, shape rules.",
    },
    "C20": {
        "rules": [
            (A2.A18_cli_wiring, "C20 options, flows, order, suffix tables, find-only"),
            (A2.A19_attribute_discipline, "C20 attributes used on Atoms values exist"),
            (A.A7_tolerance_provenance, "C20 --atol", {"funcs": ["mofun_cli", "replace_pattern_in_structure", "find_pattern_in_structure"]}),
            (B.B6_uff_key_prefix, "C20 --pp: UFF keys are looked up by the padded two-character element field", {"funcs": ["assign_pair_params_to_structure"]}),
        ],
        "decided": "every click option is a parameter of mofun_cli and every parameter reaches the sink it names; load < overrides < replicate < mic-replicate < pair-coeffs < find/replace < save; "
                   "suffix tables are subsets of the dispatch tables; find-only leaves the structure untouched; every attribute used on an Atoms value exists",
        "not_decided": "equality of the written file with the API result for all seeds (two runs)",
        "explanation": "Decorator table extraction, reaching-definition flows into named sinks, CFG order, attribute universe of class Atoms.",
    },
}

for _p in PROPERTIES.values():
    _p.setdefault("assumptions", COMMON_ASSUMPTIONS)


# ---- round-3 additions (generic discipline rules and rules added for seeded changes that were missed) ------------------
from . import fam_g as G      # noqa: E402
from . import fam_g2 as G2   # noqa: E402
from . import fam_d2 as D2    # noqa: E402

_SEARCH = (("mofun.mofun", None), ("mofun.helpers", ("atoms_of_type", "atoms_by_type_dict", "group_duplicates", "remove_duplicates", "position_index_farthest_from_axis",
                                                        "quaternion_from_two_vectors", "quaternion_from_two_vectors_around_axis", "positions_are_unchanged")))
_SEARCH = _SEARCH + (("mofun.atoms", ("Atoms.elements", "Atoms.symbols", "Atoms.copy", "Atoms.translate", "Atoms.cell_is_orthorhombic", "find_unchanged_atom_pairs", "Atoms.__len__")),)
_ATOMS = (("mofun.atoms", None),)
# the replacement goes through extend / delete: generic discipline rules of the replacement properties look at those too
_REPLACE = _SEARCH + (("mofun.atoms", ("Atoms.extend", "Atoms.extend.find_existing_topo", "Atoms.extend_types", "Atoms._extend_extra_fields", "Atoms.__delitem__",
                                       "Atoms._delete_and_reindex_atom_index_array", "Atoms.pop")),)
_SCOPES = {
    "C01": _SEARCH, "C02": _SEARCH, "C03": _SEARCH, "C04": _REPLACE, "C05": _REPLACE, "C06": _REPLACE, "C07": _REPLACE, "C08": _REPLACE,
    "C09": _ATOMS, "C10": _ATOMS, "C11": _ATOMS, "C12": _ATOMS,
    "C13": (("mofun.atoms", ("Atoms.load_lmpdat", "Atoms.save_lmpdat")), ("mofun.helpers", ("guess_elements_from_masses",))),
    "C14": (("mofun.helpers", ("guess_elements_from_masses",)), ("mofun.atoms", ("Atoms.load_lmpdat",))),
    "C15": (("mofun.atoms", ("Atoms.load_p1_cif", "Atoms.save_p1_cif", "Atoms.load", "Atoms.save", "Atoms.cell_abc_alpha_beta_gamma")),),
    "C16": (("mofun.atoms", ("Atoms.load_cml", "Atoms.load", "Atoms.__init__")),),
    "C17": (("mofun.detect_bonds", None), ("mofun.mofun", ("uc_neighbor_offsets",))),
    "C18": (("mofun.rough_uff", None),),
    "C19": (("mofun.rough_uff", None),),
    "C20": (("mofun.cli.mofun_cli", None),),
}
# results depend on the arguments of THIS call only: no memo at module level, nothing cached on the argument objects (multi-step histories: search, edit in place, search again)
for _id in ("C01", "C02", "C03", "C05", "C06", "C07", "C08", "C10", "C11", "C12", "C13", "C15", "C16", "C17", "C18", "C19"):
    PROPERTIES[_id]["rules"].append((A.A22_no_module_state, "%s no function of the library keeps module-level state between calls (memo tables make a result depend on earlier calls)" % _id))
for _id in ("C02", "C03", "C05", "C08"):
    PROPERTIES[_id]["rules"].append((A.A1_inputs_not_mutated, "%s the search leaves the structure and pattern it is given untouched (nothing is cached on, or wrapped in, the caller's objects)" % _id,
                                     {"only": ["find_pattern_in_structure"]}))
for _id, _sc in _SCOPES.items():
    PROPERTIES[_id]["rules"].append((G.G11_loop_exit_discipline, "%s a guard clause about the current item skips it (`continue`), it does not end an accumulating loop" % _id, {"scope": _sc}))
    PROPERTIES[_id]["rules"].append((G.G13_size_bound_agreement, "%s an index filter agrees with the size of the table it indexes (no off-by-one between size and bound)" % _id, {"scope": _sc}))
    PROPERTIES[_id]["rules"].append((G.G14_view_mutation, "%s no in-place operation on a view of an argument's array" % _id, {"scope": _sc}))
    PROPERTIES[_id]["rules"].append((G.G15_order_and_bucket_pitfalls, "%s mask order is not paired with dict order; tolerances are not implemented by rounded keys" % _id, {"scope": _sc}))
    PROPERTIES[_id]["rules"].append((G.G16_parallel_order, "%s parallel per-item arrays are updated, replicated and paired in one order" % _id, {"scope": _sc}))
    PROPERTIES[_id]["rules"].append((G.G17_orientation_assumptions, "%s no sign test on the cell determinant; neighbour offsets are not addressed by position" % _id, {"scope": _sc}))
    PROPERTIES[_id]["rules"].append((G.G18_loop_variable_leak, "%s no read of a loop variable after a loop without break" % _id, {"scope": _sc}))
    PROPERTIES[_id]["rules"].append((G.G19_bucket_key_present, "%s occurrence tables are subscripted only with keys that occur (or through .get / a membership test)" % _id, {"scope": _sc}))
    PROPERTIES[_id]["rules"].append((G.G20_zip_filtered_with_unfiltered, "%s parallel literal sequences are not zipped after filtering only one of them" % _id, {"scope": _sc}))
    PROPERTIES[_id]["rules"].append((G.G21_row_position_dict, "%s tables of terms are not searched through a row -> position dict that merges equal rows" % _id, {"scope": _sc}))
    PROPERTIES[_id]["rules"].append((G.G23_parallel_accumulators, "%s lists filled in one loop and zipped later get the same number of entries on every path" % _id, {"scope": _sc}))
    PROPERTIES[_id]["rules"].append((G.G22_positional_order, "%s public functions keep the documented order of their positional parameters" % _id, {"scope": _sc}))
    PROPERTIES[_id]["rules"].append((G.G24_second_order_induction, "%s no per-iteration value is accumulated with an index-weighted step (second-order induction variable)" % _id, {"scope": _sc}))
    PROPERTIES[_id]["rules"].append((G.G25_vectorize_output_type, "%s np.vectorize of a function with mixed int / float results states its output type" % _id, {"scope": _sc}))
    PROPERTIES[_id]["rules"].append((G.G26_any_of_indices, "%s emptiness of an index collection is not tested by the truth of its elements" % _id, {"scope": _sc}))
    PROPERTIES[_id]["rules"].append((G.G27_unique_count_vs_size, "%s a count of distinct values is not compared with a size (repeated entries)" % _id, {"scope": _sc}))
    PROPERTIES[_id]["rules"].append((G.G28_alias_sibling_update, "%s sibling branches update an array stored in an object consistently (in place vs re-binding)" % _id, {"scope": _sc}))
    PROPERTIES[_id]["rules"].append((G.G29_parallel_filter_in_loop, "%s a list filtered through a parallel list inside a loop keeps the partner in step" % _id, {"scope": _sc}))
    PROPERTIES[_id]["rules"].append((G.G30_nonzero_rows_with_multiplicity, "%s indices taken from one axis of a 2-D hit matrix are de-duplicated before they become items" % _id, {"scope": _sc}))
    PROPERTIES[_id]["rules"].append((G.G31_reorder_one_of_parallel_lists, "%s lists filled in parallel are re-ordered together or not at all" % _id, {"scope": _sc}))
    PROPERTIES[_id]["rules"].append((G2.G32_library_semantics, "%s library semantics: strip() character sets, split(' '), np.vectorize on empty input, integer reciprocal, row-wise isin, isclose on indices, borrowed string dtypes, array == literal" % _id, {"scope": _sc}))
    PROPERTIES[_id]["rules"].append((G2.G34_scratch_reset_on_every_path, "%s a scratch container emptied inside a loop is emptied on every path to the next iteration" % _id, {"scope": _sc}))
    PROPERTIES[_id]["rules"].append((G2.G39_argmin_then_second_criterion, "%s a second criterion is not applied to the single candidate an argmin picked by the first one" % _id, {"scope": _sc}))
    PROPERTIES[_id]["rules"].append((G2.G40_collision_test_per_element, "%s a collision between items is not tested element by element against a set that the same item is filling" % _id, {"scope": _sc}))
    PROPERTIES[_id]["rules"].append((G.G12_set_order, "%s a sequence made from a set is not used as an ordered selector" % _id, {"scope": _sc}))
    PROPERTIES[_id]["rules"].append((G.G10_defined_before_use, "%s every read of a local is reached by an assignment (no statement moved above the one that defines its input)" % _id, {"scope": _sc}))
    PROPERTIES[_id]["rules"].append((G.G7_api_contract_pitfalls, "%s API contracts: insertion points as indices, span versus length, memoised functions / caching properties, stored tables tested by truth value" % _id, {"scope": _sc}))
    PROPERTIES[_id]["rules"].append((G.G4_numpy_container_pitfalls, "%s container pitfalls: ndmin=2 of an empty list, groupby on unsorted input, isinstance(., int) against numpy callers" % _id, {"scope": _sc}))
    PROPERTIES[_id]["rules"].append((G.G6_stale_loop_cache, "%s a value computed from the outer loop variable is recomputed on every path of an outer iteration" % _id, {"scope": _sc}))
    PROPERTIES[_id]["rules"].append((G.G2_presence_tests, "%s presence tests: optional indices tested with `is None`, selections with len(), signed data not through its sum" % _id, {"scope": _sc}))
    PROPERTIES[_id]["rules"].append((G.G3_one_shot_iterators, "%s one-shot iterators are consumed once and never inside a loop that does not re-create them" % _id, {"scope": _sc}))
    PROPERTIES[_id]["decided"] += "; optional index parameters are tested against None (never by truth value), selections are tested for emptiness by length, one-shot iterators are consumed once"

_EXTRA = {
    "C01": [(C.C_element_gate_equality, "C01.1 the starting-atom helper compares elements by equality (no substring membership)")],
    "C02": [(C.C_quaternion_layout, "C02 every pose is reachable: quaternion layout, roll sense and roll branch test (a wrong sense rejects half of the poses of a chiral pattern)"),
            (C.C_roll_every_return, "C02 every return of the roll helper is the rotation built from the measured angle (no tolerance shortcut to the identity)"),
            (D2.D7_hint_table, "C02 hint resolution table (a hint of 0 is a hint)"),
            (C.C_element_gate_equality, "C02 starting atoms: element equality"),
            (A2.A15_none_tests, "C02 hints honoured for every valid index including 0 (a hint of 0 must not trigger the farthest-point fallback)"),
            (C.C_axis_diag, "C02 copies across tilted faces are found only if the axis-aligned fast path is taken for exactly diagonal cell matrices")],
    "C03": [(C.C_quaternion_layout, "C03 the result does not depend on the pose: roll sense and roll branch test"),
            (C.C_roll_every_return, "C03 every return of the roll helper is the rotation built from the measured angle (no tolerance shortcut to the identity)"),
            (D2.D7_hint_table, "C03.1 hint resolution table: a given hint is used as given (0 included), one axis hint selects the atom farthest from it, the orientation atom is computed only when absent"),
            (C.C_axis_diag, "C03 the orthorhombic fast path is taken only for exactly diagonal cell matrices"),
            (A2.A14b_fallback_axis, "C03 antiparallel poses: detection with tolerance, angle test without exact pi, non-degenerate fallback axis"),
            (C.C_idx_find, "C03 a structure and its supercell give corresponding matches: image indices fold to unit-cell atoms consistently, the duplicate key keeps multiplicity")],
    "C04": [(D.D4_windows, "C04 every occurrence that is replaced must first be found: window bounds on all axes"),
            (C.C_axis_windows, "C04 triclinic windows: plane normals, widths, norms and inward signs are paired per axis"),
            (A2.A14b_fallback_axis, "C04 antiparallel poses are found: detection, angle test, non-degenerate fallback axis"),
            (C.C_return_shape, "C04 the search returns the shape its flag announces on every path (an empty search is an empty result, not an unpack error)"),
            (C.C_axis_diag, "C04 every occurrence in a tilted cell is found and wrapped correctly only if the orthorhombic test is exact")],
    "C05": [(C.C_fractional_wrap, "C05 triclinic wrap: fractional = positions . inverse(cell), back = fractional . cell (lattice vectors are rows)"),
            (C.C_idx_find, "C05 the index tuples, positions and rotations returned by the search stay parallel (a replacement is placed at the site whose atoms it removes)"),
            (C.C_wrap_modulus, "C05 inserted atoms are wrapped with period exactly 1 in fractional coordinates (inside the cell, by a lattice translation)"),
            (C.C_roll_gate, "C05 the roll about the matched axis is applied to every match with more than two atoms"),
            (A.A6_rotation_gate, "C05 the rotation handed to the replacement is the one whose rotated pattern was re-checked against the matched atoms (an unchecked rotation places the fragment arbitrarily)"),
            (A2.A14b_fallback_axis, "C05 'moving search and replacement pattern together by any rigid motion does not change the result': antiparallel poses are found whatever the axis (non-degenerate fallback axis)")],
    "C06": [(C.C_idx_replace, "C06.2 index tuples, positions and rotations of the matches stay parallel, so the terms of an inserted fragment are attached to the atoms of the same match"),
            (A2.A11_pop_deletes, "C06 the final deletion of the replaced atoms re-indexes the surviving terms with correctly normalised indices"),
            (A2.A10_descending_contract, "C06 terms of removed atoms are dropped and the others re-indexed under the callers' descending order")],
    "C08": [(A2.A12_extend_bookkeeping, "C08 atoms common to both patterns stay the structure's atoms: the identity map only transfers type and extra fields, never position, charge or group"),
            (C.C_fractional_wrap, "C08 triclinic wrap in the row convention (a wrong basis shifts inserted atoms by non-lattice vectors, so the reverse search does not find the site)"),
            (C.C_axis_windows, "C08 the reverse search finds the replaced site again on triclinic cells: plane normals, widths, norms and inward signs are paired per axis"),
            (C.C_quaternion_layout, "C08 reversibility needs every pose to be found again: roll sense and roll branch test"),
            (C.C_roll_every_return, "C08 every return of the roll helper is the rotation built from the measured angle (no tolerance shortcut to the identity)"),
            (A2.A14b_fallback_axis, "C08 reversibility needs every pose to be found again: antiparallel detection, angle test, fallback axis"),
            (C.C_roll_gate, "C08 the roll about the matched axis is applied to every match with more than two atoms"),
            (C.C_wrap_modulus, "C08 wraps are lattice translations (period 1 in fractional coordinates)")],
    "C13": [(A2.A19_attribute_discipline, "C13 the reader hands back a plain Atoms object: nothing is stored on it that the constructor, copy and subset operations do not know (state smuggled from reader to writer outside the object's fields)",
             {"funcs": ["Atoms.load_lmpdat", "Atoms.save_lmpdat", "Atoms.load", "Atoms.save"]})],
    "C09": [(A2.A19_attribute_discipline, "C09 every attribute used on an Atoms value is one the class defines (an attribute attached from outside is lost by copy / subset / extend)", {"modules": ("mofun.atoms", "mofun.mofun", "mofun.rough_uff", "mofun.detect_bonds", "mofun.helpers")}),
            (E.E_override_both_directions, "C09 extending: exactly the superseded existing terms are removed (forward and reverse), every other term survives")],
    "C12": [(C.C_axis_diag, "C12 np.diag(cell) is the box only under the exact orthorhombic test")],
    "C15": [(E.E_dispatch, "C15 the CIF reader / writer is reached through the dispatcher: explicit type beats extension, handles are not closed, file objects need a type"),
            (C.C_wrap_modulus, "C15 reading wraps fractional coordinates with period exactly 1"),
            (C.C_axis_diag, "C15 Cartesian <-> fractional handling never uses the cell diagonal as the box without the orthorhombic test")],
    "C17": [(C.C_axis_diag, "C17 periodic images come from the lattice rows; the cell diagonal is never used as the box without the orthorhombic test"),
            (C.C_fractional_wrap, "C17 any wrap of the atoms before the image search goes through positions . inverse(cell) (lattice vectors are rows)", {"modules": ("mofun.detect_bonds",), "min_sites": 0})],
    "C16": [(E.E_dispatch, "C16 the CML reader is reached through the dispatcher: explicit type beats extension, file objects need a type")],
    "C18": [(D2.D5_torsion_table, "C18.5 torsion case analysis agrees with the documented UFF case table on every abstract type combination"),
            (D2.D6_bond_order_precedence, "C18.4 user bond-order rules take precedence over every built-in guess and are forwarded by every parameter function"),
            (D2.D8_formula_reference, "C18.1-3 pair, bond and angle parameters: returned terms equal the documented formulas in normal form on every abstract input (incl. the cosine/periodic n, b table and the fourier coefficients)"),
            (D2.D9_type_string_parsing, "C18.5 element and hybridisation character are derived correctly from every one of the 221 type labels")],
    "C19": [(D2.D9_type_string_parsing, "C19 which dihedrals are dropped depends on the element and hybridisation read from the type label: both are derived correctly from every one of the 221 labels"),
            (D2.D5_torsion_table, "C19 'dihedrals for which no torsion is defined are dropped' rests on dihedral_params returning None exactly for the documented cases"),
            (D2.D6_bond_order_precedence, "C19 term parameters honour the user bond-order rules")],
    "C20": [(A.A1_inputs_not_mutated, "C20 'with only a find pattern ... writes the structure unmodified': the search does not modify the structure it is given", {"only": ["find_pattern_in_structure"]}),
            (E.E_dispatch, "C20 the command line loads and saves through Atoms.load / Atoms.save: the file type of every path argument is what follows the LAST dot, explicit type beats extension"),
            (A2.A18d_option_decisions, "C20 every optional stage runs exactly when its option is given; find/replace decision over the four combinations of -f and -r; minimum-image factor 2*mic/length; flag defaults"),
            (A2.A18c_option_types, "C20 every option delivers the kind of value its use needs; command-line defaults equal the API defaults; library formats go to the library loader/saver"),
            (A2.A18b_pair_params_parallel, "C20 --pp: one pair coefficient and one label per atom type, in type order"),
            (C.C_axis_diag, "C20 --mic: the cell diagonal is the box only under the exact orthorhombic test")],
}
for _id, _rules in _EXTRA.items():
    PROPERTIES[_id]["rules"].extend(_rules)
# every property handles Atoms objects: no method keeps state the constructor does not know (results must not depend on the history of calls on an object)
for _id in sorted(PROPERTIES):
    PROPERTIES[_id]["rules"].append((G2.G35_hidden_instance_state, "%s Atoms methods keep no state outside the fields the constructor creates (no memo of earlier calls on the object)" % _id))
for _id in ("C04", "C06", "C08", "C09", "C10", "C11", "C12", "C16"):
    PROPERTIES[_id]["rules"].append((G2.G37_constructor_copies_arrays, "%s objects do not share array storage: the constructor copies the arrays it is given (no np.asarray of an argument stored on the object)" % _id))
for _id in ("C09", "C13", "C15", "C16", "C20"):
    PROPERTIES[_id]["rules"].append((G2.G33_effect_before_validation, "%s readers / writers: a refusal that depends on the arguments comes before the target file is opened for writing; a file object handed in by the caller is not closed" % _id))
for _id in ("C15", "C16"):
    PROPERTIES[_id]["rules"].append((B.G1_no_swallowed_errors, "%s the dispatcher and the reader let their refusals (non-P1 symmetry, unsupported type, malformed input) reach the caller: no handler swallows them" % _id))
for _id in ("C13", "C15", "C16", "C17", "C20"):
    PROPERTIES[_id]["rules"].append((A.A21_no_mutable_default_mutation, "%s results do not depend on earlier calls: parameters with mutable defaults are never written" % _id))
_SEARCH_TOL = (("mofun.mofun", None), ("mofun.helpers", None))
for _id in ("C01", "C02", "C03", "C04", "C05", "C08"):
    PROPERTIES[_id]["rules"].append((G2.G38_tolerance_dimension, "%s every deviation compared with atol is a length, not a squared length" % _id, {"scope": _SEARCH_TOL}))
for _id in ("C13", "C14"):
    PROPERTIES[_id]["rules"].append((G2.E1p_section_protocol, "%s section scanner of the LAMMPS reader: a section ends at a blank line; section keywords are recognised without their trailing comment" % _id))
for _id in ("C09", "C10"):
    PROPERTIES[_id]["rules"].append((G2.G36_refusal_before_mutation, "%s a deletion request that numpy refuses (index out of range) is refused before any term has been dropped or renumbered" % _id))
for _id in sorted(PROPERTIES):
    PROPERTIES[_id]["decided"] += ("; contracts of the library calls used in the anchored functions (strip() character sets, split(' '), np.vectorize on empty input, integer reciprocal, row-wise isin, "
                                   "isclose on indices, borrowed string dtypes, array == literal), scratch containers reset on every loop path, no method of Atoms keeps state the constructor does not create")
PROPERTIES["C07"]["rules"].append((C.C_idx_find, "C07 an overlap can only be refused if both occurrences reach the guard: the duplicate key of the search keeps multiplicity (a set-valued key merges distinct occurrences that use the same atoms through different images)"))
PROPERTIES["C18"]["decided"] += ("; the torsion case analysis of dihedral_params, evaluated over the finite partition of hybridisation characters and element classes induced by its own "
                                 "comparisons, selects the documented case (n, sign, barrier monomial incl. the division by the multiplicity) for every combination; user bond-order rules dominate built-in guesses")
PROPERTIES["C18"]["explanation"] += " Decision-table evaluation over a finite abstract domain (representatives of the comparison-induced partition; no execution)."
PROPERTIES["C20"]["decided"] += ("; the minimum-image replication factor is ceil(2*mic/length); --pp produces one coefficient line and one label per atom type; option kinds (Path, float, int, three ints, flag, file) "
                                 "match their use and command-line defaults equal the API defaults")
PROPERTIES["C18"]["decided"] += ("; pair_coeffs, bond_params and angle_params return, on every abstract input, terms whose normal form (modulo associativity, commutativity, constant folding, proven symmetry of bond_params) "
                                 "equals the documented formulas transcribed in rules/fam_d2.py; element / hybridisation parsing is correct for all 221 keys")
PROPERTIES["C03"]["decided"] += "; the values of the three hint variables after the None case analysis are the documented ones for all 54 combinations of (None / 0 / other) hints and both outcomes of the size test"
