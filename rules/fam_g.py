"""Family G - generic discipline rules instantiated per property on the functions the property is anchored in.

G2  presence tests: "is there a value / is the selection empty" must not be decided through the truth value of the
    value itself (0, 0.0, '' are legitimate members): None-default index parameters are tested with `is None`;
    a selection `[x for ... if c]` is tested with len(), not any()/all(); signed data is not tested through its sum.
G3  one-shot iterators (generator expressions, map/filter/zip objects) bound to a local are consumed at most once and
    never inside a loop that does not re-create them.
"""
import ast
import re

from verif_sa.core import Ob, AnalysisError, FileObj
from verif_sa.facts import call_name, dotted
from verif_sa.dataflow import expand, all_values
from .common import floor, const_value

ALL_LIB = (("mofun.mofun", None), ("mofun.helpers", None), ("mofun.atoms", None), ("mofun.detect_bonds", None),
           ("mofun.rough_uff", None), ("mofun.cli.mofun_cli", None))


def _in_scope(fn, scope):
    for mod, prefixes in scope:
        if fn.module.name != mod:
            continue
        if prefixes is None:
            return True
        if isinstance(prefixes, str):
            prefixes = (prefixes,)
        if any(fn.qualname == p or fn.qualname.startswith(p + ".") for p in prefixes):
            return True
    return False


def _scope_fns(repo, scope):
    fns = [f for f in repo.all_fns() if _in_scope(f, scope)]
    if not fns:
        raise AnalysisError("generic rule: no function in scope %r (anchor vanished)" % (scope,))
    fns.sort(key=lambda f: (f.module.name, f.node.lineno))
    return fns


_BOOL_CALLS = {"isclose", "allclose", "isin", "in1d", "isnan", "isfinite", "isinf", "any", "all", "has_key", "hasattr", "isinstance",
               "startswith", "endswith", "array_equal", "logical_and", "logical_or", "logical_not", "equal", "not_equal", "less",
               "greater", "less_equal", "greater_equal", "callable", "issubset", "issuperset", "isdisjoint", "bool", "isdigit",
               "isalpha", "exists", "positions_are_unchanged", "cell_is_orthorhombic"}
_WRAP_CALLS = {"array", "asarray", "list", "tuple", "set", "sorted", "reversed", "diag", "diagonal", "ravel", "flatten"}


def boolness(fn, e, depth=4, bound=None):
    """'bool' if the expression's (element) values are produced by a boolean operator, 'value' if they are data
    (names bound to data, attributes, subscripts, numbers, strings, None), else 'unknown'."""
    bound = bound or {}
    if isinstance(e, (ast.Compare,)):
        return "bool"
    if isinstance(e, ast.BoolOp):
        ks = {boolness(fn, v, depth, bound) for v in e.values}
        return "bool" if ks == {"bool"} else ("value" if "value" in ks else "unknown")
    if isinstance(e, ast.UnaryOp):
        if isinstance(e.op, (ast.Not,)):
            return "bool"
        if isinstance(e.op, ast.Invert):
            return boolness(fn, e.operand, depth, bound)
        return "value"
    if isinstance(e, ast.BinOp):
        if isinstance(e.op, (ast.BitAnd, ast.BitOr, ast.BitXor)):
            ks = {boolness(fn, e.left, depth, bound), boolness(fn, e.right, depth, bound)}
            return "bool" if ks == {"bool"} else ("value" if "value" in ks else "unknown")
        return "value"
    if isinstance(e, ast.Constant):
        return "bool" if isinstance(e.value, bool) else "value"
    if isinstance(e, (ast.ListComp, ast.GeneratorExp, ast.SetComp)):
        b2 = dict(bound)
        for g in e.generators:
            k = boolness(fn, g.iter, depth, b2)
            for n in ast.walk(g.target):
                if isinstance(n, ast.Name):
                    b2[n.id] = k if isinstance(g.target, ast.Name) else "value"
        return boolness(fn, e.elt, depth, b2)
    if isinstance(e, (ast.List, ast.Tuple, ast.Set)):
        ks = {boolness(fn, v, depth, bound) for v in e.elts}
        if not ks:
            return "unknown"
        return "bool" if ks == {"bool"} else ("value" if "value" in ks else "unknown")
    if isinstance(e, ast.Call):
        nm = call_name(e)
        if nm in _BOOL_CALLS:
            return "bool"
        if nm in _WRAP_CALLS and e.args:
            return boolness(fn, e.args[0], depth, bound)
        if nm in ("zip", "enumerate", "items"):
            return "value"
        if nm in ("cross", "dot", "norm", "sqrt", "abs", "sum", "len", "float", "int", "str", "strip", "split", "arange", "linspace",
                  "zeros", "ones", "full", "matmul", "subtract", "add", "copy", "get", "index", "count", "min", "max", "round"):
            return "value"
        return "unknown"
    if isinstance(e, ast.Name):
        if e.id in bound:
            return bound[e.id]
        if depth <= 0 or fn.stmt_of(e) is None:
            return "unknown"
        try:
            vals = all_values(fn, e)
        except Exception:
            vals = None
        if not vals:
            return "unknown"
        ks = {boolness(fn, v, depth - 1, bound) for v in vals}
        return "bool" if ks == {"bool"} else ("value" if "value" in ks else "unknown")
    if isinstance(e, ast.Attribute):
        return "value" if e.attr in ("charges", "positions", "masses", "atom_types", "elements", "cell", "bonds", "angles", "dihedrals",
                                     "impropers", "atom_type_masses", "atom_type_labels", "atom_type_elements", "groups", "bond_types", "angle_types",
                                     "dihedral_types", "improper_types", "extra_atom_fields", "extra_bond_fields", "extra_angle_fields",
                                     "extra_dihedral_fields", "extra_improper_fields") else "unknown"
    if isinstance(e, ast.Subscript):
        return boolness(fn, e.value, depth, bound)
    return "unknown"


def _truth_uses(fn, name):
    """Nodes where local/param ``name`` is used for its truth value."""
    hits = []

    def walk_test(t, origin):
        if isinstance(t, ast.Name) and t.id == name:
            hits.append(origin)
        elif isinstance(t, ast.UnaryOp) and isinstance(t.op, ast.Not):
            walk_test(t.operand, origin)
        elif isinstance(t, ast.BoolOp):
            for v in t.values:
                walk_test(v, origin)

    for n in fn.own_nodes():
        if isinstance(n, (ast.If, ast.While, ast.IfExp, ast.Assert)):
            walk_test(n.test, n)
        elif isinstance(n, ast.comprehension):
            for c in n.ifs:
                walk_test(c, c)
        elif isinstance(n, ast.BoolOp):
            par = fn.parents.get(n)
            in_test = False
            p, child = par, n
            while isinstance(p, (ast.BoolOp, ast.UnaryOp)):
                child, p = p, fn.parents.get(p)
            if isinstance(p, (ast.If, ast.While, ast.IfExp, ast.Assert)) and p.test is child:
                in_test = True
            if not in_test:
                # value context: `p or default`, `p and p[0]` - every operand but the last is used for its truth value
                for v in n.values[:-1]:
                    walk_test(v, n)
        elif isinstance(n, ast.UnaryOp) and isinstance(n.op, ast.Not) and isinstance(n.operand, ast.Name) and n.operand.id == name:
            par = fn.parents.get(n)
            if not isinstance(par, (ast.If, ast.While, ast.IfExp, ast.BoolOp, ast.Assert)):
                hits.append(n)
    return hits


def _integer_like(fn, name):
    """Is the parameter used as an index / count (so that 0 is a legitimate value)?"""
    for n in fn.own_nodes():
        if isinstance(n, ast.Subscript):
            idx = n.slice
            parts = idx.elts if isinstance(idx, ast.Tuple) else [idx]
            for p in parts:
                if isinstance(p, ast.Name) and p.id == name:
                    return "used as the index in `%s`" % ast.unparse(n)[:60]
                if isinstance(p, ast.Slice):
                    for b in (p.lower, p.upper, p.step):
                        if isinstance(b, ast.Name) and b.id == name:
                            return "used as a slice bound in `%s`" % ast.unparse(n)[:60]
        elif isinstance(n, ast.Call) and call_name(n) in ("range", "arange") and any(isinstance(a, ast.Name) and a.id == name for a in n.args):
            return "used as a count in `%s`" % ast.unparse(n)[:60]
        elif isinstance(n, ast.BinOp) and isinstance(n.op, (ast.Add, ast.Sub, ast.Mult, ast.FloorDiv, ast.Mod)):
            if any(isinstance(x, ast.Name) and x.id == name for x in (n.left, n.right)):
                return "used in arithmetic `%s`" % ast.unparse(n)[:60]
        elif isinstance(n, ast.Compare) and len(n.ops) == 1 and isinstance(n.ops[0], (ast.Lt, ast.LtE, ast.Gt, ast.GtE, ast.Eq, ast.NotEq)):
            sides = [n.left, n.comparators[0]]
            if any(isinstance(x, ast.Name) and x.id == name for x in sides) and \
                    any(isinstance(x, ast.Constant) and isinstance(x.value, (int, float)) and not isinstance(x.value, bool) for x in sides):
                return "compared with a number in `%s`" % ast.unparse(n)[:60]
    return None


def _optional_index_names(repo):
    """Names of None-default parameters that are used as an index / count somewhere in the package (0 is a legitimate value), closed under same-name keyword forwarding."""
    cached = getattr(repo, "_opt_index_names", None)
    if cached is not None:
        return cached
    S = set()
    for f in repo.all_fns():
        for p, d in f.param_defaults().items():
            if isinstance(d, ast.Constant) and d.value is None and _integer_like(f, p):
                S.add(p)
    for _ in range(3):
        for f in repo.all_fns():
            for c in [x for x in f.own_nodes() if isinstance(x, ast.Call)]:
                for kw in c.keywords:
                    if kw.arg in S and isinstance(kw.value, ast.Name) and kw.value.id in f.params:
                        S.add(kw.value.id)
    repo._opt_index_names = S
    return S


def G2_presence_tests(repo, clause, scope=ALL_LIB, min_params=0):
    obs = []
    fns = _scope_fns(repo, scope)
    n_params = n_red = n_sum = 0
    for fn in fns:
        # (a) None-default index parameters
        for p, d in fn.param_defaults().items():
            if not (isinstance(d, ast.Constant) and d.value is None):
                continue
            why = _integer_like(fn, p)
            if why is None:
                continue
            n_params += 1
            hits = _truth_uses(fn, p)
            obs.append(Ob("G2", clause, fn, hits[0] if hits else fn.node, not hits,
                          "parameter `%s` of %s defaults to None and is %s; %s" % (
                              p, fn.qualname, why,
                              "every test of it is an identity test against None" if not hits else
                              "but `%s` uses its TRUTH VALUE: the legitimate value 0 is treated as 'not given'" % ast.unparse(hits[0] if isinstance(hits[0], ast.expr) else hits[0].test)[:80]),
                          construct=("def %s(... %s=None ...)" % (fn.name, p)) if not hits else None,
                          slot="none-default:%s" % p, positive=True))
        # (a0) a NUMERIC parameter (numeric default: a tolerance, a fraction, a count) replaced through `p or <fallback>` / `<x> if p else <y>` used as "was it given":
        #      the legitimate value 0 / 0.0 is falsy and silently becomes the fallback
        for p, d in fn.param_defaults().items():
            if not (isinstance(d, ast.Constant) and isinstance(d.value, (int, float)) and not isinstance(d.value, bool)):
                continue
            for bo in [x for x in fn.own_nodes() if isinstance(x, ast.BoolOp) and isinstance(x.op, ast.Or) and isinstance(x.values[0], ast.Name) and x.values[0].id == p]:
                par = fn.parents.get(bo)
                if isinstance(par, (ast.If, ast.While, ast.IfExp, ast.Assert, ast.BoolOp, ast.UnaryOp)):
                    continue
                n_params += 1
                obs.append(Ob("G2", clause, fn, bo, False,
                              "`%s` in %s replaces the numeric parameter `%s` (default %r) by a fallback whenever it is FALSY: the legitimate value 0 is treated as 'not given' "
                              "(e.g. a tolerance of 0 becomes `%s`)" % (ast.unparse(bo)[:60], fn.qualname, p, d.value, ast.unparse(bo.values[-1])[:30]),
                              slot="numeric-or-fallback:%s" % p, positive="robust"))
        # (a') locals that hold "an index or None": min(..., default=None) / max(..., default=None) / next(..., None)
        for st in [x for x in fn.own_nodes() if isinstance(x, ast.Assign) and len(x.targets) == 1 and isinstance(x.targets[0], ast.Name) and isinstance(x.value, ast.Call)]:
            c = st.value
            dflt = next((k.value for k in c.keywords if k.arg == "default"), None)
            is_opt = (call_name(c) in ("min", "max") and isinstance(dflt, ast.Constant) and dflt.value is None) or \
                (call_name(c) == "next" and len(c.args) == 2 and isinstance(c.args[1], ast.Constant) and c.args[1].value is None)
            if not is_opt:
                continue
            v = st.targets[0].id
            n_params += 1
            hits = _truth_uses(fn, v)
            obs.append(Ob("G2", clause, fn, hits[0] if hits else st, not hits,
                          "local `%s` of %s is `%s` (a value or None); %s" % (
                              v, fn.qualname, ast.unparse(c)[:50],
                              "every test of it is an identity test against None" if not hits else
                              "but `%s` uses its TRUTH VALUE: the legitimate value 0 (atom index 0, count 0) is treated as 'nothing found'" % ast.unparse(hits[0] if isinstance(hits[0], ast.expr) else hits[0].test)[:80]),
                          slot="none-default-local:%s" % v, positive=True))
        # (a'') the same test taken indirectly: a collection of optional indices filtered by the truth value of its members (`{k: v for k, v in hints.items() if v}`)
        S = _optional_index_names(repo)
        for comp in [x for x in fn.own_nodes() if isinstance(x, (ast.ListComp, ast.DictComp, ast.SetComp, ast.GeneratorExp))]:
            for g in comp.generators:
                tvars = {y.id for y in ast.walk(g.target) if isinstance(y, ast.Name)}
                for c in g.ifs:
                    t = c
                    while isinstance(t, ast.UnaryOp) and isinstance(t.op, ast.Not):
                        t = t.operand
                    if not (isinstance(t, ast.Name) and t.id in tvars):
                        continue
                    src = g.iter
                    if isinstance(src, ast.Call) and isinstance(src.func, ast.Attribute) and src.func.attr in ("items", "values") and not src.args:
                        src = src.func.value
                    try:
                        lit = expand(fn, src)
                    except Exception:
                        lit = src
                    members = []
                    if isinstance(lit, ast.Dict):
                        members = [v for v in lit.values] + [ast.Name(id=k.value, ctx=ast.Load()) for k in lit.keys if isinstance(k, ast.Constant) and isinstance(k.value, str)]
                    elif isinstance(lit, ast.Call) and call_name(lit) == "dict":
                        members = [kw.value for kw in lit.keywords] + [ast.Name(id=kw.arg, ctx=ast.Load()) for kw in lit.keywords if kw.arg]
                    elif isinstance(lit, (ast.List, ast.Tuple, ast.Set)):
                        members = list(lit.elts)
                    opt = sorted({m.id for m in members if isinstance(m, ast.Name) and m.id in S})
                    if opt:
                        n_params += 1
                        obs.append(Ob("G2", clause, fn, comp, False,
                                      "`%s` in %s keeps the members of `%s` by their TRUTH VALUE; %s are optional indices (None = not given), so the legitimate index 0 is dropped like a missing one "
                                      "(`is not None` is meant)" % (ast.unparse(comp)[:70], fn.qualname, ast.unparse(src)[:30], ", ".join(opt)),
                                      slot="none-default-filter:%s" % ",".join(opt), positive="robust"))
        # (b) any()/all() over a selection of data; (c) signed sums as presence tests
        for n in fn.own_nodes():
            if isinstance(n, ast.Call) and isinstance(n.func, ast.Name) and n.func.id in ("any", "all") and len(n.args) == 1:
                n_red += 1
                arg = n.args[0]
                x = expand(fn, arg)
                kind = boolness(fn, arg)
                sel = isinstance(x, (ast.ListComp, ast.GeneratorExp, ast.SetComp)) and any(g.ifs for g in x.generators)
                bad = kind == "value" and sel
                obs.append(Ob("G2", clause, fn, n, not bad,
                              "%s(...) in %s reduces %s" % (n.func.id, fn.qualname,
                                                           "boolean-valued elements" if kind == "bool" else
                                                           ("the MEMBERS of a selection `%s`: a legitimately falsy member (0, 0.0, '') makes a non-empty selection look empty; "
                                                            "non-emptiness is len(...) > 0" % ast.unparse(x)[:70] if bad else "elements of undetermined kind (%s)" % kind)),
                              slot="truth-reduction:%s" % fn.qualname, positive=True))
            if isinstance(n, ast.Compare) and len(n.ops) == 1 and isinstance(n.ops[0], (ast.Eq, ast.NotEq, ast.Gt, ast.Lt)):
                sides = [n.left, n.comparators[0]]
                zero = [s for s in sides if isinstance(s, ast.Constant) and isinstance(s.value, (int, float)) and not isinstance(s.value, bool) and s.value == 0]
                sums = [s for s in sides if isinstance(s, ast.Call) and call_name(s) == "sum"]
                if zero and sums:
                    c = sums[0]
                    data = c.func.value if isinstance(c.func, ast.Attribute) and dotted(c.func.value) not in ("np", "numpy", "math") else (c.args[0] if c.args else None)
                    if data is None:
                        continue
                    kind = boolness(fn, data)
                    nonneg = isinstance(data, ast.Call) and call_name(data) in ("abs", "absolute", "square", "fabs") or \
                        (isinstance(data, ast.BinOp) and isinstance(data.op, ast.Pow))
                    par = fn.parents.get(n)
                    while isinstance(par, (ast.BoolOp, ast.UnaryOp)):
                        par = fn.parents.get(par)
                    if not isinstance(par, (ast.If, ast.While, ast.IfExp)):
                        continue
                    n_sum += 1
                    bad = kind == "value" and not nonneg
                    obs.append(Ob("G2", clause, fn, n, not bad,
                                  "`%s` in %s %s" % (ast.unparse(n)[:70], fn.qualname,
                                                     "tests presence of signed data through its SUM: values of opposite sign cancel (e.g. +q/-q charges), so present data is treated as absent"
                                                     if bad else "sums boolean / non-negative values"),
                                  slot="sum-presence:%s" % fn.qualname, positive=True))
    floor("G2", "None-default index parameters", n_params, min_params)
    obs.append(Ob("G2", clause, fns[0], fns[0].node, True,
                  "%d functions in scope: %d None-default index parameters, %d any()/all() reductions, %d sum-vs-0 tests inspected" % (len(fns), n_params, n_red, n_sum),
                  construct="presence-test inventory", slot="inventory"))
    return obs


_ONE_SHOT_CALLS = {"map", "filter", "zip", "iter", "reversed", "enumerate"}


def G3_one_shot_iterators(repo, clause, scope=ALL_LIB):
    obs = []
    fns = _scope_fns(repo, scope)
    n_gen = 0
    for fn in fns:
        for st in fn.own_nodes():
            if not (isinstance(st, ast.Assign) and len(st.targets) == 1 and isinstance(st.targets[0], ast.Name)):
                continue
            v = st.value
            lazy = isinstance(v, ast.GeneratorExp) or (isinstance(v, ast.Call) and isinstance(v.func, ast.Name) and v.func.id in _ONE_SHOT_CALLS)
            if not lazy:
                continue
            name = st.targets[0].id
            n_gen += 1
            uses = [u for u in fn.own_nodes() if isinstance(u, ast.Name) and u.id == name and isinstance(u.ctx, ast.Load)
                    and st in fn.rd.defs_of_use(u)] if True else []
            def_loops = [a for a in fn.ancestors(st) if isinstance(a, (ast.For, ast.While))]
            bad = None
            for u in uses:
                loops = [a for a in fn.ancestors(u) if isinstance(a, (ast.For, ast.While, ast.ListComp, ast.GeneratorExp, ast.SetComp, ast.DictComp))]
                extra = []
                for l in loops:
                    if l in def_loops:
                        continue
                    if isinstance(l, (ast.For,)) and l.iter is u:
                        continue        # `for x in it:` consumes it once; only *enclosing* loops re-run the use
                    if isinstance(l, (ast.ListComp, ast.GeneratorExp, ast.SetComp, ast.DictComp)) and l.generators[0].iter is u:
                        continue
                    extra.append(l)
                if extra:
                    bad = (u, "is consumed inside a loop that does not re-create it (`%s`): it is exhausted after the first iteration and silently empty afterwards"
                           % ast.unparse(fn.stmt_of(u)).splitlines()[0][:70])
                    break
            if bad is None and len(uses) >= 2:
                bad = (uses[1], "is consumed at %d sites: the second consumer sees an exhausted iterator" % len(uses))
            obs.append(Ob("G3", clause, fn, bad[0] if bad else st, bad is None,
                          "one-shot iterator `%s` in %s %s" % (name, fn.qualname, bad[1] if bad else "is consumed once"),
                          slot="iterator:%s:%s" % (fn.qualname, name), positive=True))
    obs.append(Ob("G3", clause, fns[0], fns[0].node, True,
                  "%d functions in scope, %d locals bound to one-shot iterators (generator expressions, map/filter/zip objects)" % (len(fns), n_gen),
                  construct="one-shot iterator inventory", slot="inventory"))
    return obs


def G4_numpy_container_pitfalls(repo, clause, scope=ALL_LIB):
    """Three container pitfalls that change results only for particular inputs:
    (a) np.array(rows, ndmin=2) of a possibly EMPTY list has shape (1, 0): one phantom row instead of none;
    (b) itertools.groupby only merges CONSECUTIVE equal keys: the input must be sorted by the same key;
    (c) isinstance(x, int) is False for numpy integers: a count parameter validated that way rejects the arrays other functions of
        the package pass to it."""
    obs = []
    fns = _scope_fns(repo, scope)
    n_a = n_b = n_c = 0
    for fn in fns:
        for c in [x for x in fn.own_nodes() if isinstance(x, ast.Call)]:
            nm = call_name(c)
            if nm in ("array", "asarray", "atleast_2d"):
                nd = next((k.value for k in c.keywords if k.arg == "ndmin"), None)
                if (nd is not None and isinstance(nd, ast.Constant) and nd.value == 2) or nm == "atleast_2d":
                    n_a += 1
                    src = expand(fn, c.args[0]) if c.args else None
                    maybe_empty = isinstance(src, (ast.ListComp, ast.List)) or (isinstance(src, ast.Name))
                    guarded = False
                    from .common import norm_guards
                    for t, pol, k in norm_guards(fn, c):
                        if "len(" in ast.unparse(t) or ".size" in ast.unparse(t):
                            guarded = True
                    bad = maybe_empty and not guarded
                    obs.append(Ob("G4", clause, fn, c, not bad,
                                  "`%s` in %s: %s" % (ast.unparse(c)[:60], fn.qualname,
                                                      "an EMPTY list of rows becomes an array of shape (1, 0) - one phantom row (term) instead of none - and everything sized by its length is off by one"
                                                      if bad else "guarded by a size test"),
                                  slot="ndmin2:%s" % fn.qualname, positive=bad))
            if nm == "groupby" and c.args:
                n_b += 1
                src = expand(fn, c.args[0])
                key = next((k.value for k in c.keywords if k.arg == "key"), c.args[1] if len(c.args) > 1 else None)
                sorted_same = isinstance(src, ast.Call) and call_name(src) == "sorted" and (
                    key is None or ast.unparse(next((k.value for k in src.keywords if k.arg == "key"), ast.Constant(None))) == ast.unparse(key))
                obs.append(Ob("G4", clause, fn, c, sorted_same,
                              "`%s` in %s: %s" % (ast.unparse(c)[:60], fn.qualname,
                                                  "input is sorted by the same key" if sorted_same else
                                                  "itertools.groupby merges only CONSECUTIVE items with equal keys and the input is not sorted by that key: equal keys that are not adjacent form several groups, and a dict built from them keeps only the last run"),
                              slot="groupby:%s" % fn.qualname, positive=not sorted_same))
            if nm == "sorted" and c.args and not any(k.arg == "key" for k in c.keywords):
                # sorting text tokens that are numbers: '10' < '2'
                src = c.args[0]
                if isinstance(src, ast.Call) and call_name(src) in ("keys", "list") and (src.args or isinstance(src.func, ast.Attribute)):
                    src = src.args[0] if src.args else src.func.value
                if isinstance(src, ast.Name):
                    key_exprs = [n_.targets[0].slice for n_ in fn.own_nodes() if isinstance(n_, ast.Assign) and len(n_.targets) == 1 and isinstance(n_.targets[0], ast.Subscript)
                                 and isinstance(n_.targets[0].value, ast.Name) and n_.targets[0].value.id == src.id]
                    text_keys = []
                    for ke in key_exprs:
                        if isinstance(ke, ast.Subscript) and isinstance(ke.value, ast.Name):
                            for d_ in fn.own_nodes():
                                if isinstance(d_, ast.Assign) and any(isinstance(t_, ast.Name) and t_.id == ke.value.id for t_ in d_.targets) and isinstance(d_.value, ast.Call) \
                                        and call_name(d_.value) in ("split", "rsplit"):
                                    text_keys.append(ke)
                    if text_keys:
                        obs.append(Ob("G4", clause, fn, c, False,
                                      "`%s` in %s sorts keys that are TEXT tokens of a split line (`%s`): numeric ids sort lexicographically ('10' < '2'), so from the tenth entry on the order is not the numeric one" % (
                                          ast.unparse(c)[:50], fn.qualname, ast.unparse(text_keys[0])),
                                      slot="text-sort:%s" % fn.qualname, positive=True))
            if nm == "isinstance" and len(c.args) == 2 and isinstance(c.args[1], ast.Name) and c.args[1].id == "int":
                # which parameter does the tested value come from?
                x = c.args[0]
                src_param = None
                if isinstance(x, ast.Name):
                    if x.id in fn.params:
                        src_param = x.id
                    else:
                        for comp in [n for n in fn.own_nodes() if isinstance(n, (ast.comprehension, ast.For))]:
                            tgt = comp.target
                            it = comp.iter
                            if isinstance(tgt, ast.Name) and tgt.id == x.id and isinstance(it, ast.Name) and it.id in fn.params:
                                src_param = it.id
                if src_param is None:
                    continue
                n_c += 1
                numpy_callers = []
                pos = [p_ for p_ in fn.params if p_ not in ("self", "cls")]
                for f2 in repo.all_fns():
                    for call in [y for y in f2.own_nodes() if isinstance(y, ast.Call) and call_name(y) == fn.name]:
                        args = list(call.args)
                        a = None
                        if src_param in pos and pos.index(src_param) < len(args):
                            a = args[pos.index(src_param)]
                        for k in call.keywords:
                            if k.arg == src_param:
                                a = k.value
                        if a is None:
                            continue
                        e = expand(f2, a)
                        if any(isinstance(y, ast.Call) and call_name(y) in ("array", "asarray", "ceil", "floor", "arange", "astype", "rint") for y in ast.walk(e)):
                            numpy_callers.append((f2, call))
                obs.append(Ob("G4", clause, fn, c, not numpy_callers,
                              "`%s` in %s: %s" % (ast.unparse(c), fn.qualname,
                                                  "no caller in the package passes numpy values" if not numpy_callers else
                                                  "isinstance(numpy integer, int) is False, but %s passes `%s` (a numpy array) for `%s`: the documented call path is rejected" % (
                                                      numpy_callers[0][0].qualname, ast.unparse(numpy_callers[0][1])[:50], src_param)),
                              slot="isinstance-int:%s:%s" % (fn.qualname, src_param), positive=bool(numpy_callers)))
    n_d = n_e = 0
    for fn in fns:
        for c in [x for x in fn.own_nodes() if isinstance(x, ast.Call)]:
            nm = call_name(c)
            # (d) fixed-width string arrays: dtype=str is ONE character wide, 'U2' two: longer labels are silently truncated on assignment
            dt = next((k.value for k in c.keywords if k.arg == "dtype"), None)
            if dt is not None and nm in ("empty", "zeros", "full", "ndarray", "empty_like", "zeros_like", "full_like", "dtype", "array"):
                dt = expand(fn, dt)
                width = None
                if isinstance(dt, ast.Name) and dt.id == "str":
                    width = 1 if nm in ("empty", "zeros", "full", "ndarray", "empty_like", "zeros_like", "full_like") else None
                else:
                    for y in ast.walk(dt):
                        if isinstance(y, ast.Constant) and isinstance(y.value, str):
                            import re as _re
                            m_ = _re.fullmatch(r"[<>|=]?[US](\d+)", y.value)
                            if m_:
                                width = int(m_.group(1))
                if width is not None:
                    n_d += 1
                    obs.append(Ob("G4", clause, fn, c, False,
                                  "`%s` in %s allocates a fixed-width string array (%d character%s): element symbols, type labels and ids longer than that are silently truncated when stored "
                                  "('Cl' -> 'C', 'Uuo' -> 'Uu'); the package keeps such data in lists or object arrays" % (ast.unparse(c)[:60], fn.qualname, width, "" if width == 1 else "s"),
                                  slot="fixed-width-strings:%s" % fn.qualname, positive="robust"))
            # (e) np.delete / np.insert without axis FLATTEN their argument: on an (N, 3) coordinate array one scalar is removed, not one row
            if nm in ("delete", "insert") and isinstance(c.func, ast.Attribute) and isinstance(c.func.value, ast.Name) and c.func.value.id in ("np", "numpy") \
                    and c.args and not any(k.arg == "axis" for k in c.keywords) and len(c.args) < (3 if nm == "delete" else 4):
                a0 = expand(fn, c.args[0])
                txt = ast.unparse(a0)
                two_d = "positions" in txt or ".cell" in txt or "all_positions" in txt or any(isinstance(y, ast.Call) and call_name(y) in ("cdist",) for y in ast.walk(a0))
                if two_d:
                    n_e += 1
                    obs.append(Ob("G4", clause, fn, c, False,
                                  "`%s` in %s: np.%s without `axis` works on the FLATTENED array - on a coordinate array (N x 3) it removes one scalar, not one atom's row, and returns a 1-D array" % (
                                      ast.unparse(c)[:60], fn.qualname, nm), slot="delete-without-axis:%s" % fn.qualname, positive="robust"))
    obs.append(Ob("G4", clause, fns[0], fns[0].node, True, "%d functions in scope: %d ndmin=2 conversions, %d groupby calls, %d isinstance(., int) tests on parameters inspected" % (len(fns), n_a, n_b, n_c),
                  construct="container pitfall inventory", slot="inventory"))
    return obs


def G6_stale_loop_cache(repo, clause, scope=ALL_LIB):
    """A local that is (re)computed inside an inner loop from the OUTER loop's variable, but only under a condition, keeps the value
    of an earlier outer iteration on the paths that skip the assignment: every path from the head of the outer loop to a use must
    pass through an assignment."""
    obs = []
    fns = _scope_fns(repo, scope)
    n = 0
    for fn in fns:
        fors = [x for x in fn.own_nodes() if isinstance(x, ast.For)]
        for outer in fors:
            ovars = {y.id for y in ast.walk(outer.target) if isinstance(y, ast.Name)}
            inners = [x for x in ast.walk(outer) if isinstance(x, ast.For) and x is not outer]
            for inner in inners:
                for d in [x for x in ast.walk(inner) if isinstance(x, ast.Assign) and len(x.targets) == 1 and isinstance(x.targets[0], ast.Name)]:
                    v = d.targets[0].id
                    if not any(isinstance(y, ast.Name) and y.id in ovars for y in ast.walk(d.value)):
                        continue
                    if not any(isinstance(a, ast.If) for a in fn.ancestors(d) if a is not inner and inner in list(fn.ancestors(a)) or a is inner and False):
                        # unconditional inside the inner loop body
                        cond = [a for a in fn.ancestors(d) if isinstance(a, ast.If) and (inner in list(fn.ancestors(a)))]
                        if not cond:
                            continue
                    uses = [u for u in ast.walk(inner) if isinstance(u, ast.Name) and u.id == v and isinstance(u.ctx, ast.Load) and fn.stmt_of(u) is not d]
                    if not uses:
                        continue
                    defs = [x for x in ast.walk(outer) if isinstance(x, ast.Assign) and any(isinstance(t, ast.Name) and t.id == v for t in x.targets)]
                    for u in uses[:1]:
                        n += 1
                        st = fn.stmt_of(u)
                        fresh = fn.cfg.must_pass(outer, defs, st)
                        obs.append(Ob("G6", clause, fn, st, fresh,
                                      "`%s` in %s is computed from the outer loop variable (%s) %s" % (
                                          v, fn.qualname, ", ".join(sorted(ovars)),
                                          "on every path of an outer iteration before it is used" if fresh else
                                          "only under a condition (`%s`): on the other paths the value of an EARLIER outer iteration is used - the result then depends on the order of the items" % ast.unparse(d)[:50]),
                                      slot="stale-cache:%s:%s" % (fn.qualname, v), positive=not fresh))
    obs.append(Ob("G6", clause, fns[0], fns[0].node, True, "%d functions in scope, %d inner-loop locals computed from an outer loop variable under a condition" % (len(fns), n),
                  construct="stale loop cache inventory", slot="inventory"))
    return obs


def _loop_derived(fn, loop):
    """names bound by the loop target or assigned inside the body from expressions that mention such names (fixpoint)"""
    derived = {y.id for y in ast.walk(loop.target) if isinstance(y, ast.Name)}
    for _ in range(5):
        grew = False
        for x in ast.walk(loop):
            if isinstance(x, ast.Assign) and any(isinstance(y, ast.Name) and y.id in derived for y in ast.walk(x.value)):
                for t in x.targets:
                    for y in ast.walk(t):
                        if isinstance(y, ast.Name) and isinstance(y.ctx, ast.Store) and y.id not in derived:
                            derived.add(y.id)
                            grew = True
        if not grew:
            break
    return derived


def G11_loop_exit_discipline(repo, clause, scope=ALL_LIB):
    """`if <test on the current item>: break` with nothing else in the branch, in a loop that accumulates results, ends the WHOLE loop because one
    item is uninteresting: the items after it are silently never processed (the guard clause that was meant is `continue`).  A break that belongs to a
    search (`found = x; break`), one whose test reads the accumulated state, and the reverse slip are not this rule's business.
    Also: an `except` / fallback branch inside such a loop that resets the accumulator but lets the loop run on."""
    obs = []
    fns = _scope_fns(repo, scope)
    n = 0
    for fn in fns:
        for loop in [x for x in fn.own_nodes() if isinstance(x, ast.For)]:
            accs = set()
            for x in ast.walk(loop):
                if isinstance(x, ast.Call) and isinstance(x.func, ast.Attribute) and x.func.attr in ("append", "extend", "add", "update", "write", "writelines") \
                        and isinstance(x.func.value, ast.Name):
                    accs.add(x.func.value.id)
                elif isinstance(x, ast.AugAssign) and isinstance(x.target, ast.Name):
                    accs.add(x.target.id)
                elif isinstance(x, ast.AugAssign) and isinstance(x.target, ast.Subscript) and isinstance(x.target.value, ast.Name):
                    accs.add(x.target.value.id)
                elif isinstance(x, ast.Expr) and isinstance(x.value, ast.Call) and isinstance(x.value.func, ast.Attribute) and isinstance(x.value.func.value, ast.Name):
                    # a statement-level method call on an object (block.AddLoopItem(...), f.write(...)): called for its effect on that object
                    accs.add(x.value.func.value.id)
            derived = _loop_derived(fn, loop)
            accs -= derived
            if not accs:
                continue
            for br in [x for x in ast.walk(loop) if isinstance(x, ast.Break)]:
                owner = next((a for a in fn.ancestors(br) if isinstance(a, (ast.For, ast.While))), None)
                if owner is not loop:
                    continue
                par = fn.parents.get(br)
                if not (isinstance(par, ast.If) and len(par.body) == 1 and par.body[0] is br and not par.orelse):
                    continue
                if fn.parents.get(par) is not loop or not any(par is x for x in loop.body):
                    continue       # only guard clauses at the top level of the body
                n += 1
                names = {y.id for y in ast.walk(par.test) if isinstance(y, ast.Name)}
                about_item = bool(names & derived) and not (names & accs)
                # statements of this iteration before the guard that already accumulated something make it a "stop after this one" break
                k = next(i for i, x in enumerate(loop.body) if x is par)
                acted = any(isinstance(y, ast.Call) and isinstance(y.func, ast.Attribute) and isinstance(y.func.value, ast.Name) and y.func.value.id in accs
                            for x in loop.body[:k] for y in ast.walk(x))
                rest_accumulates = any(isinstance(y, ast.Call) and isinstance(y.func, ast.Attribute) and isinstance(y.func.value, ast.Name) and y.func.value.id in accs
                                       for x in loop.body[k + 1:] for y in ast.walk(x)) or any(isinstance(y, ast.AugAssign) for x in loop.body[k + 1:] for y in ast.walk(x))
                # `for x in <ordered sequence>: if x > limit: break` is the correct early exit of a sorted scan; whether the sequence is sorted, and which way, is not
                # visible here - an ordering test of the loop item against a loop-invariant bound is left to the rules that know the order (A10)
                tst = par.test
                while isinstance(tst, ast.UnaryOp) and isinstance(tst.op, ast.Not):
                    tst = tst.operand
                if isinstance(tst, ast.Compare) and len(tst.ops) == 1 and isinstance(tst.ops[0], (ast.Lt, ast.LtE, ast.Gt, ast.GtE)) \
                        and isinstance(loop.target, ast.Name) and {type(tst.left), type(tst.comparators[0])} <= {ast.Name, ast.Constant, ast.Attribute} \
                        and loop.target.id in {getattr(tst.left, "id", None), getattr(tst.comparators[0], "id", None)}:
                    continue
                bad = about_item and not acted and rest_accumulates
                obs.append(Ob("G11", clause, fn, par, not bad,
                              "guard clause `if %s: break` in the loop over `%s` of %s: %s" % (
                                  ast.unparse(par.test)[:50], ast.unparse(loop.iter)[:40], fn.qualname,
                                  "does not skip items" if not bad else
                                  "the test is about the CURRENT item only, nothing was done for it yet, and the rest of the body accumulates into `%s`: every later item is silently "
                                  "dropped as soon as one item fails the test (the guard that skips one item is `continue`)" % ", ".join(sorted(accs))),
                              slot="guard-break:%s:%s" % (fn.qualname, ast.unparse(loop.iter)[:30]), positive="robust" if bad else False))
    # (b) an accumulator that is REPLACED wholesale inside the loop (a fallback branch: `acc = [all defaults]`) while other iterations add to it must end the
    #     loop there; otherwise the later iterations keep adding to the replacement
    for fn in fns:
        for loop in [x for x in fn.own_nodes() if isinstance(x, ast.For)]:
            adds = {}
            for x in ast.walk(loop):
                if isinstance(x, ast.AugAssign) and isinstance(x.target, ast.Name) and isinstance(x.op, ast.Add):
                    adds.setdefault(x.target.id, []).append(x)
                elif isinstance(x, ast.Call) and isinstance(x.func, ast.Attribute) and x.func.attr in ("append", "extend") and isinstance(x.func.value, ast.Name):
                    adds.setdefault(x.func.value.id, []).append(x)
            for acc, sites in adds.items():
                for x in ast.walk(loop):
                    if isinstance(x, ast.Assign) and len(x.targets) == 1 and isinstance(x.targets[0], ast.Name) and x.targets[0].id == acc \
                            and not any(isinstance(y, ast.Name) and y.id == acc for y in ast.walk(x.value)) \
                            and isinstance(x.value, (ast.ListComp, ast.List, ast.Call)) and not (isinstance(x.value, ast.List) and not x.value.elts):
                        owner = next((a for a in fn.ancestors(x) if isinstance(a, (ast.For, ast.While))), None)
                        if owner is not loop:
                            continue
                        # is the accumulator initialised outside the loop (so that it really carries over)?
                        outside = [d for d in fn.own_nodes() if isinstance(d, ast.Assign) and any(isinstance(t, ast.Name) and t.id == acc for t in d.targets)
                                   and not any(d is y for y in ast.walk(loop))]
                        if not outside:
                            continue
                        blk = None
                        par = fn.parents.get(x)
                        for fld in ("body", "orelse", "finalbody"):
                            b = getattr(par, fld, None)
                            if isinstance(b, list) and any(y is x for y in b):
                                blk = b
                        if blk is None or blk is loop.body:
                            continue
                        k = next(i for i, y in enumerate(blk) if y is x)
                        leaves = any(isinstance(y, (ast.Break, ast.Return, ast.Raise)) for y in blk[k + 1:])
                        n += 1
                        obs.append(Ob("G11", clause, fn, x, leaves,
                                      "`%s = %s` inside the loop over `%s` of %s replaces the list the other iterations add to%s" % (
                                          acc, ast.unparse(x.value)[:40], ast.unparse(loop.iter)[:40], fn.qualname,
                                          " and leaves the loop" if leaves else
                                          " but the loop RUNS ON: the remaining iterations add their items to the replacement (too many entries, mixed contents)"),
                                      slot="accumulator-replaced:%s:%s" % (fn.qualname, acc), positive="robust" if not leaves else False))
    obs.append(Ob("G11", clause, fns[0], fns[0].node, True, "%d functions in scope, %d guard-clause breaks in accumulating loops inspected" % (len(fns), n),
                  construct="loop exit inventory", slot="inventory"))
    return obs


def _is_set_expr(fn, e, depth=3):
    """Is the value of e a set (unordered)?  set(...) / {..} / set comprehension / set algebra of such / a local bound once to such."""
    if isinstance(e, (ast.Set, ast.SetComp)):
        return True
    if isinstance(e, ast.Call) and isinstance(e.func, ast.Name) and e.func.id in ("set", "frozenset"):
        return True
    if isinstance(e, ast.Call) and isinstance(e.func, ast.Attribute) and e.func.attr in ("difference", "union", "intersection", "symmetric_difference") \
            and _is_set_expr(fn, e.func.value, depth):
        return True
    if isinstance(e, ast.BinOp) and isinstance(e.op, (ast.Sub, ast.BitAnd, ast.BitOr, ast.BitXor)):
        return _is_set_expr(fn, e.left, depth) and _is_set_expr(fn, e.right, depth)
    if isinstance(e, ast.Name) and depth > 0 and fn.stmt_of(e) is not None:
        uv = fn.rd.unique_value(e)
        if uv is not None:
            return _is_set_expr(fn, uv[1], depth - 1)
    return False


def G12_set_order(repo, clause, scope=ALL_LIB):
    """list(<set>) / iteration over a set has no defined order (for integers it is hash-slot order, not ascending, not insertion order).  Using such a list as a
    row selector (fancy index, np.take, positions of appended atoms), enumerating it, or building an ordered result from it makes the result depend on
    hashing: sorted(...) is the ordered spelling.  Membership tests, lengths, set algebra and arguments of functions that sort are fine."""
    obs = []
    fns = _scope_fns(repo, scope)
    n = 0
    for fn in fns:
        for c in [x for x in fn.own_nodes() if isinstance(x, ast.Call) and isinstance(x.func, ast.Name) and x.func.id in ("list", "tuple") and len(x.args) == 1]:
            if not _is_set_expr(fn, c.args[0]):
                continue
            n += 1
            # what is the list used for?
            par = fn.parents.get(c)
            st = fn.stmt_of(c)
            uses = []
            if isinstance(st, ast.Assign) and len(st.targets) == 1 and isinstance(st.targets[0], ast.Name) and st.value is c:
                nm = st.targets[0].id
                uses = [u for u in fn.own_nodes() if isinstance(u, ast.Name) and u.id == nm and isinstance(u.ctx, ast.Load)]
            else:
                uses = [c]
            ordered_use = None
            sorts = []
            if uses and uses[0] is not c:
                sorts = [fn.stmt_of(y) for y in fn.own_nodes() if isinstance(y, ast.Call) and isinstance(y.func, ast.Attribute) and y.func.attr == "sort"
                         and isinstance(y.func.value, ast.Name) and y.func.value.id == uses[0].id]
            for u in uses:
                if sorts and any(fn.cfg.dominates(s_, fn.stmt_of(u)) for s_ in sorts if s_ is not None and fn.stmt_of(u) is not None):
                    continue     # sorted in place before this use
                p1 = fn.parents.get(u)
                # row selector: X[u], X[u, :], np.take(X, u), X.take(u)
                if isinstance(p1, ast.Subscript) and p1.slice is u and isinstance(p1.ctx, ast.Del):
                    continue     # `del x[rows]`: which rows go does not depend on the order they are named in (Atoms.__delitem__ sorts them itself, rule A10)
                if isinstance(p1, ast.Subscript) and p1.slice is u:
                    ordered_use = "`%s` selects rows in that order" % ast.unparse(p1)[:50]
                elif isinstance(p1, ast.Tuple) and isinstance(fn.parents.get(p1), ast.Subscript) and fn.parents.get(p1).slice is p1:
                    ordered_use = "`%s` selects rows in that order" % ast.unparse(fn.parents.get(p1))[:50]
                elif isinstance(p1, ast.Call) and call_name(p1) in ("take", "enumerate", "array", "zip") and any(a is u for a in p1.args):
                    if call_name(p1) != "array" or not any(isinstance(a2, ast.Call) and call_name(a2) in ("sorted", "sort", "isin", "in1d", "delete") for a2 in fn.ancestors(p1)):
                        ordered_use = "`%s` depends on that order" % ast.unparse(p1)[:50]
                elif isinstance(p1, (ast.For, ast.comprehension)) and p1.iter is u:
                    holder = p1 if isinstance(p1, ast.For) else fn.parents.get(p1)
                    if isinstance(holder, ast.For):
                        if any(isinstance(y, ast.Call) and isinstance(y.func, ast.Attribute) and y.func.attr in ("append", "extend", "write") for y in ast.walk(holder)):
                            ordered_use = "the loop over it builds an ordered result"
                    elif isinstance(holder, (ast.ListComp, ast.GeneratorExp)):
                        hp = fn.parents.get(holder)
                        if not (isinstance(hp, ast.Call) and call_name(hp) in ("set", "frozenset", "sorted", "sum", "any", "all", "min", "max", "len")):
                            ordered_use = "the comprehension over it builds an ordered result"
            obs.append(Ob("G12", clause, fn, c, ordered_use is None,
                          "`%s` in %s turns a set into a sequence: %s" % (ast.unparse(c)[:60], fn.qualname,
                                                                           "the order is not used" if ordered_use is None else
                                                                           ordered_use + ", but a set has no defined order (hash-slot order for integers: 8 comes before 5 in {5, 6, 7, 8}); sorted(...) keeps the documented order"),
                          slot="set-order:%s:%s" % (fn.qualname, ast.unparse(c)[:40]), positive="robust" if ordered_use else False))
    obs.append(Ob("G12", clause, fns[0], fns[0].node, True, "%d functions in scope, %d set-to-sequence conversions inspected" % (len(fns), n),
                  construct="set order inventory", slot="inventory"))
    return obs



def _table_provenance(repo, fn, expr, depth=0, seen=None):
    """Which literal tables (module-level dict literals with a numeric side) does `expr` list *in table order*, looking through locals with one
    definition, module-level assignments and imports; and does a sort occur anywhere on the way.  Returns ({table: {key: number}}, sorted_seen)."""
    tabs, sorted_seen = {}, False
    seen = seen if seen is not None else set()
    if depth > 6 or expr is None:
        return tabs, sorted_seen
    try:
        ex = expand(fn, expr) if fn is not None else expr
    except Exception:
        ex = expr
    for y in ast.walk(ex):
        if isinstance(y, ast.Call) and (call_name(y) in ("sorted", "sort", "argsort", "lexsort", "unique", "nsmallest", "nlargest", "SortedList")):
            sorted_seen = True
    for y in ast.walk(ex):
        if not isinstance(y, ast.Name) or y.id in seen:
            continue
        seen.add(y.id)
        mods = [fn.module] if fn is not None else []
        cand = []
        for m in mods:
            v = m.top_assign(y.id)
            if v is not None:
                cand.append((m, v))
            elif y.id in m.imports:
                src, attr = m.imports[y.id]
                sm = repo.modules.get(src)
                if sm is not None and attr:
                    v2 = sm.top_assign(attr)
                    if v2 is not None:
                        cand.append((sm, v2))
            else:
                for star in m.star_imports:
                    sm = repo.modules.get(star)
                    if sm is not None and sm.top_assign(y.id) is not None:
                        cand.append((sm, sm.top_assign(y.id)))
        for m, v in cand:
            if isinstance(v, ast.Dict):
                try:
                    d = ast.literal_eval(v)
                except Exception:
                    continue
                if d and all(isinstance(x, (int, float)) and not isinstance(x, bool) for x in d.values()):
                    tabs[y.id] = d
                elif d and all(isinstance(k, (int, float)) and not isinstance(k, bool) for k in d):
                    tabs[y.id] = {k: k for k in d}
            else:
                # module-level statements that sort the name in place
                for st in m.tree.body:
                    if isinstance(st, ast.Expr) and isinstance(st.value, ast.Call) and isinstance(st.value.func, ast.Attribute) and st.value.func.attr == "sort" \
                            and isinstance(st.value.func.value, ast.Name) and st.value.func.value.id == y.id:
                        sorted_seen = True
                t2, s2 = _table_provenance_module(repo, m, v, depth + 1, seen)
                tabs.update(t2)
                sorted_seen = sorted_seen or s2
    return tabs, sorted_seen


def _table_provenance_module(repo, m, expr, depth, seen):
    tabs, sorted_seen = {}, False
    if depth > 6:
        return tabs, sorted_seen
    for y in ast.walk(expr):
        if isinstance(y, ast.Call) and (call_name(y) in ("sorted", "sort", "argsort", "lexsort", "unique", "nsmallest", "nlargest")):
            sorted_seen = True
    for y in ast.walk(expr):
        if not isinstance(y, ast.Name) or y.id in seen:
            continue
        seen.add(y.id)
        v, dm = m.top_assign(y.id), m
        if v is None and y.id in m.imports:
            src, attr = m.imports[y.id]
            sm = repo.modules.get(src)
            if sm is not None and attr:
                v, dm = sm.top_assign(attr), sm
        if v is None:
            continue
        if isinstance(v, ast.Dict):
            try:
                d = ast.literal_eval(v)
            except Exception:
                continue
            if d and all(isinstance(x, (int, float)) and not isinstance(x, bool) for x in d.values()):
                tabs[y.id] = d
            elif d and all(isinstance(k, (int, float)) and not isinstance(k, bool) for k in d):
                tabs[y.id] = {k: k for k in d}
        else:
            for st in dm.tree.body:
                if isinstance(st, ast.Expr) and isinstance(st.value, ast.Call) and isinstance(st.value.func, ast.Attribute) and st.value.func.attr == "sort" \
                        and isinstance(st.value.func.value, ast.Name) and st.value.func.value.id == y.id:
                    sorted_seen = True
            t2, s2 = _table_provenance_module(repo, dm, v, depth + 1, seen)
            tabs.update(t2)
            sorted_seen = sorted_seen or s2
    return tabs, sorted_seen


def _method_memo(repo, clause, fn, counts, norm_guards):
    """(c') a query method that memoises its result on the object: an attribute written under a "not computed yet" test on itself and returned.  The attribute may be
    unknown to the constructor or initialised there to None - either way nothing resets it when the plain attributes it was computed from are re-assigned from outside
    (`obj.cell = ...`), edited in place, or carried along by copy()."""
    obs = []
    if fn.cls is None or fn.name == "__init__" or any((dotted(d) or "") == "property" for d in fn.node.decorator_list):
        return obs
    init = repo.maybe_fn("%s.__init__" % fn.cls) if isinstance(fn.cls, str) else None
    if init is None:
        return obs
    for st in [x for x in fn.own_nodes() if isinstance(x, ast.Assign) and len(x.targets) == 1 and isinstance(x.targets[0], ast.Attribute)
               and isinstance(x.targets[0].value, ast.Name) and x.targets[0].value.id == "self"]:
        attr = st.targets[0].attr
        def _self_attr(e):
            return isinstance(e, ast.Attribute) and e.attr == attr and isinstance(e.value, ast.Name) and e.value.id == "self"
        # "not computed yet" test on the attribute itself: `self.a is None`, `not hasattr(self, 'a')`, `self.a is _UNSET`
        guarded = False
        for t, pol, k in norm_guards(fn, st):
            if isinstance(t, ast.Compare) and len(t.ops) == 1 and isinstance(t.ops[0], (ast.Is, ast.IsNot, ast.Eq, ast.NotEq)) and (_self_attr(t.left) or _self_attr(t.comparators[0])):
                guarded = True
            if isinstance(t, ast.Call) and call_name(t) == "hasattr" and len(t.args) == 2 and const_value(t.args[1]) == attr:
                guarded = True
        returned = any(isinstance(r_, ast.Return) and r_.value is not None and any(_self_attr(y) for y in ast.walk(r_.value)) for r_ in fn.own_nodes())
        sources = sorted({y.attr for y in ast.walk(st.value) if isinstance(y, ast.Attribute) and isinstance(y.value, ast.Name) and y.value.id == "self" and y.attr != attr})
        # a reset that can work: a property setter / __setattr__ of a source that re-initialises the memo
        reset_by_setter = False
        for g in repo.all_fns():
            if g.cls == fn.cls and (g.name == "__setattr__" or any((dotted(d) or "").endswith(".setter") for d in g.node.decorator_list)):
                if any(isinstance(x, ast.Assign) and any(_self_attr(t) for t in x.targets) for x in g.own_nodes()):
                    reset_by_setter = True
        if guarded and returned and sources and not reset_by_setter:
            counts["cache"] += 1
            obs.append(Ob("G7", clause, fn, st, False,
                          "%s memoises its answer in `self.%s` (computed from self.%s the first time only) and no setter of that attribute resets it: after `obj.%s = ...` or an in-place edit the method "
                          "keeps returning the answer for the OLD value - and copy() carries the stale memo along" % (fn.qualname, attr, ", self.".join(sources), sources[0]),
                          slot="method-memo:%s" % fn.qualname, positive="robust"))
    return obs


def _raw_method_memo(repo, clause, counts):
    """The same memo shape on methods that are NEW (not in the reference function list): those are folded into their callers at parse time, so they are looked for in the
    raw source of mofun/atoms.py: `if <self.A not computed yet>: self.A = f(self.B ...)` ... `return self.A`."""
    obs = []
    m = repo.modules.get("mofun.atoms")
    if m is None:
        return obs
    try:
        raw = ast.parse(m.src)
    except SyntaxError:
        return obs
    known = {q for (mod, q) in repo.fns if mod == "mofun.atoms"}
    for c in [n for n in raw.body if isinstance(n, ast.ClassDef)]:
        setters = [g for g in c.body if isinstance(g, ast.FunctionDef) and (g.name == "__setattr__" or any((dotted(d) or "").endswith(".setter") for d in g.decorator_list))]
        for g in [g for g in c.body if isinstance(g, ast.FunctionDef)]:
            q = "%s.%s" % (c.name, g.name)
            if q in known or g.name == "__init__":
                continue
            for iff in [n for n in ast.walk(g) if isinstance(n, ast.If)]:
                for st in [x for x in iff.body if isinstance(x, ast.Assign) and len(x.targets) == 1 and isinstance(x.targets[0], ast.Attribute)
                           and isinstance(x.targets[0].value, ast.Name) and x.targets[0].value.id == "self"]:
                    attr = st.targets[0].attr
                    def _sa(e):
                        return isinstance(e, ast.Attribute) and e.attr == attr and isinstance(e.value, ast.Name) and e.value.id == "self"
                    t = iff.test
                    while isinstance(t, ast.UnaryOp) and isinstance(t.op, ast.Not):
                        t = t.operand
                    guarded = (isinstance(t, ast.Compare) and len(t.ops) == 1 and (_sa(t.left) or _sa(t.comparators[0]))) or \
                        (isinstance(t, ast.Call) and call_name(t) == "hasattr" and len(t.args) == 2 and const_value(t.args[1]) == attr)
                    returned = any(isinstance(r_, ast.Return) and r_.value is not None and any(_sa(y) for y in ast.walk(r_.value)) for r_ in ast.walk(g))
                    sources = sorted({y.attr for y in ast.walk(st.value) if isinstance(y, ast.Attribute) and isinstance(y.value, ast.Name) and y.value.id == "self" and y.attr != attr})
                    reset = any(isinstance(x, ast.Assign) and any(_sa(t_) for t_ in x.targets) for s_ in setters for x in ast.walk(s_))
                    if guarded and returned and sources and not reset:
                        counts["cache"] += 1
                        obs.append(Ob("G7", clause, FileObj(m.relpath, q), st, False,
                                      "new method %s memoises its answer in `self.%s` (computed from self.%s the first time only) and no setter of that attribute resets it: after `obj.%s = ...` "
                                      "(replicate, a user assigning a new cell) or an in-place edit the method keeps returning the answer for the OLD value" % (q, attr, ", self.".join(sources), sources[0]),
                                      slot="method-memo:%s" % q, positive="robust"))
    return obs


def G7_api_contract_pitfalls(repo, clause, scope=ALL_LIB):
    """Contracts of library calls and small arithmetic idioms that are wrong only at a boundary:
    (a) the insertion point returned by bisect_left / bisect_right / np.searchsorted may equal len(list): using it as an index without a bound check
        fails (or wraps) for values beyond the last entry;
    (b) k consecutive integers span k - 1: `hi - lo == len(xs)` as a contiguity test accepts a range with one hole;
    (c) functools.lru_cache / cache on a function hands every caller the SAME (mutable) result object and hides later changes of files or of mutable
        arguments; a @property that stores a cache on self goes stale when its source arrays are modified in place;
    (d) a table parameter that is stored on self (possibly a numpy array) is tested for presence by its truth value."""
    obs = []
    fns = _scope_fns(repo, scope)
    counts = {"bisect": 0, "span": 0, "cache": 0, "truth": 0}
    from .common import norm_guards
    # query methods of the Atoms class are reachable from every property's anchors (every anchored function handles Atoms objects): their memo discipline is examined whatever the scope
    in_scope = {id(f) for f in fns}
    memo_only = [f for f in repo.all_fns() if f.cls is not None and f.module.name == "mofun.atoms" and id(f) not in in_scope]
    obs.extend(_raw_method_memo(repo, clause, counts))
    for fn in list(fns) + memo_only:
        if id(fn) not in in_scope:
            obs.extend(_method_memo(repo, clause, fn, counts, norm_guards))
            continue
        # (c) decorators
        for d in fn.node.decorator_list:
            nm = dotted(d.func) if isinstance(d, ast.Call) else dotted(d)
            if nm and nm.split(".")[-1] in ("lru_cache", "cache", "cached_property", "memoize"):
                counts["cache"] += 1
                obs.append(Ob("G7", clause, fn, fn.node, False,
                              "%s is memoised with @%s: every call with equal arguments returns the SAME object (a later in-place edit by one caller is seen by the next), and a file re-written under the same path is never re-read" % (fn.qualname, nm),
                              construct="@%s def %s" % (nm, fn.name), slot="memoised:%s" % fn.qualname, positive=True))
        if any((dotted(d) or "") == "property" for d in fn.node.decorator_list) and fn.cls is not None:
            stores = [n for n in fn.own_nodes() if isinstance(n, (ast.Assign, ast.AugAssign)) and any(
                isinstance(t, ast.Attribute) and isinstance(t.value, ast.Name) and t.value.id == "self" for t in (n.targets if isinstance(n, ast.Assign) else [n.target]))]
            counts["cache"] += 1
            obs.append(Ob("G7", clause, fn, stores[0] if stores else fn.node, not stores,
                          "property %s %s" % (fn.qualname, "is recomputed from its source arrays on every access" if not stores else
                                              "STORES `%s` on the object: the cached value survives in-place edits of the arrays it was computed from (retyping an atom, then searching again, still sees the old elements)" % ast.unparse(stores[0])[:50]),
                          construct=None if stores else "@property def %s" % fn.name, slot="property-cache:%s" % fn.qualname, positive=True))
        obs.extend(_method_memo(repo, clause, fn, counts, norm_guards))
        for n in fn.own_nodes():
            # (e) binary search needs a sorted sequence: a sequence taken in table order from a literal table whose numbers are not monotone
            if isinstance(n, ast.Call) and call_name(n) in ("bisect_left", "bisect_right", "bisect", "searchsorted", "insort", "insort_left", "insort_right") and n.args:
                seq_ = n.func.value if (call_name(n) == "searchsorted" and isinstance(n.func, ast.Attribute) and dotted(n.func.value) not in ("np", "numpy")) else n.args[0]
                tabs, sorted_seen = _table_provenance(repo, fn, seq_)
                for tname, nums in sorted(tabs.items()):
                    inv = [k_ for k_, (a_, b_) in zip(list(nums)[1:], zip(list(nums.values()), list(nums.values())[1:])) if a_ > b_]
                    if sorted_seen:
                        continue
                    counts["bisect"] += 1
                    obs.append(Ob("G7", clause, fn, n, not inv,
                                  "`%s` is a binary search over `%s`, which lists the numbers of the literal table %s in TABLE ORDER%s" % (
                                      ast.unparse(n)[:50], ast.unparse(seq_)[:30], tname,
                                      " (monotone: fine)" if not inv else "; the table is NOT monotone (%d entries smaller than their predecessor, e.g. %s), so the search lands in the wrong neighbourhood for values near those entries" % (len(inv), ", ".join(map(str, inv[:6])))),
                                  slot="bisect-sorted:%s" % fn.qualname, positive="robust"))
            # (a) insertion points used as indices
            if isinstance(n, ast.Assign) and len(n.targets) == 1 and isinstance(n.targets[0], ast.Name) and isinstance(n.value, ast.Call) \
                    and call_name(n.value) in ("bisect_left", "bisect_right", "bisect", "searchsorted"):
                v = n.targets[0].id
                seq = n.value.args[0] if n.value.args else None
                uses = [u for u in fn.own_nodes() if isinstance(u, ast.Subscript) and isinstance(u.slice, ast.Name) and u.slice.id == v and isinstance(u.ctx, ast.Load)]
                for u in uses:
                    counts["bisect"] += 1
                    bounded = False
                    for t, pol, k in norm_guards(fn, u):
                        if any(isinstance(y, ast.Name) and y.id == v for y in ast.walk(t)) and any(isinstance(y, ast.Call) and call_name(y) == "len" for y in ast.walk(t)):
                            bounded = True
                    clipped = any(isinstance(d_, ast.Assign) and any(isinstance(t_, ast.Name) and t_.id == v for t_ in d_.targets) and isinstance(d_.value, ast.Call)
                                  and call_name(d_.value) in ("min", "clip", "minimum") for d_ in fn.own_nodes())
                    ok = bounded or clipped
                    obs.append(Ob("G7", clause, fn, u, ok,
                                  "`%s` uses the insertion point `%s = %s` as an index %s" % (ast.unparse(u), v, ast.unparse(n.value)[:40],
                                                                                             "under a bound check" if ok else
                                                                                             "WITHOUT a bound check: for a value beyond the last entry the insertion point equals len(%s) and the lookup raises IndexError (swallowed by a blanket handler further up, it silently changes the result)" % (ast.unparse(seq) if seq is not None else "the list")),
                                  slot="insertion-point:%s" % fn.qualname, positive=not ok))
            # (b) span vs length
            if isinstance(n, ast.Compare) and len(n.ops) == 1 and isinstance(n.ops[0], (ast.Eq, ast.NotEq)):
                sides = [n.left, n.comparators[0]]
                for a, b in (sides, sides[::-1]):
                    if isinstance(a, ast.BinOp) and isinstance(a.op, ast.Sub) and isinstance(b, ast.Call) and call_name(b) == "len" and b.args:
                        def end(e):
                            if isinstance(e, ast.Subscript) and const_value(e.slice) in (0, -1):
                                return ast.unparse(e.value), const_value(e.slice)
                            if isinstance(e, ast.Call) and call_name(e) in ("max", "min") and e.args:
                                return ast.unparse(e.args[0]), call_name(e)
                            return None, None
                        (s1, k1), (s2, k2) = end(a.left), end(a.right)
                        if s1 is not None and s1 == s2 and k1 != k2 and ast.unparse(b.args[0]) == s1:
                            counts["span"] += 1
                            obs.append(Ob("G7", clause, fn, n, False,
                                          "`%s` tests contiguity by comparing the SPAN of %s with its LENGTH: k consecutive integers span k - 1, so this accepts exactly the ranges with one hole (and rejects the contiguous ones)" % (ast.unparse(n), s1),
                                          slot="span-length:%s" % fn.qualname, positive=True))
        # (d) stored table parameters tested by truth value
        stored = set()
        for n in fn.own_nodes():
            if isinstance(n, ast.Assign) and isinstance(n.value, ast.Name) and n.value.id in fn.params and any(
                    isinstance(t, ast.Attribute) and isinstance(t.value, ast.Name) and t.value.id == "self" for t in n.targets):
                stored.add(n.value.id)
        for p in sorted(stored):
            hits = _truth_uses(fn, p)
            if not hits and not any(isinstance(y, ast.Call) and call_name(y) == "len" and y.args and isinstance(y.args[0], ast.Name) and y.args[0].id == p for y in fn.own_nodes()):
                continue
            counts["truth"] += 1
            obs.append(Ob("G7", clause, fn, hits[0] if hits else fn.node, not hits,
                          "table parameter `%s` of %s (stored on the object) is tested for presence %s" % (
                              p, fn.qualname, "by its length" if not hits else
                              "by its TRUTH VALUE (`%s`): the callers inside the package pass numpy arrays (merged type tables, subsets), for which that raises `truth value of an array is ambiguous`" % ast.unparse(hits[0] if isinstance(hits[0], ast.expr) else hits[0].test)[:50]),
                          construct=None if hits else "def %s(... %s ...)" % (fn.name, p), slot="table-truth:%s:%s" % (fn.qualname, p), positive=True))
    obs.append(Ob("G7", clause, fns[0], fns[0].node, True,
                  "%d functions in scope: %d insertion-point subscripts, %d span-vs-length tests, %d memoisation sites / properties, %d stored table parameters inspected" % (
                      len(fns), counts["bisect"], counts["span"], counts["cache"], counts["truth"]),
                  construct="api contract inventory", slot="inventory"))
    return obs


def G13_size_bound_agreement(repo, clause, scope=ALL_LIB):
    """A lookup table allocated with `n + 1` entries has the valid indices 0..n.  A filter that admits indices into it with the STRICT test `i < n`
    silently leaves out the index n itself - the off-by-one between a size and a bound (`i <= n` or `i < n + 1` is meant)."""
    obs = []
    fns = _scope_fns(repo, scope)
    n_sites = 0
    for fn in fns:
        for a in [x for x in fn.own_nodes() if isinstance(x, ast.Assign) and len(x.targets) == 1 and isinstance(x.targets[0], ast.Name) and isinstance(x.value, ast.Call)
                  and call_name(x.value) in ("zeros", "ones", "empty", "full") and x.value.args]:
            size = a.value.args[0]
            if not (isinstance(size, ast.BinOp) and isinstance(size.op, ast.Add) and const_value(size.right) == 1 and isinstance(size.left, ast.Name)):
                continue
            tab, bound = a.targets[0].id, size.left.id
            # subscripts of the table whose index expression filters by the bound
            for sub in [x for x in fn.own_nodes() if isinstance(x, ast.Subscript) and isinstance(x.value, ast.Name) and x.value.id == tab]:
                for cmp_ in [y for y in ast.walk(sub.slice) if isinstance(y, ast.Compare) and len(y.ops) == 1]:
                    l, r = cmp_.left, cmp_.comparators[0]
                    strict_below = (isinstance(cmp_.ops[0], ast.Lt) and isinstance(r, ast.Name) and r.id == bound) or \
                        (isinstance(cmp_.ops[0], ast.Gt) and isinstance(l, ast.Name) and l.id == bound)
                    incl = (isinstance(cmp_.ops[0], ast.LtE) and isinstance(r, ast.Name) and r.id == bound) or \
                        (isinstance(cmp_.ops[0], ast.GtE) and isinstance(l, ast.Name) and l.id == bound)
                    if strict_below or incl:
                        n_sites += 1
                        obs.append(Ob("G13", clause, fn, sub, not strict_below,
                                      "`%s` has %s + 1 entries (valid indices 0..%s); the indices admitted into it are filtered by `%s`%s" % (
                                          tab, bound, bound, ast.unparse(cmp_), "" if not strict_below else
                                          ": the index %s itself - a valid entry - is left out (off by one between size and bound)" % bound),
                                      slot="size-bound:%s:%s" % (fn.qualname, tab), positive="robust" if strict_below else False))
    obs.append(Ob("G13", clause, fns[0], fns[0].node, True, "%d functions in scope, %d bound-filtered lookups into a table of size bound + 1 inspected" % (len(fns), n_sites),
                  construct="size/bound inventory", slot="inventory"))
    return obs


def _view_base(e):
    """The object whose storage a numpy expression (possibly) shares: strips view-producing wrappers - np.asarray / asanyarray / ravel / reshape / view / transpose /
    squeeze / .T / basic slicing (slices, integers, None, Ellipsis) - and returns the remaining expression, or None when a copy is certainly made on the way."""
    while True:
        if isinstance(e, ast.Call):
            nm = call_name(e)
            if nm in ("asarray", "asanyarray", "atleast_1d", "atleast_2d") and e.args:
                e = e.args[0]
                continue
            if isinstance(e.func, ast.Attribute) and nm in ("reshape", "ravel", "view", "transpose", "squeeze", "swapaxes"):
                e = e.func.value if not (isinstance(e.func.value, ast.Name) and e.func.value.id in ("np", "numpy")) else (e.args[0] if e.args else None)
                if e is None:
                    return None
                continue
            return None
        if isinstance(e, ast.Attribute) and e.attr == "T":
            e = e.value
            continue
        if isinstance(e, ast.Subscript):
            idx = e.slice.elts if isinstance(e.slice, ast.Tuple) else [e.slice]
            basic = all(isinstance(i, ast.Slice) or (isinstance(i, ast.Constant) and (isinstance(i.value, int) or i.value is None or i.value is Ellipsis))
                        or (isinstance(i, ast.UnaryOp) and isinstance(i.operand, ast.Constant)) for i in idx)
            if not basic:
                return None      # fancy indexing copies
            e = e.value
            continue
        return e


def G14_view_mutation(repo, clause, scope=ALL_LIB):
    """np.asarray, reshape and basic slicing return VIEWS: an in-place operation on such a local (`v.sort()`, `v += ..`, `v[..] = ..`) rewrites the array of the
    object it was taken from.  When that object is an argument of the function (not self), a helper computation silently reorders / changes the caller's data."""
    obs = []
    fns = _scope_fns(repo, scope)
    n = 0
    for fn in fns:
        params = set(fn.params) - {"self", "cls"}
        for a in [x for x in fn.own_nodes() if isinstance(x, ast.Assign) and len(x.targets) == 1 and isinstance(x.targets[0], ast.Name)]:
            v = a.targets[0].id
            base = _view_base(a.value)
            if base is None or base is a.value:
                continue
            if not (isinstance(base, ast.Attribute) and isinstance(base.value, ast.Name) and base.value.id in params):
                continue
            if sum(1 for d in fn.own_nodes() if isinstance(d, ast.Assign) and any(isinstance(t, ast.Name) and t.id == v for t in d.targets)) != 1:
                continue
            muts = []
            for x in fn.own_nodes():
                if isinstance(x, ast.Call) and isinstance(x.func, ast.Attribute) and isinstance(x.func.value, ast.Name) and x.func.value.id == v \
                        and x.func.attr in ("sort", "partition", "fill", "put", "itemset", "resize"):
                    muts.append(x)
                elif isinstance(x, ast.AugAssign) and isinstance(x.target, ast.Name) and x.target.id == v:
                    muts.append(x)
                elif isinstance(x, (ast.Assign, ast.AugAssign)):
                    for t in (x.targets if isinstance(x, ast.Assign) else [x.target]):
                        if isinstance(t, ast.Subscript) and isinstance(t.value, ast.Name) and t.value.id == v:
                            muts.append(x)
            n += 1
            obs.append(Ob("G14", clause, fn, muts[0] if muts else a, not muts,
                          "`%s = %s` in %s is a VIEW of %s: %s" % (v, ast.unparse(a.value)[:50], fn.qualname, ast.unparse(base),
                                                                    "it is only read" if not muts else
                                                                    "`%s` works in place and rewrites the rows of the caller's %s (the helper computation changes the data it was derived from)" % (
                                                                        ast.unparse(muts[0])[:40], ast.unparse(base))),
                          slot="view-mutation:%s:%s" % (fn.qualname, v), positive="robust" if muts else False))
    # chains: v = other.types; v = np.asarray(v); v += k  (a helper folded into its caller, a local re-bound to a view of itself): follow the reaching definitions
    for fn in fns:
        params = set(fn.params) - {"self", "cls"}
        done = {o.slot for o in obs}

        ARRAYS = ("positions", "atom_types", "charges", "groups", "cell", "bonds", "angles", "dihedrals", "impropers", "bond_types", "angle_types", "dihedral_types",
                  "improper_types", "extra_atom_fields", "extra_bond_fields", "extra_angle_fields", "extra_dihedral_fields", "extra_improper_fields", "atom_type_masses")

        def origin(st, name, depth=0, wrapped=False):
            if depth > 4:
                return None
            try:
                ds = fn.rd.defs_at(st, name)
            except Exception:
                return None
            ds = [d for d in ds if isinstance(d, ast.AST)]
            if len(ds) != 1 or not (isinstance(ds[0], ast.Assign) and len(ds[0].targets) == 1 and isinstance(ds[0].targets[0], ast.Name)):
                return None
            b = _view_base(ds[0].value)
            if b is None:
                return None
            wrapped = wrapped or b is not ds[0].value
            if isinstance(b, ast.Attribute) and isinstance(b.value, ast.Name) and b.value.id in params:
                # an ndarray for certain: it went through a numpy view constructor, or it is one of the array attributes of Atoms (an int / tuple attribute would be re-bound by +=)
                return b if (wrapped or b.attr in ARRAYS) else None
            if isinstance(b, ast.Name) and b.id not in params:
                return origin(ds[0], b.id, depth + 1, wrapped)
            return None
        for x in fn.own_nodes():
            v = None
            if isinstance(x, ast.AugAssign) and isinstance(x.target, ast.Name):
                v = x.target.id
            elif isinstance(x, ast.Expr) and isinstance(x.value, ast.Call) and isinstance(x.value.func, ast.Attribute) and isinstance(x.value.func.value, ast.Name) \
                    and x.value.func.attr in ("sort", "partition", "fill", "put", "itemset", "resize"):
                v = x.value.func.value.id
            if v is None or v in params or "view-mutation:%s:%s" % (fn.qualname, v) in done:
                continue
            st = fn.stmt_of(x) or x
            b = origin(st, v)
            if b is None:
                continue
            n += 1
            done.add("view-mutation:%s:%s" % (fn.qualname, v))
            obs.append(Ob("G14", clause, fn, x, False,
                          "`%s` in %s works in place on `%s`, which (through np.asarray / plain re-binding, no copy on the way) is still the caller's array %s: the computation changes the "
                          "data of the argument it was derived from (a second call with the same object sees the shifted values)" % (ast.unparse(x)[:40], fn.qualname, v, ast.unparse(b)),
                          slot="view-mutation:%s:%s" % (fn.qualname, v), positive="robust"))
    obs.append(Ob("G14", clause, fns[0], fns[0].node, True, "%d functions in scope, %d locals that are views of an argument's array inspected" % (len(fns), n),
                  construct="view mutation inventory", slot="inventory"))
    return obs


def G15_order_and_bucket_pitfalls(repo, clause, scope=ALL_LIB):
    """(a) `X[mask] = list(D.values())` / `X[sorted keys] = D.values()`: a boolean mask (or sorted index) enumerates positions in ASCENDING order, a dict enumerates
        its values in INSERTION order - the two agree only for a dict that happens to be filled in ascending key order.
    (b) coordinates rounded to the resolution of a tolerance and used as dictionary keys / set members do NOT implement `distance < tolerance`: two points closer
        than the tolerance fall into different buckets whenever a bucket boundary lies between them (1.500004 and 1.500006 at five decimals)."""
    obs = []
    fns = _scope_fns(repo, scope)
    n = 0
    for fn in fns:
        # (a)
        for a in [x for x in fn.own_nodes() if isinstance(x, ast.Assign) and len(x.targets) == 1 and isinstance(x.targets[0], ast.Subscript)]:
            v = a.value
            inner = v.args[0] if isinstance(v, ast.Call) and call_name(v) in ("list", "array", "asarray", "tuple", "fromiter") and v.args else v
            if not (isinstance(inner, ast.Call) and isinstance(inner.func, ast.Attribute) and inner.func.attr == "values" and not inner.args):
                continue
            dname = ast.unparse(inner.func.value)
            idx = expand(fn, a.targets[0].slice)
            idx_txt = ast.unparse(idx)
            # the selector: a boolean mask / flatnonzero / sorted(...) built from the same dict's keys
            from_keys = (dname + ".keys()") in idx_txt or ("sorted(" + dname) in idx_txt
            masky = isinstance(a.targets[0].slice, ast.Name) and any(
                isinstance(d, ast.Assign) and any(isinstance(t, ast.Subscript) and isinstance(t.value, ast.Name) and t.value.id == a.targets[0].slice.id for t in d.targets)
                and dname in ast.unparse(d.targets[0]) for d in fn.own_nodes())
            direct_keys = idx_txt.replace(" ", "") in ("list(%s.keys())" % dname, "list(%s)" % dname, "%s.keys()" % dname)
            if direct_keys or not (from_keys or masky):
                continue
            n += 1
            obs.append(Ob("G15", clause, fn, a, False,
                          "`%s` in %s pairs positions selected in ASCENDING order with the values of `%s` in INSERTION order: for a map filled in another order (e.g. {2: 3, 0: 2}) "
                          "the values land on the wrong entries" % (ast.unparse(a)[:70], fn.qualname, dname), slot="mask-vs-dict-order:%s" % fn.qualname, positive="robust"))
        # (b)
        tol_params = [p for p in fn.params if any(k in p.lower() for k in ("delta", "atol", "tol", "eps"))]
        # (b') whatever the tolerance: a ROUNDED POSITION kept in a set / used as a dict key stands in for the identity of an atom.  Two different atoms at one place (a mixed-occupancy
        #      site) become one, and the same place reached through two images can round to two keys
        if fn.outer is None:
            for c in [x for x in fn.all_nodes() if isinstance(x, ast.Call) and call_name(x) in ("round", "around", "rint") and x.args]:
                if not any(isinstance(y, ast.Name) and "pos" in y.id.lower() for y in ast.walk(c.args[0])):
                    continue
                holder_nodes = None
                for f2 in repo.all_fns():
                    if (f2 is fn or f2.outer is fn) and any(y is c for y in f2.own_nodes()):
                        holder_nodes = f2
                if holder_nodes is None:
                    continue
                st = holder_nodes.stmt_of(c)
                if not (isinstance(st, ast.Assign) and len(st.targets) == 1 and isinstance(st.targets[0], ast.Name)):
                    continue
                nm_ = st.targets[0].id
                member = any((isinstance(y, ast.Compare) and len(y.ops) == 1 and isinstance(y.ops[0], (ast.In, ast.NotIn)) and isinstance(y.left, ast.Name) and y.left.id == nm_) or
                             (isinstance(y, ast.Call) and call_name(y) in ("add", "setdefault", "get") and y.args and isinstance(y.args[0], ast.Name) and y.args[0].id == nm_)
                             for y in holder_nodes.own_nodes())
                if member:
                    n += 1
                    obs.append(Ob("G15", clause, holder_nodes, c, False,
                                  "`%s = %s` in %s is used as a set member / key: a ROUNDED POSITION stands in for the identity of an atom - two different atoms at one place (mixed-occupancy "
                                  "site, element ignored) are merged, and one place seen through two periodic images can round to two different keys" % (nm_, ast.unparse(st.value)[:40], holder_nodes.qualname),
                                  slot="position-as-identity:%s" % holder_nodes.qualname, positive="robust"))
        if tol_params:
            for c in [x for x in fn.all_nodes() if isinstance(x, ast.Call) and call_name(x) in ("round", "around", "rint") and x.args]:
                # does the rounded value become (part of) a dict key / set member / tuple used as key?
                holder = fn
                for f2 in repo.all_fns():
                    if f2.outer is fn and any(y is c for y in ast.walk(f2.node)):
                        holder = f2
                coordy = any(isinstance(y, ast.Name) and ("pos" in y.id.lower() or "mass" in y.id.lower() or y.id in ("p1", "p2", "xyz", "m")) for y in ast.walk(c.args[0]))
                keyed = False
                if holder is not fn:
                    # a nested key helper: used in setdefault / get / subscripts / `in`
                    hname = holder.node.name
                    for u in [x for x in fn.own_nodes() if isinstance(x, ast.Call) and isinstance(x.func, ast.Name) and x.func.id == hname]:
                        p1 = fn.parents.get(u)
                        if isinstance(p1, ast.Call) and call_name(p1) in ("get", "setdefault", "add", "pop") or isinstance(p1, (ast.Subscript, ast.Compare, ast.Dict, ast.DictComp, ast.SetComp)):
                            keyed = True
                else:
                    for anc in fn.ancestors(c):
                        if isinstance(anc, (ast.Dict, ast.DictComp, ast.SetComp, ast.Set)) or (isinstance(anc, ast.Call) and call_name(anc) in ("get", "setdefault", "add")) \
                                or (isinstance(anc, ast.Subscript) and any(y is c for y in ast.walk(anc.slice))):
                            keyed = True
                if coordy and keyed:
                    n += 1
                    obs.append(Ob("G15", clause, fn, c, False,
                                  "`%s` in %s turns the compared quantity into bucket keys while the function promises a tolerance `%s`: two values closer than the tolerance are told apart whenever a "
                                  "rounding boundary lies between them (35.45 and 35.5 round to different integers), so `difference < %s` is not what the lookup decides" % (ast.unparse(c)[:50], fn.qualname, tol_params[0], tol_params[0]),
                                  slot="rounded-keys:%s" % fn.qualname, positive="robust"))
    obs.append(Ob("G15", clause, fns[0], fns[0].node, True, "%d functions in scope, %d order-pairing / bucket-key constructs flagged" % (len(fns), n), construct="order and bucket inventory", slot="inventory"))
    return obs


def G16_parallel_order(repo, clause, scope=ALL_LIB):
    """Parallel per-item arrays must be handled in ONE order.
    (a) `(self.a, self.c, self.b) = [f(arr) for arr in (self.a, self.b, self.c)]`: the unpack targets name the same attributes as the sources in a different order;
    (b) replicated copies built with np.tile for some attributes and np.repeat for others interleave differently (ABAB vs AABB);
    (c) `X[s1] = Y[s2]` with s1 taken from the values and s2 from the keys of the same dict where at least one of them is a boolean mask: the mask enumerates in
        ascending order, the dict in insertion order - rows are paired by rank, not by key -> value."""
    obs = []
    fns = _scope_fns(repo, scope)
    n = 0
    for fn in fns:
        # (a)
        for a in [x for x in fn.own_nodes() if isinstance(x, ast.Assign) and len(x.targets) == 1 and isinstance(x.targets[0], (ast.Tuple, ast.List))]:
            tg = [ast.unparse(t) for t in a.targets[0].elts if isinstance(t, ast.Attribute)]
            if len(tg) != len(a.targets[0].elts) or len(tg) < 3:
                continue
            v = a.value
            src = None
            if isinstance(v, (ast.ListComp, ast.GeneratorExp)) and len(v.generators) == 1:
                it = expand(fn, v.generators[0].iter)
                if isinstance(it, (ast.Tuple, ast.List)) and all(isinstance(e, ast.Attribute) for e in it.elts):
                    src = [ast.unparse(e) for e in it.elts]
            elif isinstance(v, (ast.Tuple, ast.List)):
                # each element derived from exactly one attribute
                cand = []
                for e in v.elts:
                    ats = {ast.unparse(y) for y in ast.walk(e) if isinstance(y, ast.Attribute) and isinstance(y.value, ast.Name) and ast.unparse(y) in tg}
                    cand.append(next(iter(ats)) if len(ats) == 1 else None)
                if all(c is not None for c in cand):
                    src = cand
            if src is None or sorted(src) != sorted(tg) or len(set(tg)) != len(tg):
                continue
            n += 1
            swapped = [(t_, s_) for t_, s_ in zip(tg, src) if t_ != s_]
            obs.append(Ob("G16", clause, fn, a, not swapped,
                          "parallel update of %d attributes in %s: %s" % (len(tg), fn.qualname, "targets and sources are in the same order" if not swapped else
                                                                          "`%s` receives the value computed from `%s` (the unpack targets are not in the order of the sources): the two attributes are exchanged" % swapped[0]),
                          slot="unpack-order:%s" % fn.qualname, positive="robust" if swapped else False))
        # (b)
        reps = {}
        for a in [x for x in fn.own_nodes() if isinstance(x, ast.Assign) and len(x.targets) == 1 and isinstance(x.targets[0], ast.Attribute) and isinstance(x.value, ast.Call)
                  and call_name(x.value) in ("tile", "repeat") and x.value.args]:
            src_attr = next((y.attr for y in ast.walk(a.value.args[0]) if isinstance(y, ast.Attribute)), None)
            if src_attr is None or src_attr != a.targets[0].attr:
                continue
            if call_name(a.value) == "repeat" and any(k.arg == "axis" for k in a.value.keywords):
                pass
            blk = id(fn.parents.get(a))
            reps.setdefault((blk, ast.unparse(a.targets[0].value)), []).append((call_name(a.value), a))
        for key, lst in reps.items():
            kinds = {k for k, _ in lst}
            if len(lst) >= 2:
                n += 1
                odd = [a_ for k, a_ in lst if k == "repeat"] if kinds == {"tile", "repeat"} else []
                obs.append(Ob("G16", clause, fn, odd[0] if odd else lst[0][1], not odd,
                              "replicated per-atom arrays of %s in %s: %s" % (key[1], fn.qualname, "all built the same way" if not odd else
                                                                             "`%s` uses np.repeat (a a b b) while the other arrays use np.tile (a b a b): the attribute no longer lines up with the atoms of each image" % ast.unparse(odd[0])[:60]),
                              slot="tile-vs-repeat:%s" % fn.qualname, positive="robust" if odd else False))
        # (c)
        def origin(sel):
            """('keys' | 'values', dict text, is_mask) for a selector derived from a dict's keys / values, else None"""
            e = expand(fn, sel)
            txt = ast.unparse(e).replace(" ", "")
            import re as _re
            m = _re.fullmatch(r"(?:list|tuple|np\.array|np\.asarray)?\(?(\w[\w\.]*)\.(keys|values)\(\)\)?", txt)
            if m:
                return m.group(2), m.group(1), False
            if isinstance(sel, ast.Name):
                # a mask: M = np.zeros(.., dtype=bool); M[list(D.keys())] = True
                for d in fn.own_nodes():
                    if isinstance(d, ast.Assign) and len(d.targets) == 1 and isinstance(d.targets[0], ast.Subscript) and isinstance(d.targets[0].value, ast.Name) \
                            and d.targets[0].value.id == sel.id and const_value(d.value) is True:
                        t2 = ast.unparse(expand(fn, d.targets[0].slice)).replace(" ", "")
                        m2 = _re.fullmatch(r"(?:list|tuple|np\.array|np\.asarray)?\(?(\w[\w\.]*)\.(keys|values)\(\)\)?", t2)
                        if m2:
                            return m2.group(2), m2.group(1), True
            return None
        for a in [x for x in fn.own_nodes() if isinstance(x, ast.Assign) and len(x.targets) == 1 and isinstance(x.targets[0], ast.Subscript)]:
            s1 = a.targets[0].slice.elts[0] if isinstance(a.targets[0].slice, ast.Tuple) else a.targets[0].slice
            o1 = origin(s1)
            if o1 is None:
                continue
            for sub in [y for y in ast.walk(a.value) if isinstance(y, ast.Subscript)]:
                s2 = sub.slice.elts[0] if isinstance(sub.slice, ast.Tuple) else sub.slice
                o2 = origin(s2)
                if o2 is None or o2[1] != o1[1] or o2[0] == o1[0]:
                    continue
                n += 1
                bad = o1[2] or o2[2]
                obs.append(Ob("G16", clause, fn, a, not bad,
                              "`%s` in %s pairs entries selected through the %s of `%s` with entries selected through its %s: %s" % (
                                  ast.unparse(a)[:60], fn.qualname, o1[0], o1[1], o2[0],
                                  "both in the dict's own order" if not bad else
                                  "a boolean mask enumerates in ASCENDING index order, not in the order of the map - for a map such as {1: 0, 0: 1} the rows are paired by rank and the two atoms exchange their data"),
                              slot="keys-values-pairing:%s" % fn.qualname, positive="robust" if bad else False))
                break
    obs.append(Ob("G16", clause, fns[0], fns[0].node, True, "%d functions in scope, %d parallel-order constructs inspected" % (len(fns), n), construct="parallel order inventory", slot="inventory"))
    return obs


def G17_orientation_assumptions(repo, clause, scope=ALL_LIB):
    """(a) `det(cell) > 0` used as a validity / periodicity test: a cell whose lattice vectors are listed left-handed has a NEGATIVE determinant and is a perfectly
        good cell - the test must be `!= 0` (or on the absolute value);
    (b) the list of the 27 neighbour offsets (`uc_neighbor_offsets`) has the zero offset in the MIDDLE (index 13): `offsets[1:]` / `offsets[0]` on the direct
        result assume it comes first."""
    obs = []
    fns = _scope_fns(repo, scope)
    n = 0
    for fn in fns:
        for c in [x for x in fn.own_nodes() if isinstance(x, ast.Compare) and len(x.ops) == 1 and isinstance(x.ops[0], (ast.Gt, ast.GtE, ast.Lt, ast.LtE))]:
            sides = [c.left, c.comparators[0]]
            dets = [e for e in sides if isinstance(e, ast.Call) and call_name(e) == "det"]
            # ... against zero or any numeric threshold (`det(cell) < 1e-8` as a "degenerate cell" test calls every left-handed cell degenerate)
            zero = [e for e in sides if isinstance(const_value(e), (int, float)) and not isinstance(const_value(e), bool)]
            if len(dets) == 1 and len(zero) == 1:
                n += 1
                obs.append(Ob("G17", clause, fn, c, False,
                              "`%s` in %s tests the SIGN of the cell determinant: a left-handed list of lattice vectors (a and b exchanged) has a negative determinant and would be treated "
                              "as %s; a volume test is `!= 0` or uses abs()" % (ast.unparse(c), fn.qualname, "not periodic / invalid"), slot="det-sign:%s" % fn.qualname, positive="robust"))
        # (a2) the determinant used as a VOLUME in arithmetic (a distance between faces = volume / face area) without abs(): negative for a left-handed cell
        for d in [x for x in fn.own_nodes() if isinstance(x, ast.Call) and call_name(x) == "det"]:
            par = fn.parents.get(d)
            if isinstance(par, ast.BinOp) and isinstance(par.op, (ast.Div, ast.Mult)) and not any(
                    isinstance(a, ast.Call) and call_name(a) in ("abs", "fabs", "absolute") for a in fn.ancestors(d)):
                st = fn.stmt_of(d)
                tgt = st.targets[0].id if isinstance(st, ast.Assign) and isinstance(st.targets[0], ast.Name) else None
                later_abs = tgt is not None and any(isinstance(y, ast.Call) and call_name(y) in ("abs", "fabs", "absolute") and any(isinstance(z, ast.Name) and z.id == tgt for z in ast.walk(y))
                                                   for y in fn.own_nodes())
                if not later_abs:
                    n += 1
                    obs.append(Ob("G17", clause, fn, par, False,
                                  "`%s` in %s uses the SIGNED determinant as a volume: for a left-handed list of lattice vectors it is negative, and so is every length derived from it "
                                  "(face distances, windows) - abs() is missing" % (ast.unparse(par)[:50], fn.qualname), slot="det-signed-volume:%s" % fn.qualname, positive="robust"))
        # (a3) the same for the triple product a . (b x c) written out: np.dot(a, np.cross(b, c)) - possibly through a table of the three face normals
        def _is_cross(e, depth=3):
            if isinstance(e, ast.Call) and call_name(e) == "cross":
                return True
            if depth <= 0:
                return False
            if isinstance(e, ast.Subscript) and isinstance(const_value(e.slice), int):
                base = e.value
                if isinstance(base, ast.Name):
                    uv = fn.rd.unique_value(base) if fn.stmt_of(base) is not None else None
                    base = uv[1] if uv is not None else base
                if isinstance(base, ast.Call) and call_name(base) in ("array", "asarray", "stack", "vstack") and base.args:
                    base = base.args[0]
                if isinstance(base, (ast.List, ast.Tuple)) and 0 <= const_value(e.slice) < len(base.elts):
                    return _is_cross(base.elts[const_value(e.slice)], depth - 1)
            if isinstance(e, ast.Name) and fn.stmt_of(e) is not None:
                uv = fn.rd.unique_value(e)
                return uv is not None and _is_cross(uv[1], depth - 1)
            return False
        def _cross_call(e, depth=3):
            # the np.cross(...) call an expression stands for (same look-through as _is_cross)
            if isinstance(e, ast.Call) and call_name(e) == "cross":
                return e
            if depth <= 0:
                return None
            if isinstance(e, ast.Subscript) and isinstance(const_value(e.slice), int):
                base = e.value
                if isinstance(base, ast.Name):
                    uv = fn.rd.unique_value(base) if fn.stmt_of(base) is not None else None
                    base = uv[1] if uv is not None else base
                if isinstance(base, ast.Call) and call_name(base) in ("array", "asarray", "stack", "vstack") and base.args:
                    base = base.args[0]
                if isinstance(base, (ast.List, ast.Tuple)) and 0 <= const_value(e.slice) < len(base.elts):
                    return _cross_call(base.elts[const_value(e.slice)], depth - 1)
            if isinstance(e, ast.Name) and fn.stmt_of(e) is not None:
                uv = fn.rd.unique_value(e)
                return _cross_call(uv[1], depth - 1) if uv is not None else None
            return None

        def _row_origin(e):
            # (statement, position) when `e` is one of the targets of `a, b, c = <matrix>`; (text of M, i) for M[i]
            if isinstance(e, ast.Name):
                for st_ in fn.own_nodes():
                    if isinstance(st_, ast.Assign) and len(st_.targets) == 1 and isinstance(st_.targets[0], (ast.Tuple, ast.List)) and len(st_.targets[0].elts) == 3:
                        for i_, t_ in enumerate(st_.targets[0].elts):
                            if isinstance(t_, ast.Name) and t_.id == e.id:
                                return (id(st_), i_)
            if isinstance(e, ast.Subscript) and isinstance(const_value(e.slice), int):
                return (ast.unparse(e.value), const_value(e.slice))
            return None

        def _is_triple_product(d):
            # dot(a, cross(b, c)) with a, b, c the three rows of ONE matrix (a signed volume) - not the distance of a point from a plane, dot(normal, pos)
            for i_ in (0, 1):
                cr = _cross_call(d.args[i_])
                if cr is None or len(cr.args) < 2:
                    continue
                o = [_row_origin(d.args[1 - i_]), _row_origin(cr.args[0]), _row_origin(cr.args[1])]
                if all(x is not None for x in o) and len({x[0] for x in o}) == 1 and sorted(x[1] for x in o) == [0, 1, 2]:
                    return True
            return False
        for d in [x for x in fn.own_nodes() if isinstance(x, ast.Call) and call_name(x) in ("dot", "vdot", "inner") and len(x.args) == 2 and any(_is_cross(a_) for a_ in x.args)]:
            if not _is_triple_product(d):
                continue
            par = fn.parents.get(d)
            if isinstance(par, ast.BinOp) and isinstance(par.op, ast.Div) and par.left is d and not any(
                    isinstance(a, ast.Call) and call_name(a) in ("abs", "fabs", "absolute") for a in fn.ancestors(d)):
                st = fn.stmt_of(d)
                tgt = st.targets[0].id if isinstance(st, ast.Assign) and isinstance(st.targets[0], ast.Name) else None
                later_abs = tgt is not None and any(isinstance(y, ast.Call) and call_name(y) in ("abs", "fabs", "absolute") and any(isinstance(z, ast.Name) and z.id == tgt for z in ast.walk(y))
                                                   for y in fn.own_nodes())
                if not later_abs:
                    n += 1
                    obs.append(Ob("G17", clause, fn, par, False,
                                  "`%s` in %s divides the SIGNED triple product a . (b x c) by an area: for a left-handed list of lattice vectors the resulting widths are negative "
                                  "(ceil(cutoff / width) <= 0: no neighbouring images at all) - abs() is missing" % (ast.unparse(par)[:60], fn.qualname),
                                  slot="det-signed-volume:%s" % fn.qualname, positive="robust"))
        # (b)
        for a in [x for x in fn.own_nodes() if isinstance(x, ast.Assign) and len(x.targets) == 1 and isinstance(x.targets[0], ast.Name)
                  and any(isinstance(y, ast.Call) and call_name(y) == "uc_neighbor_offsets" for y in ast.walk(x.value))]:
            nm = a.targets[0].id
            # the swap that moves the zero offset to the front makes constant indexing legitimate
            swapped = any(isinstance(d, ast.Assign) and isinstance(d.targets[0], ast.Subscript) and isinstance(d.targets[0].value, ast.Name) and d.targets[0].value.id == nm for d in fn.own_nodes())
            if swapped:
                continue
            for sub in [y for y in fn.own_nodes() if isinstance(y, ast.Subscript) and isinstance(y.value, ast.Name) and y.value.id == nm and isinstance(y.ctx, ast.Load)]:
                sl = sub.slice
                positional = (isinstance(sl, ast.Slice) and any(const_value(v) not in (None,) for v in (sl.lower, sl.upper) if v is not None)) or isinstance(const_value(sl), int)
                if positional:
                    n += 1
                    obs.append(Ob("G17", clause, fn, sub, False,
                                  "`%s` in %s picks neighbour offsets by POSITION: uc_neighbor_offsets lists the 27 images with the zero offset in the middle (index 13), not first - "
                                  "`[1:]` drops the (-1,-1,-1) image and keeps the central cell" % (ast.unparse(sub), fn.qualname), slot="offset-position:%s" % fn.qualname, positive="robust"))
    obs.append(Ob("G17", clause, fns[0], fns[0].node, True, "%d functions in scope, %d orientation / ordering assumptions flagged" % (len(fns), n), construct="orientation inventory", slot="inventory"))
    return obs


def G18_loop_variable_leak(repo, clause, scope=ALL_LIB):
    """A `for` target keeps its LAST value after the loop.  Reading it after a loop that has no `break` (so the value is simply the last item, whatever happened in
    the body) is almost never meant: typically a variable of the same name was supposed to be assigned on every path after the loop and one path was forgotten."""
    obs = []
    fns = _scope_fns(repo, scope)
    n = 0
    for fn in fns:
        for loop in [x for x in fn.own_nodes() if isinstance(x, ast.For)]:
            if any(isinstance(y, ast.Break) for y in ast.walk(loop)):
                continue
            tv = {y.id for y in ast.walk(loop.target) if isinstance(y, ast.Name)}
            inside = {id(y) for y in ast.walk(loop)}
            for u in fn.own_nodes():
                if not (isinstance(u, ast.Name) and isinstance(u.ctx, ast.Load) and u.id in tv and id(u) not in inside):
                    continue
                # a comprehension / lambda that binds the same name has its own scope
                own_scope = False
                for a in fn.ancestors(u):
                    if isinstance(a, (ast.ListComp, ast.SetComp, ast.DictComp, ast.GeneratorExp)) and any(
                            isinstance(t, ast.Name) and t.id == u.id for g in a.generators for t in ast.walk(g.target)):
                        own_scope = True
                    if isinstance(a, ast.Lambda) and any(x.arg == u.id for x in a.args.args):
                        own_scope = True
                if own_scope:
                    continue
                st = fn.stmt_of(u)
                if st is None:
                    continue
                try:
                    ds = fn.rd.defs_at(st, u.id)
                except Exception:
                    continue
                if not any(d is loop for d in ds):
                    continue
                # the use must really come after the loop (not in an earlier statement of an enclosing loop's next iteration only)
                if not fn.cfg.reaches(loop, st):
                    continue
                n += 1
                others = [d for d in ds if d is not loop]
                obs.append(Ob("G18", clause, fn, st, False,
                              "`%s` in `%s` (%s) may still hold the LAST item of the loop `for %s in %s` (no break in that loop)%s: the value read there does not depend on what the loop found" % (
                                  u.id, ast.unparse(st)[:50], fn.qualname, ast.unparse(loop.target), ast.unparse(loop.iter)[:30],
                                  " on the paths that skip `%s`" % ast.unparse(others[0])[:40] if others and isinstance(others[0], ast.AST) else ""),
                              slot="loop-variable-leak:%s:%s" % (fn.qualname, u.id), positive="robust"))
    obs.append(Ob("G18", clause, fns[0], fns[0].node, True, "%d functions in scope, %d reads of a loop variable after its loop flagged" % (len(fns), n), construct="loop variable inventory", slot="inventory"))
    return obs


def G19_bucket_key_present(repo, clause, scope=ALL_LIB):
    """A dict of buckets built from the values that OCCUR in one collection (`atoms_by_type_dict(xs)`, `{k: [] for k in set(xs)}`) has no entry for a value that does not
    occur.  Subscripting it with a key that comes from somewhere else (the pattern's elements, a caller's argument) raises KeyError exactly when the answer should be
    "none"; the accepted idioms are `.get(k, [])`, a dominating `k in buckets` test, a try/except KeyError, or a key drawn from the dict / its source collection."""
    from .common import norm_guards
    obs = []
    fns = _scope_fns(repo, scope)
    n = 0
    for fn in fns:
        buckets = {}
        for a in fn.own_nodes():
            if isinstance(a, ast.Assign) and len(a.targets) == 1 and isinstance(a.targets[0], ast.Name):
                v = a.value
                src = None
                if isinstance(v, ast.Call) and call_name(v) == "atoms_by_type_dict" and v.args:
                    src = v.args[0]
                elif isinstance(v, ast.DictComp) and len(v.generators) == 1 and isinstance(v.value, (ast.List, ast.Call)) and isinstance(v.generators[0].iter, ast.Call) \
                        and call_name(v.generators[0].iter) == "set" and v.generators[0].iter.args:
                    src = v.generators[0].iter.args[0]
                if src is not None:
                    buckets.setdefault(a.targets[0].id, []).append((a, src))
        if not buckets:
            continue
        for u in fn.own_nodes():
            if not (isinstance(u, ast.Subscript) and isinstance(u.ctx, ast.Load) and isinstance(u.value, ast.Name) and u.value.id in buckets):
                continue
            if len([x for x in fn.own_nodes() if isinstance(x, (ast.Assign, ast.AugAssign)) and any(isinstance(t, ast.Name) and t.id == u.value.id for t in (x.targets if isinstance(x, ast.Assign) else [x.target]))]) != len(buckets[u.value.id]):
                continue    # the name is also bound to something else
            if isinstance(u.slice, ast.Slice):
                continue
            n += 1
            key = u.slice
            srcs = {ast.unparse(sx) for _, sx in buckets[u.value.id]}
            ok = False
            # key drawn from the dict itself or from its source collection
            knames = {y.id for y in ast.walk(key) if isinstance(y, ast.Name)}
            for a_ in fn.ancestors(u):
                if isinstance(a_, (ast.For, ast.comprehension)):
                    pass
                gens = a_.generators if isinstance(a_, (ast.ListComp, ast.SetComp, ast.DictComp, ast.GeneratorExp)) else []
                loops = [(a_.target, a_.iter)] if isinstance(a_, ast.For) else [(g.target, g.iter) for g in gens]
                for tg, it in loops:
                    its = ast.unparse(it)
                    tn = {y.id for y in ast.walk(tg) if isinstance(y, ast.Name)}
                    if knames and knames <= tn and isinstance(key, ast.Name) and (its in srcs or its in (u.value.id, "%s.keys()" % u.value.id, "sorted(%s)" % u.value.id, "%s.items()" % u.value.id)
                                                  or any(its == "set(%s)" % sx or its == "enumerate(%s)" % sx for sx in srcs)):
                        ok = True
                if isinstance(a_, ast.Try) and any(h.type is None or "KeyError" in ast.unparse(h.type) or "Exception" in ast.unparse(h.type) for h in a_.handlers):
                    ok = True
            if not ok:
                ks = ast.unparse(key)
                for test, pol, kind in norm_guards(fn, u):
                    t = ast.unparse(test)
                    if pol and re.search(r"%s\s+in\s+%s\b" % (re.escape(ks), re.escape(u.value.id)), t):
                        ok = True
                    if not pol and re.search(r"%s\s+not in\s+%s\b" % (re.escape(ks), re.escape(u.value.id)), t):
                        ok = True
                # comprehension filter `if k in buckets`
                for a_ in fn.ancestors(u):
                    if isinstance(a_, (ast.ListComp, ast.SetComp, ast.DictComp, ast.GeneratorExp)):
                        for g in a_.generators:
                            for c in g.ifs:
                                if re.search(r"%s\s+in\s+%s\b" % (re.escape(ks), re.escape(u.value.id)), ast.unparse(c)):
                                    ok = True
                    if isinstance(a_, ast.IfExp) and re.search(r"%s\s+in\s+%s\b" % (re.escape(ks), re.escape(u.value.id)), ast.unparse(a_.test)) and any(y is u for y in ast.walk(a_.body)):
                        ok = True
            if ok:
                obs.append(Ob("G19", clause, fn, u, True, "`%s` in %s: the key is drawn from the table or is tested first" % (ast.unparse(u)[:40], fn.qualname),
                              slot="bucket-key:%s:%s" % (fn.qualname, ast.unparse(u)[:40])))
            else:
                obs.append(Ob("G19", clause, fn, u, False,
                              "`%s` in %s: the table `%s` only has entries for the values that occur in `%s`; the key `%s` comes from elsewhere, so a value that does not occur raises "
                              "KeyError where the answer is an empty list (use .get(key, []) or test `key in %s`)" % (
                                  ast.unparse(u)[:40], fn.qualname, u.value.id, sorted(srcs)[0][:30], ast.unparse(key)[:30], u.value.id),
                              slot="bucket-key:%s:%s" % (fn.qualname, ast.unparse(u)[:40]), positive="robust"))
    obs.append(Ob("G19", clause, fns[0], fns[0].node, True, "%d functions in scope, %d subscripts of occurrence tables" % (len(fns), n), construct="occurrence table inventory", slot="inventory"))
    return obs


def G20_zip_filtered_with_unfiltered(repo, clause, scope=ALL_LIB):
    """`zip(titles, [t for t in tables if keep(t)])`: two literal sequences of the same length are parallel lists; filtering ONE of them before zipping shifts every later pair
    (the third table is written under the second title as soon as the second table is empty).  The filter belongs after the zip (or on both, with one mask)."""
    obs = []
    fns = _scope_fns(repo, scope)
    n = 0

    def literal_len(fn, e):
        v = e
        if isinstance(e, ast.Name):
            try:
                v = expand(fn, e)
            except Exception:
                return None
        if isinstance(v, (ast.Tuple, ast.List)) and not any(isinstance(x, ast.Starred) for x in v.elts):
            return len(v.elts)
        return None

    def filtered_source(e):
        """the sequence a filtering expression draws from, or None when the expression does not filter"""
        if isinstance(e, (ast.ListComp, ast.GeneratorExp)) and len(e.generators) == 1 and e.generators[0].ifs:
            g = e.generators[0]
            if isinstance(e.elt, ast.Name) and isinstance(g.target, ast.Name) and e.elt.id == g.target.id:
                return g.iter
            return None
        if isinstance(e, ast.Call) and call_name(e) == "filter" and len(e.args) == 2:
            return e.args[1]
        if isinstance(e, ast.Call) and call_name(e) in ("list", "tuple") and len(e.args) == 1:
            return filtered_source(e.args[0])
        return None

    for fn in fns:
        for c in [x for x in fn.own_nodes() if isinstance(x, ast.Call) and isinstance(x.func, ast.Name) and x.func.id == "zip" and len(x.args) >= 2]:
            n += 1
            srcs = []
            for a in c.args:
                v = a
                if isinstance(a, ast.Name):
                    try:
                        v = expand(fn, a)
                    except Exception:
                        v = a
                srcs.append((a, filtered_source(v)))
            filt = [(a, f) for a, f in srcs if f is not None]
            plain = [(a, literal_len(fn, a)) for a, f in srcs if f is None]
            for a, f in filt:
                lf = literal_len(fn, f)
                for b, lb in plain:
                    if lf is not None and lb is not None and lf == lb and lf > 1:
                        obs.append(Ob("G20", clause, fn, c, False,
                                      "`%s` in %s pairs the %d entries of `%s` with what is LEFT of the %d parallel entries of `%s` after a filter: once one entry is filtered out every "
                                      "later entry is paired with the wrong partner (filter after zipping)" % (
                                          ast.unparse(c)[:70], fn.qualname, lb, ast.unparse(b)[:30], lf, ast.unparse(f)[:30]),
                                      slot="zip-filtered:%s:%s" % (fn.qualname, ast.unparse(b)[:30]), positive="robust"))
    obs.append(Ob("G20", clause, fns[0], fns[0].node, True, "%d functions in scope, %d zip() calls examined" % (len(fns), n), construct="zip inventory", slot="inventory"))
    return obs


def G21_row_position_dict(repo, clause, scope=ALL_LIB):
    """`{tuple(row): i for i, row in enumerate(rows)}` keeps ONE position per distinct row.  Used to find "the rows that ..." of a table of terms (bonds, angles ...: nothing
    makes their rows distinct) it silently drops all but the last of equal rows - where the scan it replaces (`enumerate` + test, `cdist(...) == 0`) reports every one.
    Accepted: the rows are made distinct first (np.unique(axis=0), dict.fromkeys, set), or the positions are collected per key (`setdefault(key, []).append(i)`)."""
    obs = []
    fns = _scope_fns(repo, scope)
    n = 0

    def rowish(fn, key, var, it):
        """is the dict key the whole row (as a tuple) of an iteration over the rows of an array / list of tuples?"""
        if isinstance(key, ast.Call) and call_name(key) == "tuple" and len(key.args) == 1 and isinstance(key.args[0], ast.Name) and key.args[0].id == var:
            return True
        if isinstance(key, ast.Name) and key.id == var:
            # rows already converted: the iterable is `[tuple(r) for r in X]` / `map(tuple, X)` / X.tolist() rows
            try:
                v = expand(fn, it) if isinstance(it, ast.Name) else it
            except Exception:
                v = it
            if isinstance(v, ast.ListComp) and isinstance(v.elt, ast.Call) and call_name(v.elt) == "tuple":
                return True
            if isinstance(v, ast.Call) and call_name(v) in ("map", "list") and v.args and ast.unparse(v.args[0]) == "tuple":
                return True
            if isinstance(v, ast.Call) and call_name(v) == "list" and v.args and isinstance(v.args[0], ast.Call) and call_name(v.args[0]) == "map" and ast.unparse(v.args[0].args[0]) == "tuple":
                return True
        return False

    def distinct(fn, it):
        try:
            v = expand(fn, it) if isinstance(it, ast.Name) else it
        except Exception:
            v = it
        txt = ast.unparse(v)
        return any(w in txt for w in ("np.unique(", "dict.fromkeys(", "set(", "OrderedSet(", ".keys()"))

    for fn in fns:
        for d in [x for x in fn.own_nodes() if isinstance(x, ast.DictComp) and len(x.generators) == 1]:
            g = d.generators[0]
            if not (isinstance(g.iter, ast.Call) and call_name(g.iter) == "enumerate" and g.iter.args and isinstance(g.target, ast.Tuple) and len(g.target.elts) == 2
                    and all(isinstance(e, ast.Name) for e in g.target.elts)):
                continue
            ivar, rvar = g.target.elts[0].id, g.target.elts[1].id
            if not (isinstance(d.value, ast.Name) and d.value.id == ivar):
                continue
            n += 1
            src = g.iter.args[0]
            if not rowish(fn, d.key, rvar, src) or g.ifs:
                continue
            if distinct(fn, src):
                obs.append(Ob("G21", clause, fn, d, True, "`%s`: the rows are made distinct before they are numbered" % ast.unparse(d)[:60], slot="row-dict:%s" % fn.qualname))
                continue
            obs.append(Ob("G21", clause, fn, d, False,
                          "`%s` in %s keeps ONE position per distinct row of `%s`: equal rows (two identical terms) collapse to the last one, so a search through this table "
                          "misses the others - the scan over all rows it stands for reports every one" % (ast.unparse(d)[:70], fn.qualname, ast.unparse(src)[:30]),
                          slot="row-dict:%s" % fn.qualname, positive="robust"))
    obs.append(Ob("G21", clause, fns[0], fns[0].node, True, "%d functions in scope, %d value -> position dict comprehensions examined" % (len(fns), n), construct="position dict inventory", slot="inventory"))
    return obs


def G23_parallel_accumulators(repo, clause, scope=ALL_LIB):
    """Lists that are filled in one loop and later walked together (`zip(a, b)`, or `zip(<the loop's own iterable>, a)`) are parallel: entry k of each belongs to the
    same iteration.  That holds only if EVERY path through the loop body appends the same number of entries to each of them (and exactly one per iteration when the
    partner is the loop's iterable).  A branch that appends to one list and not to the other shifts every later pair by one."""
    obs = []
    fns = _scope_fns(repo, scope)
    n = 0

    def path_counts(stmts, names, cap=256):
        """set of (counts tuple, still running?) over the acyclic paths through a statement list; None when an append sits inside an inner loop / try"""
        states = {(tuple(0 for _ in names), True)}
        for st in stmts:
            nxt = set()
            for cnt, live in states:
                if not live:
                    nxt.add((cnt, live))
                    continue
                if isinstance(st, ast.If):
                    a = path_counts(st.body, names, cap)
                    b = path_counts(st.orelse, names, cap)
                    if a is None or b is None:
                        return None
                    for c2, l2 in a | b:
                        nxt.add((tuple(x + y for x, y in zip(cnt, c2)), l2))
                elif isinstance(st, (ast.Continue, ast.Break, ast.Return, ast.Raise)):
                    nxt.add((cnt, False))
                elif isinstance(st, (ast.For, ast.While, ast.Try, ast.With)):
                    inner = [y for y in ast.walk(st) if isinstance(y, ast.Call) and isinstance(y.func, ast.Attribute) and y.func.attr in ("append", "extend", "insert", "pop", "remove")
                             and isinstance(y.func.value, ast.Name) and y.func.value.id in names]
                    inner += [y for y in ast.walk(st) if isinstance(y, (ast.Assign, ast.AugAssign)) and any(isinstance(t, ast.Name) and t.id in names for t in (y.targets if isinstance(y, ast.Assign) else [y.target]))]
                    if inner:
                        return None
                    nxt.add((cnt, live))
                else:
                    add = [0] * len(names)
                    for y in ast.walk(st):
                        if isinstance(y, ast.Call) and isinstance(y.func, ast.Attribute) and isinstance(y.func.value, ast.Name) and y.func.value.id in names:
                            if y.func.attr == "append":
                                add[names.index(y.func.value.id)] += 1
                            elif y.func.attr in ("extend", "insert", "pop", "remove", "clear"):
                                return None
                        if isinstance(y, (ast.Assign, ast.AugAssign)) and any(isinstance(t, ast.Name) and t.id in names for t in (y.targets if isinstance(y, ast.Assign) else [y.target])):
                            return None
                    nxt.add((tuple(x + y for x, y in zip(cnt, add)), live))
            states = nxt
            if len(states) > cap:
                return None
        return states

    for fn in fns:
        empties = {}
        for a in fn.own_nodes():
            if isinstance(a, ast.Assign) and len(a.targets) == 1 and isinstance(a.targets[0], ast.Name) and isinstance(a.value, ast.List) and not a.value.elts:
                empties.setdefault(a.targets[0].id, []).append(a)
        for z in [x for x in fn.own_nodes() if isinstance(x, ast.Call) and isinstance(x.func, ast.Name) and x.func.id == "zip" and len(x.args) >= 2]:
            accs = [a.id for a in z.args if isinstance(a, ast.Name) and len(empties.get(a.id, [])) == 1]
            if not accs:
                continue
            zst = fn.stmt_of(z)
            # the loop(s) that fill them: the outermost loop statement that contains every append of the accumulators and does not contain the zip
            for loop in [l for l in fn.own_nodes() if isinstance(l, ast.For)]:
                if any(y is z for y in ast.walk(loop)):
                    continue
                # appends directly in this loop (not in a nested loop)
                filled = [nm for nm in accs if any(isinstance(y, ast.Call) and isinstance(y.func, ast.Attribute) and y.func.attr == "append" and isinstance(y.func.value, ast.Name)
                                                   and y.func.value.id == nm and next((a_ for a_ in fn.ancestors(y) if isinstance(a_, (ast.For, ast.While))), None) is loop
                                                   for y in ast.walk(loop))]
                if not filled:
                    continue
                # all appends of the filled accumulators must be in this loop, and the accumulators initialised before it
                elsewhere = [y for y in fn.own_nodes() if isinstance(y, ast.Call) and isinstance(y.func, ast.Attribute) and y.func.attr in ("append", "extend", "insert", "pop", "remove")
                             and isinstance(y.func.value, ast.Name) and y.func.value.id in filled and not any(y is w for w in ast.walk(loop))]
                if elsewhere or any(any(empties[nm][0] is w for w in ast.walk(loop)) for nm in filled):
                    continue
                # is the loop's own iterable a partner in the zip?
                it_txt = ast.unparse(loop.iter)
                iter_partner = any(ast.unparse(a) == it_txt for a in z.args) and not isinstance(loop.iter, ast.Name) or any(
                    isinstance(a, ast.Name) and isinstance(loop.iter, ast.Name) and a.id == loop.iter.id for a in z.args)
                if len(filled) < 2 and not iter_partner:
                    continue
                n += 1
                pc = path_counts(loop.body, filled)
                if pc is None:
                    continue
                bad = None
                for cnt, live in sorted(pc):
                    if len(set(cnt)) > 1:
                        bad = (cnt, "the lists get different numbers of entries")
                        break
                    if iter_partner and live and cnt[0] != 1:
                        bad = (cnt, "an iteration of `for ... in %s` adds %d entries where its partner `%s` advances by one" % (it_txt[:30], cnt[0], it_txt[:30]))
                        break
                ok = bad is None
                obs.append(Ob("G23", clause, fn, z, ok,
                              "`%s` in %s walks %s%s together; %s" % (
                                  ast.unparse(z)[:60], fn.qualname, ", ".join(filled), (" and the iterable `%s` of the loop that fills them" % it_txt[:30]) if iter_partner else "",
                                  "every path through the filling loop adds the same number of entries to each" if ok else
                                  "on one path through the loop body the appends are %s - %s: from that iteration on every pair is shifted" % (dict(zip(filled, bad[0])), bad[1])),
                              slot="parallel-accumulators:%s:%s" % (fn.qualname, "+".join(filled)), positive="robust" if not ok else False))
    obs.append(Ob("G23", clause, fns[0], fns[0].node, True, "%d functions in scope, %d zips of loop-filled lists examined" % (len(fns), n), construct="parallel list inventory", slot="inventory"))
    return obs


def G22_positional_order(repo, clause, scope=ALL_LIB):
    """The order of the positional parameters of a public function is observable: a caller that passes the optional arguments by position (the documented order)
    binds them by position.  Moving a parameter to another slot - regrouping the signature, putting a tolerance before the hints - silently re-binds those arguments
    (the first hint becomes the tolerance).  Reference: the confirmed signatures in reference_shapes.json (`__signatures__`).  Appending new parameters at the end,
    or after `*`, leaves every existing call unchanged and is accepted."""
    from verif_sa.core import load_reference_shapes
    obs = []
    fns = _scope_fns(repo, scope)
    sigs = load_reference_shapes().get("__signatures__")
    if not isinstance(sigs, dict) and clause == "ref":
        sigs = {}       # tools/gen_reference.py is writing them right now
    if not isinstance(sigs, dict):
        raise AnalysisError("G22: reference signatures missing (run tools/gen_reference.py on the confirmed tree)")
    n = 0
    for fn in fns:
        ref = sigs.get(fn.qualname)
        if ref is None:
            continue
        n += 1
        cur = [a.arg for a in fn.node.args.posonlyargs + fn.node.args.args]
        moved = [(i, p) for i, p in enumerate(ref) if p in cur and cur.index(p) != i]
        gone = [p for p in ref if p not in cur and p not in [a.arg for a in fn.node.args.kwonlyargs]]
        kwonly = [p for p in ref if p in [a.arg for a in fn.node.args.kwonlyargs]]
        ok = not moved and not kwonly
        if ok and not gone:
            obs.append(Ob("G22", clause, fn, fn.node, True, "%s keeps its positional parameters in the confirmed order" % fn.qualname, construct="def %s(%s)" % (fn.name, ", ".join(cur)),
                          slot="positional-order:%s" % fn.qualname))
        elif not ok:
            i, p = (moved[0] if moved else (ref.index(kwonly[0]), kwonly[0]))
            obs.append(Ob("G22", clause, fn, fn.node, False,
                          "%s: parameter `%s` was positional argument #%d and is now %s: a call that passes it by position (documented order %s) now binds `%s` instead" % (
                              fn.qualname, p, i + 1, ("#%d" % (cur.index(p) + 1)) if p in cur else "keyword-only", ", ".join(ref), cur[i] if i < len(cur) else "nothing (TypeError)"),
                          construct="def %s(%s)" % (fn.name, ", ".join(cur)), slot="positional-order:%s" % fn.qualname, positive="robust"))
        else:
            obs.append(Ob("G22", clause, fn, fn.node, False, "%s no longer has the parameter(s) %s" % (fn.qualname, gone), construct="def %s(%s)" % (fn.name, ", ".join(cur)),
                          slot="positional-order:%s" % fn.qualname, undecided=True))
    obs.append(Ob("G22", clause, fns[0], fns[0].node, True, "%d public functions in scope compared with their confirmed signatures" % n, construct="signature inventory", slot="inventory"))
    return obs


def G24_second_order_induction(repo, clause, scope=ALL_LIB):
    """`for i in range(n): ...; x += i * step; ... use(x)` - x is not reset inside the loop, so after iteration i it holds (0 + 1 + ... + i) * step: a SECOND-order induction
    variable (0, 1, 3, 6 ...).  Read inside the same loop as "the value for this iteration" (an offset, an index, an argument) this is the hoisting slip
    `shift += i * v` for `shift_i = base + i * v`; the strength-reduced form adds the constant step (`x += step`).  A weighted sum that is only read after the loop is fine."""
    obs = []
    fns = _scope_fns(repo, scope)
    n = 0
    for fn in fns:
        for loop in [l for l in fn.own_nodes() if isinstance(l, ast.For) and isinstance(l.target, ast.Name) and isinstance(l.iter, ast.Call) and call_name(l.iter) == "range"]:
            iv = loop.target.id
            for st in [x for x in ast.walk(loop) if isinstance(x, ast.AugAssign) and isinstance(x.op, (ast.Add, ast.Sub)) and isinstance(x.target, ast.Name)]:
                # the update belongs to THIS loop's iteration (not to an inner loop, where it would be reset or accumulate per inner index)
                owner = next((a_ for a_ in fn.ancestors(st) if isinstance(a_, (ast.For, ast.While))), None)
                if owner is not loop:
                    continue
                inc = st.value
                mult = [b for b in ast.walk(inc) if isinstance(b, ast.BinOp) and isinstance(b.op, ast.Mult) and (
                    (isinstance(b.left, ast.Name) and b.left.id == iv) or (isinstance(b.right, ast.Name) and b.right.id == iv))]
                if not mult:
                    continue
                n += 1
                x = st.target.id
                inside = list(ast.walk(loop))
                reset = [a for a in inside if isinstance(a, ast.Assign) and any(isinstance(t, ast.Name) and t.id == x for t in a.targets)
                         and next((a_ for a_ in fn.ancestors(a) if isinstance(a_, (ast.For, ast.While))), None) is loop]
                if reset:
                    continue
                reads = [u for u in inside if isinstance(u, ast.Name) and u.id == x and isinstance(u.ctx, ast.Load) and fn.stmt_of(u) is not st]
                if not reads:
                    obs.append(Ob("G24", clause, fn, st, True, "`%s` accumulates a weighted sum that is read after the loop only" % ast.unparse(st)[:50], slot="second-order:%s:%s" % (fn.qualname, x)))
                    continue
                obs.append(Ob("G24", clause, fn, st, False,
                              "`%s` inside `for %s in %s` of %s is never reset in that loop, so `%s` holds (0 + 1 + ... + %s) times the step - 0, 1, 3, 6 ... - and it is READ in the same loop "
                              "(`%s`) as the value of the current iteration, where base + %s * step (0, 1, 2, 3 ...) is meant" % (
                                  ast.unparse(st)[:50], iv, ast.unparse(loop.iter)[:30], fn.qualname, x, iv, ast.unparse(fn.stmt_of(reads[0]))[:50], iv),
                              slot="second-order:%s:%s" % (fn.qualname, x), positive="robust"))
    obs.append(Ob("G24", clause, fns[0], fns[0].node, True, "%d functions in scope, %d index-weighted in-loop accumulations examined" % (len(fns), n), construct="induction variable inventory", slot="inventory"))
    return obs


def G25_vectorize_output_type(repo, clause, scope=ALL_LIB):
    """np.vectorize(f) without `otypes` takes the dtype of the whole result array from the FIRST value f returns.  If f can return an int for some arguments and a
    float for others (sums of entries of a literal table that mixes `2` and `1.96`), a row that happens to start with an int truncates every later value of that row.
    Decided from the source: the literal types of the table entries and constants f's return expressions are built from."""
    obs = []
    fns = _scope_fns(repo, scope)
    n = 0

    def kinds(f, e, depth=3):
        """set of numeric kinds {'int', 'float'} the expression may evaluate to; {'?'} when unknown"""
        if isinstance(e, ast.Constant):
            if isinstance(e.value, bool):
                return {"int"}
            if isinstance(e.value, int):
                return {"int"}
            if isinstance(e.value, float):
                return {"float"}
            return {"?"}
        if isinstance(e, ast.BinOp) and isinstance(e.op, (ast.Add, ast.Sub, ast.Mult)):
            a, b = kinds(f, e.left, depth), kinds(f, e.right, depth)
            if "?" in a or "?" in b:
                return {"?"}
            out = set()
            for x in a:
                for y in b:
                    out.add("float" if "float" in (x, y) else "int")
            return out
        if isinstance(e, ast.BinOp) and isinstance(e.op, ast.Div):
            return {"float"}
        if isinstance(e, ast.UnaryOp):
            return kinds(f, e.operand, depth)
        if isinstance(e, ast.IfExp):
            return kinds(f, e.body, depth) | kinds(f, e.orelse, depth)
        if isinstance(e, ast.Subscript) and isinstance(e.value, ast.Name):
            try:
                m_, v_ = repo.table(e.value.id)
                val = ast.literal_eval(v_)
            except Exception:
                return {"?"}
            if isinstance(val, dict) and val and all(isinstance(x, (int, float)) and not isinstance(x, bool) for x in val.values()):
                return {"int" if isinstance(x, int) else "float" for x in val.values()}
            return {"?"}
        if isinstance(e, ast.Name) and depth > 0:
            try:
                v = expand(f, e)
            except Exception:
                return {"?"}
            if v is not e and not (isinstance(v, ast.Name) and v.id == e.id):
                return kinds(f, v, depth - 1)
        if isinstance(e, ast.Call) and call_name(e) == "float":
            return {"float"}
        if isinstance(e, ast.Call) and call_name(e) in ("int", "len", "round") and len(e.args) == 1:
            return {"int"}
        return {"?"}

    for fn in fns:
        for c in [x for x in fn.own_nodes() if isinstance(x, ast.Call) and call_name(x) == "vectorize" and x.args]:
            n += 1
            if any(k.arg == "otypes" for k in c.keywords):
                obs.append(Ob("G25", clause, fn, c, True, "`%s` states its output type" % ast.unparse(c)[:50], slot="vectorize:%s:%s" % (fn.qualname, ast.unparse(c.args[0])[:30])))
                continue
            target = c.args[0]
            callee = repo.maybe_fn(target.id) if isinstance(target, ast.Name) else None
            if callee is None:
                continue
            ks = set()
            for r in [x for x in callee.own_nodes() if isinstance(x, ast.Return) and x.value is not None]:
                ks |= kinds(callee, r.value)
            mixed = {"int", "float"} <= ks
            if mixed:
                tables = sorted({x.value.id for r in callee.own_nodes() if isinstance(r, ast.Return) and r.value is not None for x in ast.walk(r.value)
                                 if isinstance(x, ast.Subscript) and isinstance(x.value, ast.Name)})
                obs.append(Ob("G25", clause, fn, c, False,
                              "`%s` in %s has no otypes: the result array takes the type of the FIRST value, and %s can return an int for some arguments and a float for others "
                              "(its returns are built from %s, which mixes integer and float literals): a row that starts with an int result truncates every later value of the row" % (
                                  ast.unparse(c)[:50], fn.qualname, callee.qualname, ", ".join(tables) or "mixed constants"),
                              slot="vectorize:%s:%s" % (fn.qualname, ast.unparse(c.args[0])[:30]), positive="robust"))
            elif "?" not in ks and ks:
                obs.append(Ob("G25", clause, fn, c, True, "`%s`: %s always returns %s" % (ast.unparse(c)[:50], callee.qualname, sorted(ks)), slot="vectorize:%s:%s" % (fn.qualname, ast.unparse(c.args[0])[:30])))
    obs.append(Ob("G25", clause, fns[0], fns[0].node, True, "%d functions in scope, %d np.vectorize calls examined" % (len(fns), n), construct="vectorize inventory", slot="inventory"))
    return obs


def G26_any_of_indices(repo, clause, scope=ALL_LIB):
    """`np.any(rows)` / `any(rows)` / `rows.any()` asks whether some ELEMENT is non-zero.  For a collection of row indices (the thing handed to np.delete / np.take / used
    as a fancy index) that is not "are there any rows": the list [0] - only the first row - is falsy.  The emptiness test is `len(rows) > 0` (or `.size`)."""
    obs = []
    fns = _scope_fns(repo, scope)
    n = 0
    for fn in fns:
        # names used as index collections
        idx_names = {}
        for c in fn.own_nodes():
            if isinstance(c, ast.Call) and call_name(c) in ("delete", "take") and len(c.args) >= 2 and isinstance(c.args[1], ast.Name) \
                    and (isinstance(c.func, ast.Attribute) and isinstance(c.func.value, ast.Name) and c.func.value.id in ("np", "numpy")):
                idx_names.setdefault(c.args[1].id, c)
        if not idx_names:
            continue
        for t in fn.own_nodes():
            nm = None
            if isinstance(t, ast.Call) and call_name(t) in ("any",) and t.args and isinstance(t.args[0], ast.Name) and not (isinstance(t.func, ast.Attribute) and not (
                    isinstance(t.func.value, ast.Name) and t.func.value.id in ("np", "numpy"))):
                nm = t.args[0].id
            elif isinstance(t, ast.Call) and isinstance(t.func, ast.Attribute) and t.func.attr == "any" and isinstance(t.func.value, ast.Name) and not t.args:
                nm = t.func.value.id
            if nm is None or nm not in idx_names:
                continue
            # a boolean mask is also a legal `obj` of np.delete: only names that are index collections (results of nonzero / where / flatnonzero / list of ints / a helper's return)
            try:
                v = expand(fn, ast.Name(id=nm, ctx=ast.Load()))
            except Exception:
                v = None
            src = None
            for d in fn.own_nodes():
                if isinstance(d, ast.Assign) and any(isinstance(tg, ast.Name) and tg.id == nm for tg in d.targets):
                    src = d.value
            if src is not None and isinstance(src, ast.Compare):
                continue     # a mask
            if src is not None and any(isinstance(y, ast.Call) and call_name(y) in ("isin", "in1d", "zeros", "ones", "logical_and", "logical_or") for y in ast.walk(src)) \
                    and not any(isinstance(y, ast.Call) and call_name(y) in ("nonzero", "flatnonzero", "where", "argwhere") for y in ast.walk(src)):
                continue     # a mask
            n += 1
            obs.append(Ob("G26", clause, fn, t, False,
                          "`%s` in %s tests whether some element of `%s` is non-zero, but `%s` holds ROW INDICES (it is what `%s` removes): the single index 0 - the first row - is "
                          "falsy, so the case 'only row 0 is affected' is treated as 'nothing to do'" % (ast.unparse(t)[:40], fn.qualname, nm, nm, ast.unparse(idx_names[nm])[:50]),
                          slot="any-of-indices:%s:%s" % (fn.qualname, nm), positive="robust"))
    # (b) np.any(data) / data.any() as the test of an `if`: asks whether some VALUE is non-zero.  For coordinates, charges, field tables - where 0 / 0.0 / "" are
    #     ordinary values - that is not "is there any data" (len(x) > 0): an atom at the origin, an all-zero column count as absent
    for fn in fns:
        for t in fn.all_nodes():
            if not isinstance(t, (ast.If, ast.IfExp, ast.While)):
                continue
            # every operand of a conjunction / disjunction in the test is a presence test of its own (`not np.any(arr) or len(idx) == 0`)
            stack_, leaves_ = [t.test], []
            while stack_:
                x_ = stack_.pop()
                while isinstance(x_, ast.UnaryOp) and isinstance(x_.op, ast.Not):
                    x_ = x_.operand
                if isinstance(x_, ast.BoolOp):
                    stack_.extend(x_.values)
                else:
                    leaves_.append(x_)
            for tst in leaves_:
                arg = None
                if isinstance(tst, ast.Call) and call_name(tst) in ("any", "all") and len(tst.args) == 1 and not tst.keywords and (
                        isinstance(tst.func, ast.Name) or (isinstance(tst.func, ast.Attribute) and isinstance(tst.func.value, ast.Name) and tst.func.value.id in ("np", "numpy"))):
                    arg = tst.args[0]
                elif isinstance(tst, ast.Call) and isinstance(tst.func, ast.Attribute) and tst.func.attr in ("any", "all") and not tst.args and not tst.keywords:
                    arg = tst.func.value
                if arg is None:
                    continue
                holder = fn
                for f2 in repo.all_fns():
                    if f2.outer is fn and any(y is tst for y in ast.walk(f2.node)):
                        holder = f2
                kind = boolness(holder, arg)
                if kind == "unknown" and isinstance(arg, ast.Name) and arg.id in holder.params:
                    used_as_data = any((isinstance(y, ast.Call) and call_name(y) == "len" and y.args and isinstance(y.args[0], ast.Name) and y.args[0].id == arg.id)
                                       or (isinstance(y, ast.Subscript) and isinstance(y.value, ast.Name) and y.value.id == arg.id and isinstance(y.slice, ast.Tuple))
                                       or (isinstance(y, ast.Compare) and len(y.ops) == 1 and isinstance(y.ops[0], (ast.Lt, ast.LtE, ast.Gt, ast.GtE))
                                           and isinstance(y.left, ast.Name) and y.left.id == arg.id)      # ordered comparison of the elements: numbers, not flags
                                       or (isinstance(y, ast.Call) and call_name(y) == "delete" and y.args and isinstance(y.args[0], ast.Name) and y.args[0].id == arg.id)
                                       for y in ast.walk(holder.node))
                    used_as_mask = any(isinstance(y, ast.Subscript) and isinstance(y.slice, ast.Name) and y.slice.id == arg.id for y in ast.walk(holder.node))
                    if not used_as_data and not used_as_mask:
                        # what do the callers hand in?  (methods: the receiver is not counted)
                        pos_ = holder.params.index(arg.id) - (1 if holder.cls is not None and holder.params and holder.params[0] in ("self", "cls") else 0)
                        kinds_ = set()
                        for g_ in repo.all_fns():
                            for c_ in g_.own_nodes():
                                if isinstance(c_, ast.Call) and call_name(c_) == holder.name and 0 <= pos_ < len(c_.args):
                                    kinds_.add(boolness(g_, c_.args[pos_]))
                        if kinds_ == {"value"}:
                            used_as_data = True
                    if used_as_data and not used_as_mask:
                        kind = "value"
                if kind != "value":
                    continue
                n += 1
                obs.append(Ob("G26", clause, holder, tst, False,
                              "`%s` in %s is used as a presence test, but it asks whether some VALUE of `%s` is non-zero: zeros are ordinary data there (an atom at the origin, a zero "
                              "charge, a column of 0 entries), so existing data is treated as absent - the emptiness test is len(...) > 0" % (
                                  ast.unparse(tst)[:40], holder.qualname, ast.unparse(arg)[:30]),
                              slot="any-of-data:%s:%s" % (holder.qualname, ast.unparse(arg)[:30]), positive="robust"))
    obs.append(Ob("G26", clause, fns[0], fns[0].node, True, "%d functions in scope, %d truth tests of index collections / data arrays flagged" % (len(fns), n), construct="index truthiness inventory", slot="inventory"))
    return obs


def G27_unique_count_vs_size(repo, clause, scope=ALL_LIB):
    """np.setdiff1d / intersect1d / union1d / unique return the DISTINCT values.  Comparing how many come back with the size of the input (`len(np.setdiff1d(row, gone)) <
    n_columns` for "something was taken out of the row") silently assumes the input has no repeats: a row that names one atom twice (the angle 1-0-1 across a periodic
    boundary, a self bond) already has fewer distinct values than columns and is treated as touched by ANY deletion."""
    obs = []
    fns = _scope_fns(repo, scope)
    n = 0
    for fn in fns:
        for cmp_ in [x for x in fn.all_nodes() if isinstance(x, ast.Compare) and len(x.ops) == 1]:
            sides = [cmp_.left, cmp_.comparators[0]]
            for k, sd in enumerate(sides):
                inner = None
                if isinstance(sd, ast.Call) and call_name(sd) == "len" and sd.args and isinstance(sd.args[0], ast.Call) and call_name(sd.args[0]) in ("setdiff1d", "intersect1d", "union1d", "unique"):
                    inner = sd.args[0]
                elif isinstance(sd, ast.Attribute) and sd.attr == "size" and isinstance(sd.value, ast.Call) and call_name(sd.value) in ("setdiff1d", "intersect1d", "union1d", "unique"):
                    inner = sd.value
                if inner is None or not inner.args:
                    continue
                if any(kw.arg == "assume_unique" for kw in inner.keywords):
                    continue
                other = sides[1 - k]
                try:
                    ov = expand(fn, other)
                except Exception:
                    ov = other
                sized = any((isinstance(y, ast.Attribute) and y.attr in ("shape", "size")) or (isinstance(y, ast.Call) and call_name(y) == "len") for y in ast.walk(ov))
                if not sized:
                    continue
                n += 1
                obs.append(Ob("G27", clause, fn, cmp_, False,
                              "`%s` in %s compares the number of DISTINCT values returned by %s with a size (`%s`): a row that repeats a value (an angle 1-0-1 through a periodic image, "
                              "a self bond) has fewer distinct values than entries to begin with, so it is classified as if something had been removed from it" % (
                                  ast.unparse(cmp_)[:70], fn.qualname, call_name(inner), ast.unparse(ov)[:30]),
                              slot="unique-count-vs-size:%s" % fn.qualname, positive="robust"))
    obs.append(Ob("G27", clause, fns[0], fns[0].node, True, "%d functions in scope, %d comparisons of a distinct-value count with a size flagged" % (len(fns), n), construct="distinct count inventory", slot="inventory"))
    return obs


def G28_alias_sibling_update(repo, clause, scope=ALL_LIB):
    """`obj.attr = x` stores the ARRAY x in the object (no copy).  Afterwards `x %= box` (in place) changes what the object holds, `x = f(x)` (re-binding) does not.
    Two sibling branches that update x after the store, one in place and one by re-binding, cannot both be right: on the re-binding branch the new value never
    reaches the object unless it is stored again."""
    obs = []
    fns = _scope_fns(repo, scope)
    n = 0
    for fn in fns:
        for st in [x for x in fn.own_nodes() if isinstance(x, ast.Assign) and len(x.targets) == 1 and isinstance(x.targets[0], ast.Attribute)
                   and isinstance(x.targets[0].value, ast.Name) and isinstance(x.value, ast.Name)]:
            x = st.value.id
            obj, attr = st.targets[0].value.id, st.targets[0].attr
            # x is an array for certain: bound to the result of a numpy-style computation
            try:
                ds = [d for d in fn.rd.defs_at(st, x) if isinstance(d, ast.AST)]
            except Exception:
                continue
            if not ds or not all(isinstance(d, ast.Assign) and any(isinstance(y, ast.Call) for y in ast.walk(d.value)) for d in ds):
                continue
            for iff in [y for y in fn.own_nodes() if isinstance(y, ast.If) and y.orelse and fn.cfg.reaches(st, y)]:
                def kinds(block):
                    inpl = [z for s_ in block for z in ast.walk(s_) if isinstance(z, ast.AugAssign) and isinstance(z.target, ast.Name) and z.target.id == x]
                    reb = [z for s_ in block for z in ast.walk(s_) if isinstance(z, ast.Assign) and any(isinstance(t, ast.Name) and t.id == x for t in z.targets)]
                    return inpl, reb
                bi, br = kinds(iff.body)
                oi, or_ = kinds(iff.orelse)
                pairs = []
                if bi and not br and or_ and not oi:
                    pairs.append((bi[0], or_[0]))
                if oi and not or_ and br and not bi:
                    pairs.append((oi[0], br[0]))
                for inplace, rebind in pairs:
                    # is the object's attribute stored again after the re-binding (on the way to the exit / next iteration)?
                    restored = [z for z in fn.own_nodes() if isinstance(z, ast.Assign) and z is not st and any(
                        isinstance(t, ast.Attribute) and isinstance(t.value, ast.Name) and t.value.id == obj and t.attr == attr for t in z.targets) and fn.cfg.reaches(rebind, z)
                        and not fn.cfg.reaches(z, st)]
                    n += 1
                    if restored:
                        continue
                    obs.append(Ob("G28", clause, fn, rebind, False,
                                  "`%s = %s` stored the array in the object; the sibling branch `%s` then changes it in place (the object sees it), but `%s` RE-BINDS the local: "
                                  "the new value never reaches %s.%s on this branch (it is not stored again)" % (
                                      ast.unparse(st.targets[0]), x, ast.unparse(inplace)[:40], ast.unparse(rebind)[:50], obj, attr),
                                  slot="alias-sibling:%s:%s" % (fn.qualname, x), positive="robust"))
    obs.append(Ob("G28", clause, fns[0], fns[0].node, True, "%d functions in scope, %d in-place / re-binding sibling pairs after an attribute store examined" % (len(fns), n),
                  construct="alias update inventory", slot="inventory"))
    return obs


def G29_parallel_filter_in_loop(repo, clause, scope=ALL_LIB):
    """`A = [a for j, a in enumerate(A) if P(B[j])]` (or `for a, b in zip(A, B)`) filters A through the list B that runs PARALLEL to it.  Inside a loop that does this more
    than once, B has to be filtered in the same iteration: if only A shrinks, from the second round on `B[j]` no longer belongs to `A[j]` - the wrong items are removed
    and others survive."""
    obs = []
    fns = _scope_fns(repo, scope)
    n = 0

    def key(e):
        return ast.unparse(e)

    for fn in fns:
        for lp in [x for x in fn.own_nodes() if isinstance(x, (ast.For, ast.While))]:
            inside = [x for x in ast.walk(lp) if x is not lp]
            body_nodes = [x for st in lp.body for x in ast.walk(st)]
            for st in [x for x in body_nodes if isinstance(x, ast.Assign) and len(x.targets) == 1 and isinstance(x.targets[0], (ast.Name, ast.Attribute))]:
                comp = st.value
                if isinstance(comp, ast.Call) and call_name(comp) in ("list", "tuple", "array") and comp.args:
                    comp = comp.args[0]
                if not isinstance(comp, (ast.ListComp, ast.GeneratorExp)) or len(comp.generators) != 1:
                    continue
                g = comp.generators[0]
                a_key = key(st.targets[0])
                partner = None
                if isinstance(g.iter, ast.Call) and call_name(g.iter) == "enumerate" and g.iter.args and key(g.iter.args[0]) == a_key \
                        and isinstance(g.target, ast.Tuple) and len(g.target.elts) == 2 and isinstance(g.target.elts[0], ast.Name):
                    j = g.target.elts[0].id
                    for c in g.ifs:
                        for y in ast.walk(c):
                            if isinstance(y, ast.Subscript) and isinstance(y.slice, ast.Name) and y.slice.id == j and isinstance(y.value, (ast.Name, ast.Attribute)) and key(y.value) != a_key:
                                partner = y.value
                elif isinstance(g.iter, ast.Call) and call_name(g.iter) == "zip" and len(g.iter.args) == 2 and isinstance(g.target, ast.Tuple) and len(g.target.elts) == 2 and g.ifs:
                    ks = [key(a) for a in g.iter.args]
                    if a_key in ks and ks[0] != ks[1]:
                        other = g.iter.args[1 - ks.index(a_key)]
                        ov = g.target.elts[1 - ks.index(a_key)]
                        if isinstance(other, (ast.Name, ast.Attribute)) and isinstance(ov, ast.Name) and any(isinstance(y, ast.Name) and y.id == ov.id for c in g.ifs for y in ast.walk(c)):
                            partner = other
                if partner is None:
                    continue
                # is the element kept as it is (a filter), not transformed?
                n += 1
                pk = key(partner)
                updated = False
                for x in body_nodes:
                    if isinstance(x, ast.Assign) and any(key(t) == pk for t in x.targets):
                        updated = True
                    elif isinstance(x, ast.AugAssign) and key(x.target) == pk:
                        updated = True
                    elif isinstance(x, ast.Delete) and any(isinstance(t, ast.Subscript) and key(t.value) == pk for t in x.targets):
                        updated = True
                    elif isinstance(x, ast.Call) and isinstance(x.func, ast.Attribute) and x.func.attr in ("pop", "remove", "clear", "__delitem__") and key(x.func.value) == pk:
                        updated = True
                # a loop that provably runs its body once (it ends in an unconditional break / return) does not matter
                last = lp.body[-1]
                once = isinstance(last, (ast.Break, ast.Return, ast.Raise))
                obs.append(Ob("G29", clause, fn, st, updated or once,
                              "`%s` filters %s through the parallel list %s inside a loop; %s" % (
                                  ast.unparse(st)[:80], a_key, pk,
                                  "the partner is filtered in the same loop" if updated else ("the loop body runs once" if once else
                                  "%s is NOT updated anywhere in the loop body: after the first removal the two lists have different lengths and `%s[j]` no longer belongs to `%s[j]` - "
                                  "from the second removal on the wrong items are dropped" % (pk, pk, a_key))),
                              slot="parallel-filter:%s:%s" % (fn.qualname, a_key), positive="robust"))
    obs.append(Ob("G29", clause, fns[0], fns[0].node, True, "%d functions in scope, %d filters through a parallel list inside loops inspected" % (len(fns), n), construct="parallel filter inventory", slot="inventory"))
    return obs


def G30_nonzero_rows_with_multiplicity(repo, clause, scope=ALL_LIB):
    """`rows, _ = np.nonzero(D < cutoff)` on a 2-D comparison lists one entry per (row, column) HIT.  Dropping the column index and turning the row indices into items
    ("the rows that have a hit") keeps the multiplicity: a row with two hits - one atom within the cutoff of two periodic images of another - is reported twice.
    Needed: `np.any(mask, axis=1)` / `np.unique(rows)` / a set."""
    obs = []
    fns = _scope_fns(repo, scope)
    n = 0
    for fn in fns:
        for st in [x for x in fn.own_nodes() if isinstance(x, ast.Assign) and len(x.targets) == 1 and isinstance(x.targets[0], ast.Tuple) and len(x.targets[0].elts) == 2
                   and isinstance(x.value, ast.Call) and call_name(x.value) in ("nonzero", "where") and len(x.value.args) == 1 and all(isinstance(t, ast.Name) for t in x.targets[0].elts)]:
            try:
                m = expand(fn, x_arg) if (x_arg := st.value.args[0]) is not None else None
            except Exception:
                m = st.value.args[0]
            if not (isinstance(m, ast.Compare) and len(m.ops) == 1 and isinstance(m.ops[0], (ast.Lt, ast.LtE, ast.Gt, ast.GtE))):
                continue
            names = [t.id for t in st.targets[0].elts]
            reads = {nm: [y for y in fn.own_nodes() if isinstance(y, ast.Name) and y.id == nm and isinstance(y.ctx, ast.Load)] for nm in names}
            used = [nm for nm in names if reads[nm]]
            if len(used) != 1:
                continue
            u = used[0]
            n += 1
            dedup = False
            for y in reads[u]:
                par = fn.parents.get(y)
                if isinstance(par, ast.Call) and call_name(par) in ("unique", "set", "frozenset", "fromkeys", "bincount", "isin", "in1d"):
                    dedup = True
            obs.append(Ob("G30", clause, fn, st, dedup,
                          "`%s` in %s keeps only the %s indices of the hits of the 2-D test `%s`%s" % (
                              ast.unparse(st)[:70], fn.qualname, "row" if u == names[0] else "column", ast.unparse(m)[:50],
                              " and removes repeats" if dedup else ": one entry per HIT, so a row with two hits (the same partner reached through two periodic images, two entries within the tolerance) "
                              "appears twice in what is built from it - `np.any(mask, axis=...)` or `np.unique` is meant"),
                          slot="nonzero-multiplicity:%s" % fn.qualname, positive="robust"))
    obs.append(Ob("G30", clause, fns[0], fns[0].node, True, "%d functions in scope, %d index lists taken from one axis of a 2-D hit matrix inspected" % (len(fns), n), construct="nonzero inventory", slot="inventory"))
    return obs


def G31_reorder_one_of_parallel_lists(repo, clause, scope=ALL_LIB):
    """Two lists that receive one entry each in the same block of the same loop are PARALLEL (entry k of one belongs to entry k of the other).  Re-ordering one of them
    afterwards - `a.sort(...)`, `a.reverse()`, `random.shuffle(a)`, `a = sorted(a)` - without applying the same permutation to the partner silently pairs every entry
    with another entry's partner (the k-th index tuple with the rotation of a different match)."""
    obs = []
    fns = _scope_fns(repo, scope)
    n = 0
    for fn in fns:
        # parallel accumulators: names initialised to an empty list, appended in the same statement list
        empties = {t.id for st in fn.own_nodes() if isinstance(st, ast.Assign) and isinstance(st.value, ast.List) and not st.value.elts for t in st.targets if isinstance(t, ast.Name)}
        partners = {}
        for blk_owner in fn.own_nodes():
            for fld in ("body", "orelse"):
                blk = getattr(blk_owner, fld, None)
                if not isinstance(blk, list):
                    continue
                apps = [st.value.func.value.id for st in blk if isinstance(st, ast.Expr) and isinstance(st.value, ast.Call) and isinstance(st.value.func, ast.Attribute)
                        and st.value.func.attr == "append" and isinstance(st.value.func.value, ast.Name) and st.value.func.value.id in empties]
                if len(set(apps)) >= 2 and any(isinstance(a_, (ast.For, ast.While)) for a_ in list(fn.ancestors(blk[0])) + [blk_owner]):
                    for a_ in set(apps):
                        partners.setdefault(a_, set()).update(set(apps) - {a_})
        if not partners:
            continue
        for st in fn.own_nodes():
            x = None
            if isinstance(st, ast.Expr) and isinstance(st.value, ast.Call) and isinstance(st.value.func, ast.Attribute) and st.value.func.attr in ("sort", "reverse") \
                    and isinstance(st.value.func.value, ast.Name):
                x = st.value.func.value.id
            elif isinstance(st, ast.Expr) and isinstance(st.value, ast.Call) and call_name(st.value) == "shuffle" and st.value.args and isinstance(st.value.args[0], ast.Name):
                x = st.value.args[0].id
            elif isinstance(st, ast.Assign) and len(st.targets) == 1 and isinstance(st.targets[0], ast.Name) and isinstance(st.value, ast.Call) and call_name(st.value) == "sorted" \
                    and st.value.args and isinstance(st.value.args[0], ast.Name) and st.value.args[0].id == st.targets[0].id:
                x = st.targets[0].id
            if x is None or x not in partners:
                continue
            # partners that are still read after this statement and are not re-ordered alongside
            for y in sorted(partners[x]):
                later_reads = [r for r in fn.own_nodes() if isinstance(r, ast.Name) and r.id == y and isinstance(r.ctx, ast.Load) and getattr(r, "lineno", 0) > st.lineno]
                if not later_reads:
                    continue
                same_block = fn.parents.get(st)
                co = False
                for z in fn.own_nodes():
                    if z is st or getattr(z, "lineno", 0) < st.lineno - 3 or getattr(z, "lineno", 0) > st.lineno + 3:
                        continue
                    if isinstance(z, (ast.Assign, ast.Expr)) and y in {q.id for q in ast.walk(z) if isinstance(q, ast.Name)} and any(
                            isinstance(q, ast.Call) and call_name(q) in ("sort", "sorted", "reverse", "shuffle", "argsort", "zip") for q in ast.walk(z)):
                        co = True
                n += 1
                obs.append(Ob("G31", clause, fn, st, co,
                              "`%s` in %s re-orders `%s`, which is filled entry by entry together with `%s`%s" % (
                                  ast.unparse(st)[:60], fn.qualname, x, y, " (the partner is re-ordered alongside)" if co else
                                  "; `%s` keeps its order and is still used afterwards, so entry k of one no longer belongs to entry k of the other" % y),
                              slot="parallel-reorder:%s:%s" % (fn.qualname, x), positive="robust"))
    obs.append(Ob("G31", clause, fns[0], fns[0].node, True, "%d functions in scope, %d re-orderings of one of two parallel lists inspected" % (len(fns), n), construct="parallel reorder inventory", slot="inventory"))
    return obs


def G10_defined_before_use(repo, clause, scope=ALL_LIB):
    """A local name is read only where at least one of its assignments can reach (reaching definitions over the statement CFG).  A read that NO
    assignment reaches - typically after two statements were exchanged or a line was moved above the one that defines its input - raises
    UnboundLocalError on every execution of that path; in code the tests never run this passes unnoticed."""
    import builtins
    obs = []
    fns = _scope_fns(repo, scope)
    n_uses = 0
    for fn in fns:
        assigned = set()
        for n in fn.own_nodes():
            if isinstance(n, ast.Name) and isinstance(n.ctx, ast.Store):
                assigned.add(n.id)
        # names bound by comprehensions / lambdas / nested defs / imports / with-as / except-as are not tracked by the statement-level analysis
        skip = set(fn.params)
        for n in fn.own_nodes():
            if isinstance(n, (ast.ListComp, ast.SetComp, ast.DictComp, ast.GeneratorExp)):
                for g in n.generators:
                    for y in ast.walk(g.target):
                        if isinstance(y, ast.Name):
                            skip.add(y.id)
            elif isinstance(n, ast.Lambda):
                skip |= {a.arg for a in n.args.args}
            elif isinstance(n, (ast.FunctionDef, ast.AsyncFunctionDef, ast.ClassDef)):
                skip.add(n.name)
            elif isinstance(n, (ast.Import, ast.ImportFrom)):
                skip |= {(a.asname or a.name).split(".")[0] for a in n.names}
            elif isinstance(n, ast.ExceptHandler) and n.name:
                skip.add(n.name)
            elif isinstance(n, ast.With):
                for it in n.items:
                    if it.optional_vars is not None:
                        for y in ast.walk(it.optional_vars):
                            if isinstance(y, ast.Name):
                                skip.add(y.id)
            elif isinstance(n, (ast.Global, ast.Nonlocal)):
                skip |= set(n.names)
            elif isinstance(n, ast.NamedExpr) and isinstance(n.target, ast.Name):
                skip.add(n.target.id)
        outer = fn.outer
        while outer is not None:
            skip |= set(outer.params) | {y.id for y in outer.all_nodes() if isinstance(y, ast.Name) and isinstance(y.ctx, ast.Store)}
            outer = outer.outer
        cand = assigned - skip - set(dir(builtins))
        if not cand:
            continue
        bad = None
        for u in fn.own_nodes():
            if isinstance(u, ast.Name) and isinstance(u.ctx, ast.Load) and u.id in cand:
                st = fn.stmt_of(u)
                if st is None:
                    continue
                # uses inside nested scopes (lambda / comprehension bodies) are evaluated later: only direct statement-level reads are judged
                if any(isinstance(a, (ast.Lambda, ast.FunctionDef)) for a in fn.ancestors(u) if a is not fn.node):
                    continue
                n_uses += 1
                try:
                    ds = fn.rd.defs_of_use(u)
                except Exception:
                    continue
                # an augmented assignment / loop both reads and writes: reaching defs of the statement itself are computed at entry, fine
                if not ds and fn.cfg.reaches(fn.cfg.ENTRY, st):
                    bad = (u, st)
                    break
        obs.append(Ob("G10", clause, fn, bad[1] if bad else fn.node, bad is None,
                      "every read of a local in %s is reached by an assignment%s" % (fn.qualname, "" if bad is None else
                                                                                    " -- NOT `%s` in `%s`: no assignment of it can reach this statement (UnboundLocalError whenever it runs)" % (bad[0].id, ast.unparse(bad[1]).splitlines()[0][:60])),
                      construct=None if bad else "def %s" % fn.name, slot="defined-before-use:%s" % fn.qualname, positive=True))
    obs.append(Ob("G10", clause, fns[0], fns[0].node, True, "%d functions in scope, %d reads of locals inspected" % (len(fns), n_uses), construct="use-before-definition inventory", slot="inventory"))
    return obs
