"""Concrete failing inputs for the genuine defects found by the static rules (DESIGN.md section 6).
Usage: /venv/bin/python findings/demos.py [F1 F2 ...]   -> prints PASS/FAIL per finding.
This is documentation of the findings (run by hand), not part of the static checks."""
import io
import sys
import traceback

import numpy as np


def F1():
    from mofun.helpers import guess_elements_from_masses
    assert guess_elements_from_masses([39.0983], max_delta=0.1) == ["K"], guess_elements_from_masses([39.0983], max_delta=0.1)
    assert guess_elements_from_masses([58.6934], max_delta=0.1) == ["Ni"]
    try:
        guess_elements_from_masses([5.0], max_delta=0.1)
    except Exception:
        return
    raise AssertionError("mass 5.0 accepted as an element")


def F2():
    from mofun import Atoms
    a = Atoms(elements="CCC", positions=[[0, 0, 0], [1, 0, 0], [2, 0, 0]], bonds=[(0, 1), (1, 2)], bond_types=[0, 0])
    a.pop()
    assert len(a) == 2 and len(a.bonds) == 1, (len(a), a.bonds)


def _tric():
    from mofun import Atoms
    return Atoms(elements="CCCC", positions=[[1, 1, 1], [2, 1, 1], [2, 2, 1], [2, 2, 2]],
                 cell=[[10, 0, 0], [3, 10, 0], [2, 1, 10]], impropers=[(0, 1, 2, 3)], improper_types=[0])


def F3():
    _tric().replicate((2, 1, 1))


def F4():
    from mofun import Atoms
    a = Atoms(elements="C", positions=[[1, 1, 1]], cell=[[10, 0, 0], [3, 10, 0], [2, 1, 10]])
    r = a.replicate((2, 1, 3))
    assert np.allclose(r.cell, [[20, 0, 0], [3, 10, 0], [6, 3, 30]]), r.cell


def F5():
    from mofun import Atoms, replace_pattern_in_structure
    cell = np.array([[10., 0, 0], [3, 10, 0], [0, 0, 10]])
    s = Atoms(elements="CH", positions=[[2.5, 9.5, 1.0], [3.5, 9.5, 1.0]], cell=cell)
    search = Atoms(elements="CH", positions=[[0, 0, 0], [1, 0, 0]])
    repl = Atoms(elements="CHF", positions=[[0, 0, 0], [1, 0, 0], [0, 1.4, 0]])
    out = replace_pattern_in_structure(s, search, repl)
    f = out.positions[-1]
    frac = f.dot(np.linalg.inv(cell))
    assert (frac > -1e-9).all() and (frac < 1 + 1e-9).all(), frac
    want = np.array([2.5, 10.9, 1.0])
    d = (f - want).dot(np.linalg.inv(cell))
    assert np.allclose(d, np.round(d), atol=1e-6), (f, d)


def F6():
    from mofun import Atoms, find_pattern_in_structure
    s = Atoms(elements="CNO", positions=[[1, 1, 1], [2.2, 1, 1], [2.2, 2.3, 1]], cell=10 * np.identity(3))
    p = Atoms(elements="CNO", positions=[[0, 0, 0], [1.2, 0, 0], [1.2, 1.3, 0]])
    assert len(find_pattern_in_structure(s, p, axisp1_idx=0)) == 1


def F7():
    from mofun import Atoms
    cml = """<molecule><atomArray><atom id="a1" elementType="Zr" x3="0.0" y3="0.0" z3="0.0"/></atomArray></molecule>"""
    a = Atoms.load(io.StringIO(cml), filetype="cml")
    assert len(a) == 1 and len(a.bonds) == 0


def F8():
    from mofun import Atoms
    a = Atoms(elements="CC", positions=[[1, 1, 1], [2, 1, 1]], cell=10 * np.identity(3), bonds=[(0, 1)], bond_types=[0])
    f = io.StringIO()
    a.save(f, filetype="cif")
    f.seek(0)
    b = Atoms.load(f, filetype="cif")
    assert len(b) == 2 and len(b.bonds) == 1


def F9():
    from mofun import Atoms
    a = Atoms(elements="CCH", positions=[[0, 0, 0], [1, 0, 0], [2, 0, 0]], bonds=[(0, 1)], bond_types=[0], bond_type_coeffs=["OLD 1 1"])
    del a[[1]]
    frag = Atoms(elements="HH", positions=[[5, 0, 0], [6, 0, 0]], bonds=[(0, 1)], bond_types=[0], bond_type_coeffs=["NEW 2 2"])
    a.extend(frag)
    assert a.bond_type_coeffs[a.bond_types[0]] == "NEW 2 2", (a.bond_types, a.bond_type_coeffs)
    b = Atoms(elements="C", positions=[[0, 0, 0]])
    del b[[0]]
    b.extend(Atoms(elements="H", positions=[[1, 1, 1]]))
    assert b.elements == ["H"], b.elements


def F10():
    from mofun import Atoms
    s = Atoms(elements="CN", positions=[[0, 0, 0], [1, 0, 0]])
    p = Atoms(elements="F", positions=[[3, 0, 0]], pair_coeffs=["0.05 3.0 # F"], atom_type_labels=["F_"])
    s.extend(p)
    assert len(s.pair_coeffs) == len(s.atom_type_elements), (list(s.pair_coeffs), list(s.atom_type_elements))


def F11():
    from mofun import Atoms
    a = Atoms(atom_types=[0, 1], atom_type_elements=["C", "C"], atom_type_labels=["C_R", "C_3"], positions=[[0, 0, 0], [1, 0, 0]], pair_coeffs=["a", "b"])
    b = a[[1]]
    assert list(b.atom_type_labels) == ["C_R", "C_3"] and list(b.pair_coeffs) == ["a", "b"], (b.atom_type_labels, b.pair_coeffs)


def F12():
    from mofun import Atoms
    Atoms(elements="CCC", positions=[[0, 0, 0], [1, 0, 0], [2, 0, 0]], bonds=[(0, 1), (1, 2)], bond_types=[0, 0],
          angles=[(0, 1, 2)], angle_types=[0], extra_angle_labels=["_geom_angle"], extra_angle_fields=[["109.5"]])


def F13():
    from click.testing import CliRunner
    from mofun.cli.mofun_cli import mofun_cli
    import tempfile, os
    from mofun import Atoms
    d = tempfile.mkdtemp()
    a = Atoms(elements="CC", positions=[[1, 1, 1], [2, 1, 1]], cell=10 * np.identity(3))
    a.save(os.path.join(d, "in.lmpdat"))
    r = CliRunner().invoke(mofun_cli, [os.path.join(d, "in.lmpdat"), os.path.join(d, "out.lmpdat"), "--framework-element", "C"])
    assert r.exit_code == 0, r.exception


def F14():
    from mofun import Atoms
    from mofun.rough_uff import retype_atoms_from_uff_types
    a = Atoms(elements="C", positions=[[0, 0, 0]])
    retype_atoms_from_uff_types(a, ["Lw6+3"])


if __name__ == "__main__":
    names = sys.argv[1:] or ["F%d" % i for i in range(1, 15)]
    import contextlib
    for n in names:
        try:
            with contextlib.redirect_stderr(io.StringIO()), contextlib.redirect_stdout(io.StringIO()):
                globals()[n]()
            print(n, "PASS")
        except Exception as e:
            print(n, "FAIL", type(e).__name__, str(e)[:150])
