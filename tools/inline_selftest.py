"""Development-time validation of verif_sa/inline.py (NOT part of any check): apply each recorded refactoring / seed to a scratch
copy of /repo, rewrite every module with the helper-inlining pass (ast.unparse of the transformed tree), and run the
repository's test suite on the result.  The inlined program must behave like the refactored one: same tests pass."""
import ast
import glob
import json
import os
import shutil
import subprocess
import sys
import tempfile
from multiprocessing import Pool

ROOT = os.path.dirname(os.path.dirname(os.path.abspath(__file__)))
sys.path.insert(0, ROOT)
from verif_sa.inline import inline_new_helpers  # noqa: E402

KNOWN = set(json.load(open(os.path.join(ROOT, "rules", "reference_shapes.json")))["__functions__"])


def run(patch):
    d = tempfile.mkdtemp(prefix="inl_", dir="/tmp")
    try:
        for x in ("mofun", "tests", "conftest.py", "setup.py"):
            src = os.path.join("/repo", x)
            if os.path.isdir(src):
                shutil.copytree(src, os.path.join(d, x), ignore=shutil.ignore_patterns("__pycache__"))
            elif os.path.exists(src):
                shutil.copy(src, d)
        if patch:
            r = subprocess.run(["patch", "-p1", "-s", "-i", patch], cwd=d, capture_output=True, text=True)
            if r.returncode:
                return patch, "patch failed", []
        keep = set()
        files = [os.path.join(dp, f) for dp, _, fs in os.walk(os.path.join(d, "mofun")) for f in fs if f.endswith(".py")]
        for f in files:
            for n in ast.walk(ast.parse(open(f).read())):
                if isinstance(n, ast.ImportFrom):
                    keep.update(a.name for a in n.names)
        stats_all = []
        for f in files:
            stats = []
            tree = inline_new_helpers(ast.parse(open(f).read()), KNOWN, keep, stats)
            if stats:
                open(f, "w").write(ast.unparse(tree) + "\n")
                stats_all += stats
        if not stats_all:
            return patch, "nothing inlined", []
        env = dict(os.environ, PYTHONPATH=d, PYTHONDONTWRITEBYTECODE="1")
        r = subprocess.run(["/venv/bin/python", "-m", "pytest", "-q", "-x", "-p", "no:cacheprovider", "--timeout=900", "tests"], cwd=d, env=env,
                           capture_output=True, text=True)
        tail = (r.stdout.strip().splitlines() or ["?"])[-1]
        return patch, ("PASS " if r.returncode == 0 else "FAIL ") + tail, stats_all
    finally:
        shutil.rmtree(d, ignore_errors=True)


if __name__ == "__main__":
    pats = sys.argv[1:] or ["refactors/*/refactor_*.diff"]
    patches = []
    for p in pats:
        patches += sorted(glob.glob(os.path.join(ROOT, p)))
    with Pool(12) as pool:
        res = pool.map(run, patches)
    bad = 0
    for p, verdict, stats in res:
        print(os.path.relpath(p, ROOT), verdict, sorted({(q, h) for q, h, _ in stats})[:8])
        bad += verdict.startswith("FAIL") or verdict == "patch failed"
    print("patches: %d, inlined+tested: %d, failing: %d" % (len(res), sum(1 for r in res if r[1].startswith(("PASS", "FAIL"))), bad))
