"""Behaviour-preserving source transformations (never executed, only analysed):
alpha-renaming of locals, commuting operands, alias temporaries, swapping independent statements,
re-flowing if/else into an early exit.  Each generator yields (variant id, relpath, new source)."""
import ast
import copy
import os

PKG_FILES = ["mofun/mofun.py", "mofun/atoms.py", "mofun/helpers.py", "mofun/detect_bonds.py", "mofun/rough_uff.py",
             "mofun/cli/mofun_cli.py"]


def _funcs(tree):
    out = []

    def rec(body, prefix):
        for st in body:
            if isinstance(st, (ast.FunctionDef, ast.AsyncFunctionDef)):
                out.append((prefix + st.name, st))
            elif isinstance(st, ast.ClassDef):
                rec(st.body, prefix + st.name + ".")
    rec(tree.body, "")
    return out


def _stored_locals(fnode):
    """Names bound inside the function (any depth) that can be renamed consistently."""
    params = set()
    stored = set()
    banned = set()
    for n in ast.walk(fnode):
        if isinstance(n, (ast.FunctionDef, ast.AsyncFunctionDef, ast.Lambda)):
            a = n.args
            for x in a.posonlyargs + a.args + a.kwonlyargs:
                params.add(x.arg)
            if a.vararg:
                params.add(a.vararg.arg)
            if a.kwarg:
                params.add(a.kwarg.arg)
            if isinstance(n, (ast.FunctionDef, ast.AsyncFunctionDef)) and n is not fnode:
                banned.add(n.name)
        elif isinstance(n, ast.Name) and isinstance(n.ctx, (ast.Store, ast.Del)):
            stored.add(n.id)
        elif isinstance(n, (ast.Global, ast.Nonlocal)):
            banned.update(n.names)
        elif isinstance(n, ast.ExceptHandler) and n.name:
            banned.add(n.name)
        elif isinstance(n, (ast.Import, ast.ImportFrom)):
            for al in n.names:
                banned.add((al.asname or al.name).split(".")[0])
    return stored - params - banned


def alpha_rename(src, relpath, suffix="_rn"):
    tree = ast.parse(src)
    for qual, fnode in _funcs(tree):
        t2 = ast.parse(src)
        target = dict(_funcs(t2))[qual]
        names = _stored_locals(target)
        if not names:
            continue
        for n in ast.walk(target):
            if isinstance(n, ast.Name) and n.id in names:
                n.id = n.id + suffix
        yield ("alpha:%s:%s" % (relpath, qual), relpath, ast.unparse(t2))


def commute(src, relpath):
    """Swap operands of ==, != and of + / * with a numeric constant operand; reverse set literals."""
    tree = ast.parse(src)
    changed = 0

    class T(ast.NodeTransformer):
        def visit_Compare(self, n):
            nonlocal changed
            self.generic_visit(n)
            if len(n.ops) == 1 and isinstance(n.ops[0], (ast.Eq, ast.NotEq)):
                n.left, n.comparators[0] = n.comparators[0], n.left
                changed += 1
            return n

        def visit_BinOp(self, n):
            nonlocal changed
            self.generic_visit(n)
            if isinstance(n.op, (ast.Add, ast.Mult)):
                def num(x):
                    return isinstance(x, ast.Constant) and isinstance(x.value, (int, float)) and not isinstance(x.value, bool)
                if num(n.left) != num(n.right):
                    n.left, n.right = n.right, n.left
                    changed += 1
            return n

        def visit_Set(self, n):
            nonlocal changed
            self.generic_visit(n)
            if len(n.elts) > 1:
                n.elts = list(reversed(n.elts))
                changed += 1
            return n
    T().visit(tree)
    if changed:
        yield ("commute:%s" % relpath, relpath, ast.unparse(ast.fix_missing_locations(tree)))


def _call_free(e):
    return not any(isinstance(x, (ast.Call, ast.Lambda, ast.ListComp, ast.SetComp, ast.DictComp, ast.GeneratorExp, ast.NamedExpr, ast.Starred)) for x in ast.walk(e))


def alias_temps(src, relpath):
    """x = f(<expr>, ...)  ->  _t = <expr>; x = f(_t, ...)   (first argument only: evaluation order is preserved)."""
    tree = ast.parse(src)
    counter = [0]

    def process(body):
        out = []
        for st in body:
            for fld in ("body", "orelse", "finalbody"):
                sub = getattr(st, fld, None)
                if isinstance(sub, list) and sub and isinstance(sub[0], ast.stmt):
                    setattr(st, fld, process(sub))
            if isinstance(st, ast.Try):
                for h in st.handlers:
                    h.body = process(h.body)
            val = getattr(st, "value", None)
            if isinstance(st, (ast.Assign, ast.Return, ast.Expr)) and isinstance(val, ast.Call) and val.args and not isinstance(val.func, ast.Attribute):
                a0 = val.args[0]
                if not isinstance(a0, (ast.Name, ast.Constant, ast.Starred)) and _call_free(a0) and _call_free(val.func):
                    counter[0] += 1
                    nm = "_tmp%d" % counter[0]
                    out.append(ast.Assign(targets=[ast.Name(nm, ast.Store())], value=a0))
                    val.args[0] = ast.Name(nm, ast.Load())
            out.append(st)
        return out

    for qual, fnode in _funcs(tree):
        fnode.body = process(fnode.body)
        for n in ast.walk(fnode):
            if isinstance(n, (ast.FunctionDef,)) and n is not fnode:
                n.body = process(n.body)
    if counter[0]:
        yield ("alias:%s" % relpath, relpath, ast.unparse(ast.fix_missing_locations(tree)))


def _simple_assign(st):
    return isinstance(st, ast.Assign) and len(st.targets) == 1 and isinstance(st.targets[0], ast.Name) and \
        isinstance(st.value, (ast.List, ast.Constant, ast.Dict, ast.Tuple)) and _call_free(st.value)


def swap_independent(src, relpath):
    """Swap adjacent literal initialisations of distinct names (x = []; y = [] -> y = []; x = [])."""
    tree = ast.parse(src)
    n_sw = [0]

    def process(body):
        i = 0
        while i + 1 < len(body):
            a, b = body[i], body[i + 1]
            if _simple_assign(a) and _simple_assign(b) and a.targets[0].id != b.targets[0].id \
                    and a.targets[0].id not in {x.id for x in ast.walk(b.value) if isinstance(x, ast.Name)} \
                    and b.targets[0].id not in {x.id for x in ast.walk(a.value) if isinstance(x, ast.Name)}:
                body[i], body[i + 1] = b, a
                n_sw[0] += 1
                i += 2
            else:
                i += 1
        for st in body:
            for fld in ("body", "orelse", "finalbody"):
                sub = getattr(st, fld, None)
                if isinstance(sub, list) and sub and isinstance(sub[0], ast.stmt):
                    process(sub)

    for qual, fnode in _funcs(tree):
        process(fnode.body)
    if n_sw[0]:
        yield ("swap:%s" % relpath, relpath, ast.unparse(ast.fix_missing_locations(tree)))


def early_exit(src, relpath):
    """`if c: A else: B` as the LAST statement of a loop body -> `if c: A; continue` + B;
    as the last statement of a function whose branches both end in return -> `if c: A` + B."""
    tree = ast.parse(src)
    n_ch = [0]

    def ends_in_return(body):
        return bool(body) and isinstance(body[-1], (ast.Return, ast.Raise))

    def process_loop(loop):
        body = loop.body
        if body and isinstance(body[-1], ast.If) and body[-1].orelse and not (len(body[-1].orelse) == 1 and isinstance(body[-1].orelse[0], ast.If)):
            st = body[-1]
            if not any(isinstance(x, (ast.Break,)) for x in ast.walk(st)):
                new_if = ast.If(test=st.test, body=st.body + ([] if ends_in_return(st.body) or isinstance(st.body[-1], ast.Continue) else [ast.Continue()]), orelse=[])
                loop.body = body[:-1] + [new_if] + st.orelse
                n_ch[0] += 1

    for n in ast.walk(tree):
        if isinstance(n, (ast.For, ast.While)):
            process_loop(n)
    for qual, fnode in _funcs(tree):
        body = fnode.body
        if body and isinstance(body[-1], ast.If) and body[-1].orelse and ends_in_return(body[-1].body) and ends_in_return(body[-1].orelse) \
                and not (len(body[-1].orelse) == 1 and isinstance(body[-1].orelse[0], ast.If)):
            st = body[-1]
            fnode.body = body[:-1] + [ast.If(test=st.test, body=st.body, orelse=[])] + st.orelse
            n_ch[0] += 1
    if n_ch[0]:
        yield ("earlyexit:%s" % relpath, relpath, ast.unparse(ast.fix_missing_locations(tree)))


def insert_noise(src, relpath):
    """Insert a harmless diagnostic statement at the start of every function body and loop body."""
    tree = ast.parse(src)
    n_ins = [0]

    def noise():
        n_ins[0] += 1
        return ast.parse("print('debug', file=sys.stderr) if False else None").body[0]

    for n in ast.walk(tree):
        if isinstance(n, (ast.For, ast.While)):
            n.body.insert(0, noise())
        elif isinstance(n, (ast.FunctionDef,)):
            k = 1 if (n.body and isinstance(n.body[0], ast.Expr) and isinstance(n.body[0].value, ast.Constant) and isinstance(n.body[0].value.value, str)) else 0
            n.body.insert(k, noise())
    if n_ins[0]:
        yield ("noise:%s" % relpath, relpath, ast.unparse(ast.fix_missing_locations(tree)))


def reverse_elif(src, relpath):
    """Swap the two branches of a plain if/else by negating the test: if c: A else: B -> if not c: B else: A."""
    tree = ast.parse(src)
    n_ch = [0]
    for n in ast.walk(tree):
        if isinstance(n, ast.If) and n.orelse and not (len(n.orelse) == 1 and isinstance(n.orelse[0], ast.If)):
            # skip if this If is itself the elif arm of a chain
            n.test = ast.UnaryOp(op=ast.Not(), operand=n.test)
            n.body, n.orelse = n.orelse, n.body
            n_ch[0] += 1
    if n_ch[0]:
        yield ("negate-if:%s" % relpath, relpath, ast.unparse(ast.fix_missing_locations(tree)))


def guard_to_continue(src, relpath):
    """`if c: BODY` as the LAST statement of a loop body (no else) -> `if not c: continue` + BODY;
    an `==` test is turned into `!=` instead of wrapping it in `not`."""
    tree = ast.parse(src)
    n_ch = [0]
    for n in ast.walk(tree):
        if isinstance(n, (ast.For, ast.While)) and n.body and isinstance(n.body[-1], ast.If) and not n.body[-1].orelse:
            st = n.body[-1]
            if any(isinstance(x, (ast.Break, ast.Continue)) for x in ast.walk(st)):
                continue
            t = st.test
            if isinstance(t, ast.Compare) and len(t.ops) == 1 and isinstance(t.ops[0], ast.Eq):
                neg = ast.Compare(left=t.left, ops=[ast.NotEq()], comparators=t.comparators)
            else:
                neg = ast.UnaryOp(op=ast.Not(), operand=t)
            n.body = n.body[:-1] + [ast.If(test=neg, body=[ast.Continue()], orelse=[])] + st.body
            n_ch[0] += 1
    if n_ch[0]:
        yield ("guard-continue:%s" % relpath, relpath, ast.unparse(ast.fix_missing_locations(tree)))


def flip_ordered(src, relpath):
    """a < b  ->  b > a (and <=, >, >=): the same test with the operands exchanged.  One variant per function (so that a false
    alarm can be attributed), plus nothing for functions without ordered comparisons."""
    flip = {ast.Lt: ast.Gt, ast.Gt: ast.Lt, ast.LtE: ast.GtE, ast.GtE: ast.LtE}
    tree0 = ast.parse(src)
    for qual, _ in _funcs(tree0):
        tree = ast.parse(src)
        target = dict(_funcs(tree))[qual]
        changed = 0
        for n in ast.walk(target):
            if isinstance(n, ast.Compare) and len(n.ops) == 1 and type(n.ops[0]) in flip:
                n.left, n.comparators[0] = n.comparators[0], n.left
                n.ops = [flip[type(n.ops[0])]()]
                changed += 1
        if changed:
            yield ("flipcmp:%s:%s" % (relpath, qual), relpath, ast.unparse(ast.fix_missing_locations(tree)))


def not_is(src, relpath):
    """x is not None -> not x is None ; x != y -> not x == y is NOT applied (numpy arrays); only identity tests."""
    tree = ast.parse(src)
    changed = 0

    class T(ast.NodeTransformer):
        def visit_Compare(self, n):
            nonlocal changed
            self.generic_visit(n)
            if len(n.ops) == 1 and isinstance(n.ops[0], ast.IsNot):
                changed += 1
                return ast.UnaryOp(op=ast.Not(), operand=ast.Compare(left=n.left, ops=[ast.Is()], comparators=n.comparators))
            return n
    T().visit(tree)
    if changed:
        yield ("notis:%s" % relpath, relpath, ast.unparse(ast.fix_missing_locations(tree)))


def swap_pure_conjuncts(src, relpath):
    """`a and b` -> `b and a` when both operands are side-effect-free comparisons of names/attributes/constants that cannot raise
    (identity tests, comparisons of plain names and constants): evaluation order does not matter."""
    tree = ast.parse(src)
    changed = 0

    def pure(e):
        if isinstance(e, ast.Compare) and len(e.ops) == 1:
            return all(isinstance(x, (ast.Name, ast.Constant)) for x in [e.left] + e.comparators)
        return isinstance(e, ast.Name)

    class T(ast.NodeTransformer):
        def visit_BoolOp(self, n):
            nonlocal changed
            self.generic_visit(n)
            if len(n.values) == 2 and all(pure(v) for v in n.values):
                n.values = [n.values[1], n.values[0]]
                changed += 1
            return n
    T().visit(tree)
    if changed:
        yield ("swapconj:%s" % relpath, relpath, ast.unparse(ast.fix_missing_locations(tree)))


GENERATORS = [alpha_rename, commute, alias_temps, swap_independent, early_exit, insert_noise, reverse_elif, guard_to_continue,
              flip_ordered, not_is, swap_pure_conjuncts]


def all_benign(root):
    for rel in PKG_FILES:
        p = os.path.join(root, rel)
        if not os.path.exists(p):
            continue
        with open(p) as f:
            src = f.read()
        for g in GENERATORS:
            for v in g(src, rel):
                # the variant must still be valid Python
                ast.parse(v[2])
                yield v
