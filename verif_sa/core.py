"""Core records shared by every rule: obligations, analysis errors, known findings, evidence."""
import ast
import json
import os
import re
import time

VERIF_ROOT = os.path.dirname(os.path.dirname(os.path.abspath(__file__)))


class AnalysisError(Exception):
    """The checker cannot decide (vanished anchor, floor not met, unsupported shape).

    Mapped to exit code 2 and an ``ANALYSIS-ERROR`` line; never to a VIOLATION line."""


def norm_text(node_or_text):
    """Normalised construct text used in keys (never line numbers)."""
    if isinstance(node_or_text, ast.AST):
        try:
            t = ast.unparse(node_or_text)
        except Exception:  # pragma: no cover
            t = ast.dump(node_or_text)
    else:
        t = str(node_or_text)
    t = re.sub(r"\s+", " ", t).strip()
    return t[:160]


_SKEL_SKIP = ("ctx", "attr", "arg", "name", "id", "lineno", "col_offset", "end_lineno", "end_col_offset", "type_comment", "kind", "value_", "module", "level", "asname")


def skeleton(node):
    """Shape of a statement with every leaf abstracted: node types and arities only (identifiers, attribute names,
    constants and operator kinds are erased).  Two constructs with equal skeletons differ at most in leaves."""
    def rec(n):
        if isinstance(n, (ast.operator, ast.cmpop, ast.unaryop, ast.boolop, ast.expr_context)):
            return ""
        if isinstance(n, ast.Name):
            return "N"
        if isinstance(n, ast.Constant):
            return "C"
        if isinstance(n, ast.Expr) and isinstance(n.value, ast.Constant) and isinstance(n.value.value, str):
            return ""      # docstring
        parts = []
        for f, v in ast.iter_fields(n):
            if f in _SKEL_SKIP:
                continue
            if isinstance(v, list):
                parts.append("[" + ",".join(rec(x) for x in v if isinstance(x, ast.AST)) + "]")
            elif isinstance(v, ast.AST):
                parts.append(rec(v))
        return type(n).__name__ + "(" + ",".join(parts) + ")"
    if not isinstance(node, ast.AST):
        return "?"
    return " ".join(_tokens(node))


def _tokens(node):
    out = []

    def rec(n):
        if isinstance(n, (ast.operator, ast.cmpop, ast.unaryop, ast.boolop, ast.expr_context)):
            return
        if isinstance(n, ast.Name):
            out.append("N")
            return
        if isinstance(n, ast.Constant):
            out.append("C")
            return
        if isinstance(n, ast.Expr) and isinstance(n.value, ast.Constant) and isinstance(n.value.value, str):
            return
        if isinstance(n, ast.UnaryOp) and isinstance(n.op, (ast.USub, ast.UAdd)):
            rec(n.operand)      # -x and x have the same shape
            return
        out.append(type(n).__name__)
        for f, v in ast.iter_fields(n):
            if f in _SKEL_SKIP:
                continue
            if isinstance(v, list):
                for x in v:
                    if isinstance(x, ast.AST):
                        rec(x)
            elif isinstance(v, ast.AST):
                rec(v)
    rec(node)
    return out


_REFACTOR_TOKENS = {"Call", "Attribute", "ListComp", "GeneratorExp", "SetComp", "DictComp", "Lambda", "IfExp", "FunctionDef", "For", "While", "With",
                    "Try", "If", "Return", "comprehension", "Starred", "JoinedStr", "FormattedValue", "Dict", "NamedExpr", "Assign", "AugAssign", "Expr"}


def similar(a, b, threshold=0.72):
    """Are two skeleton token strings near misses of each other (small edit, same construct)?"""
    if a == b:
        return True
    import difflib
    ta, tb = a.split(), b.split()
    if not ta or not tb:
        return False
    sm = difflib.SequenceMatcher(None, ta, tb, autojunk=False)
    if sm.ratio() < threshold:
        return False
    # a near miss is a small edit of the SAME construct: the tokens that differ are operators' operands, constants, names, subscripts,
    # comparisons ... - not calls turned into subscripts, comprehensions into map(), inlined or extracted helpers, re-nested control flow,
    # which are the signature of a refactoring and must end as UNDECIDED
    changed = set()
    for tag, i1, i2, j1, j2 in sm.get_opcodes():
        if tag != "equal":
            changed |= set(ta[i1:i2]) | set(tb[j1:j2])
    if not (changed & _REFACTOR_TOKENS):
        return True
    return "refactor-tokens"


def edit_size(a, b):
    """number of tokens inserted / deleted / replaced between two skeleton strings"""
    import difflib
    ta, tb = a.split(), b.split()
    sm = difflib.SequenceMatcher(None, ta, tb, autojunk=False)
    return sum(max(i2 - i1, j2 - j1) for tag, i1, i2, j1, j2 in sm.get_opcodes() if tag != "equal")


LOCAL_EDIT_TOKENS = 12
# A function whose skeleton differs from the confirmed reference by more than this many tokens (or that has no reference at all) was
# restructured: positive judgements anchored in it were confirmed by reading the old shape and are reported UNDECIDED, not VIOLATED
RESTRUCTURE_TOKENS = int(os.environ.get("VERIF_RESTRUCTURE_TOKENS", "40"))


class Ob:
    """One obligation: a rule instance at a construct with a verdict.

    ``ok`` is the semantic verdict of the rule.  A failed obligation is a VIOLATION only if the rule marks it
    ``positive`` (it recognised the construct and it is wrong) or the failing construct is a *near miss* of the
    construct confirmed on the reference tree (same skeleton, different leaves); otherwise it is UNDECIDED
    (unrecognised shape, e.g. after a refactoring) and counts as an analysis error, never as a violation."""

    __slots__ = ("rule", "clause", "file", "line", "func", "construct", "ok", "detail", "slot", "positive", "skel", "status", "skel_kind", "force_undecided", "fn_skel", "robust", "depends")

    def __init__(self, rule, clause, fn, node, ok, detail, construct=None, slot=None, positive=False, undecided=False, depends=()):
        self.rule = rule
        self.clause = clause
        if fn is not None:
            self.file = fn.relpath
            self.func = fn.qualname
        else:
            self.file = "?"
            self.func = "?"
        self.line = getattr(node, "lineno", 0) if node is not None else 0
        self.construct = norm_text(construct if construct is not None else (node if node is not None else ""))
        self.ok = bool(ok)
        self.detail = detail
        # slot: a stable, line-free name of the rule instance (e.g. "bond.types-delete")
        self.slot = slot or self.construct
        self.positive = bool(positive)
        # positive="robust": the judgement is a contradiction between constructs of the analysed code itself (an API contract, a decision table
        # evaluated whole, a write to module state) and does not rest on the confirmed shape of the enclosing function
        self.robust = positive == "robust" or (bool(positive) and rule[:1] == "G" and rule[1:2].isdigit())
        st = node
        if isinstance(node, ast.AST) and not isinstance(node, (ast.stmt, ast.Module)) and fn is not None and hasattr(fn, "stmt_of"):
            try:
                st = fn.stmt_of(node) or node
            except Exception:
                st = node
        self.skel = skeleton(st) if isinstance(st, ast.AST) else "?"
        self.skel_kind = "def" if isinstance(st, (ast.FunctionDef, ast.AsyncFunctionDef, ast.ClassDef, ast.Module)) else (
            "compound" if isinstance(st, (ast.If, ast.For, ast.While, ast.With, ast.Try)) else "simple")
        self.force_undecided = bool(undecided)
        self.status = "holds" if self.ok else "unclassified"
        # skeleton of the whole enclosing function (cached on the function object): used to tell a local edit from a restructuring
        # other functions the judgement rests on (e.g. the reader for a writer-side obligation): (qualname, skeleton)
        self.depends = []
        for d in depends or ():
            if d is not None and hasattr(d, "node") and d is not fn:
                ds = getattr(d, "_fn_skel_cache", None)
                if ds is None:
                    ds = skeleton(d.node)
                    d._fn_skel_cache = ds
                self.depends.append((d.qualname, ds))
        self.fn_skel = None
        if fn is not None and hasattr(fn, "node"):
            fs = getattr(fn, "_fn_skel_cache", None)
            if fs is None:
                try:
                    fs = skeleton(fn.node)
                    fn._fn_skel_cache = fs
                except Exception:
                    fs = None
            self.fn_skel = fs

    @property
    def key(self):
        return "%s|%s|%s" % (self.rule, self.func, self.slot)

    def as_dict(self):
        return {
            "rule": self.rule,
            "clause": self.clause,
            "where": "%s:%d" % (self.file, self.line),
            "function": self.func,
            "construct": self.construct,
            "slot": self.slot,
            "verdict": "holds" if self.ok else ("UNDECIDED" if self.status == "undecided" else "VIOLATED"),
            "detail": self.detail,
        }

    def line_text(self):
        return "%-9s %-7s %s:%d %s :: %s  -- %s" % (
            "ok" if self.ok else ("UNDECIDED" if self.status == "undecided" else "VIOLATED"), self.rule, self.file, self.line, self.func, self.construct[:90], self.detail)


class FileObj:
    """Pseudo-function used for obligations that live at module or table level."""

    def __init__(self, relpath, qualname):
        self.relpath = relpath
        self.qualname = qualname


_REFS = None


def load_reference_shapes():
    global _REFS
    if _REFS is None:
        path = os.path.join(VERIF_ROOT, "rules", "reference_shapes.json")
        try:
            with open(path) as f:
                _REFS = json.load(f)
        except Exception:
            _REFS = {}
    return _REFS


def classify(obs):
    """Set ob.status for failed obligations: 'violated' (positive or near miss of the reference construct) or 'undecided'."""
    refs = load_reference_shapes()
    known = load_known_findings()
    for o in obs:
        if o.ok:
            o.status = "holds"
        elif o.force_undecided and not o.positive:
            o.status = "undecided"
        elif o.positive:
            o.status = "violated"
        else:
            verdicts = [similar(o.skel, r, {"def": 1.0, "compound": 0.85, "simple": 0.72}[o.skel_kind]) for r in refs.get(o.key, ())]
            if any(v is True for v in verdicts):
                o.status = "violated"
            elif any(v == "refactor-tokens" for v in verdicts):
                # the statement was edited with calls / comprehensions / attributes changing: a violation only if the rest of the function is untouched
                # (a local slip), UNDECIDED if the function was restructured
                fref = refs.get("__functions__", {}).get(o.func) if isinstance(refs.get("__functions__"), dict) else None
                if fref is not None and o.fn_skel is not None and edit_size(o.fn_skel, fref) <= LOCAL_EDIT_TOKENS:
                    o.status = "violated"
                else:
                    o.status = "undecided"
            else:
                o.status = "undecided"
        if o.status == "violated" and any(finding_matches(f_, f_.get("property"), o) for f_ in known):
            continue  # a recorded finding stays the same finding however the function around it is rewritten
        if o.status == "violated":
            frefs = refs.get("__functions__") if isinstance(refs.get("__functions__"), dict) else None
            if frefs is not None and o.fn_skel is not None and not o.robust:
                fref = frefs.get(o.func)
                n = None if fref is None else edit_size(o.fn_skel, fref)
                if n is None or n > RESTRUCTURE_TOKENS:
                    o.status = "undecided"
                    o.detail = "%s [enclosing function %s: judgement needs re-confirmation]" % (
                        o.detail, "has no confirmed reference" if n is None else "restructured, %d tokens differ from the confirmed reference" % n)
            if frefs is not None and o.status == "violated" and not o.robust:
                for q, ds in o.depends:
                    dref = frefs.get(q)
                    n = None if dref is None else edit_size(ds, dref)
                    if n is None or n > RESTRUCTURE_TOKENS:
                        o.status = "undecided"
                        o.detail = "%s [the judgement rests on %s, which %s: needs re-confirmation]" % (
                            o.detail, q, "has no confirmed reference" if n is None else "was restructured, %d tokens differ from the confirmed reference" % n)
                        break
    return obs


def load_known_findings():
    path = os.path.join(VERIF_ROOT, "known_findings.json")
    if not os.path.exists(path):
        return []
    with open(path) as f:
        data = json.load(f)
    return data.get("findings", [])


def finding_matches(finding, prop, ob):
    if finding.get("status", "open") != "open":
        return False  # fixed entries suppress nothing
    if finding.get("property") != prop:
        return False
    if finding.get("rule") != ob.rule:
        return False
    if finding.get("function") != ob.func:
        return False
    slot = finding.get("slot")
    if slot is not None and slot != ob.slot:
        return False
    return True


def write_evidence(prop, tier, seed, obs, wall_s, explanation, assumptions, extra=None, violations=0, known=0):
    ev_dir = os.path.join(VERIF_ROOT, "evidence")
    os.makedirs(ev_dir, exist_ok=True)
    distinct = len({o.key for o in obs})
    rules = sorted({o.rule for o in obs})
    by_rule = {}
    for o in obs:
        r = by_rule.setdefault(o.rule, {"obligations": 0, "discharged": 0})
        r["obligations"] += 1
        r["discharged"] += 1 if o.ok else 0
    # samples: first two per rule, failing ones first
    samples = []
    for r in rules:
        rs = [o for o in obs if o.rule == r]
        rs.sort(key=lambda o: o.ok)
        samples.extend(o.as_dict() for o in rs[:2])
    coverage = {
        "explanation": explanation,
        "obligations": len(obs),
        "discharged": sum(1 for o in obs if o.ok),
        "evaluations": len(obs),
        "distinct_nontrivial": distinct,
        "rule": "one obligation per (rule, function, construct slot) enumerated from the current /repo source; "
                "distinct = distinct keys; every enumerated obligation is non-trivial (it names a construct that the rule constrains)",
        "samples": samples,
        "per_rule": by_rule,
        "exhaustive": True,
        "checker_cmd": "./check %s --tier %s" % (prop, tier),
        "trusted_base": ["CPython ast parser", "rule tables under /verif/rules", "exception table rules/exceptions.py"],
        "known_findings_reported": known,
    }
    if extra:
        coverage.update(extra)
    data = {
        "property_id": prop,
        "tier": tier,
        "seed": int(seed),
        "level": "other",
        "coverage": coverage,
        "assumptions": assumptions,
        "wall_s": round(wall_s, 3),
        "violations": violations,
    }
    path = os.path.join(ev_dir, "%s.json" % prop)
    tmp = path + ".tmp"
    with open(tmp, "w") as f:
        json.dump(data, f, indent=1, sort_keys=False)
    os.replace(tmp, path)
    return path


class Timer:
    def __init__(self):
        self.t0 = time.time()

    def elapsed(self):
        return time.time() - self.t0


# ---- floors --------------------------------------------------------------------------------------------------------------
# A rule records a failed floor (fewer rule instances than confirmed by reading) instead of aborting: the obligations it has
# already judged are kept, so a floor can never mask a violation found by the same rule.  With no other failed obligation the
# pending floor still makes the check end as ANALYSIS-ERROR (UNDECIDED), exactly as before.
PENDING_FLOORS = []


def note_floor(msg):
    PENDING_FLOORS.append(msg)


def call_rule(rule, repo, clause, **kwargs):
    del PENDING_FLOORS[:]
    try:
        got = rule(repo, clause, **kwargs)
    except AnalysisError:
        raise
    except Exception as e:
        if PENDING_FLOORS:
            raise AnalysisError("%s (and then %s: %s)" % (PENDING_FLOORS[0], type(e).__name__, e))
        raise
    if PENDING_FLOORS:
        msgs = list(PENDING_FLOORS)
        del PENDING_FLOORS[:]
        if not got:
            raise AnalysisError(msgs[0])
        anchor = FileObj(got[0].file, got[0].func)
        for i, m in enumerate(msgs):
            got.append(Ob(got[0].rule, clause, anchor, None, False, m, construct="floor of rule %s" % rule.__name__, slot="floor:%d" % i, undecided=True))
    return got
