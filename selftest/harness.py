"""Evaluate the rules of all properties on scratch variants of the repository (analysis only)."""
import os
import shutil
import sys
import tempfile
import traceback

ROOT = os.path.dirname(os.path.dirname(os.path.abspath(__file__)))
if ROOT not in sys.path:
    sys.path.insert(0, ROOT)


def evaluate(root, props=None):
    """Run the quick rules of the given properties against the tree at ``root``.
    Returns {prop: {"violated": sorted keys, "n": obligations} | {"error": text}}."""
    from verif_sa.facts import Repo
    from verif_sa.core import AnalysisError, classify
    from rules.registry import PROPERTIES
    out = {}
    try:
        repo = Repo(root)
    except AnalysisError as e:
        return {p: {"error": str(e)} for p in (props or PROPERTIES)}
    cache = {}
    for p in (props or sorted(PROPERTIES)):
        spec = PROPERTIES[p]
        viol = set()
        n = 0
        errs = []
        try:
            for entry in spec["rules"]:
                rule, clause = entry[0], entry[1]
                kwargs = entry[2] if len(entry) > 2 else {}
                ck = (rule.__name__, repr(sorted(kwargs.items())))
                if ck not in cache:
                    try:
                        from verif_sa.core import call_rule
                        cache[ck] = call_rule(rule, repo, "x", **kwargs)
                    except AnalysisError as e:
                        cache[ck] = e
                    except Exception as e:  # internal error of a rule: analysis error
                        cache[ck] = AnalysisError("internal error in %s: %s: %s" % (rule.__name__, type(e).__name__, e))
                res = cache[ck]
                if isinstance(res, Exception):
                    errs.append(str(res))
                    continue
                classify(res)
                for o in res:
                    n += 1
                    if o.status == "violated":
                        viol.add(o.key)
                    elif o.status == "undecided":
                        errs.append("UNDECIDED " + o.key)
            if errs and not viol:
                out[p] = {"error": "; ".join(errs)}
            else:
                out[p] = {"violated": sorted(viol), "n": n, "notes": errs}
        except AnalysisError as e:
            out[p] = {"error": str(e)}
    return out


def scratch_copy(src_root):
    base = os.environ.get("TMPDIR") or tempfile.gettempdir()
    d = tempfile.mkdtemp(prefix="verif_sa_variant_", dir=base)
    shutil.copytree(os.path.join(src_root, "mofun"), os.path.join(d, "mofun"), ignore=shutil.ignore_patterns("__pycache__"))
    return d


def run_variant(args):
    """(src_root, variant id, relpath, new source, props) -> (variant id, result dict)"""
    src_root, vid, rel, new_src, props = args
    d = scratch_copy(src_root)
    try:
        with open(os.path.join(d, rel), "w") as f:
            f.write(new_src)
        res = evaluate(d, props)
    except Exception:
        res = {"*": {"error": traceback.format_exc()[-400:]}}
    finally:
        shutil.rmtree(d, ignore_errors=True)
    return vid, res


def diff_against(baseline, res):
    """New violations / lost obligations / errors of a variant relative to the baseline."""
    new = {}
    errors = {}
    for p, r in res.items():
        if "error" in r:
            errors[p] = r["error"]
            continue
        b = baseline.get(p, {})
        extra = sorted(set(r["violated"]) - set(b.get("violated", [])))
        if extra:
            new[p] = extra
        elif r.get("notes") and r.get("notes") != b.get("notes"):
            errors[p] = "; ".join(r["notes"])
    return new, errors
