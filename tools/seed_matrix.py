"""Re-evaluate every recorded seeded change against the current rules (scratch copies of /repo, analysis only)
and write seeded/MATRIX.md: which property checks report which seed."""
import glob
import json
import os
import sys
from multiprocessing import Pool

ROOT = os.path.dirname(os.path.dirname(os.path.abspath(__file__)))
sys.path.insert(0, ROOT)
from selftest import harness  # noqa: E402
from selftest.corpus import _run_patch_variant  # noqa: E402


def main():
    root = os.environ.get("VERIF_REPO", "/repo")
    base = harness.evaluate(root)
    metas = []
    for m in sorted(glob.glob(os.path.join(ROOT, "seeded", "*", "meta.json"))):
        metas.append(json.load(open(m)))
    jobs = [(root, m["id"], os.path.join(ROOT, "seeded", m["id"], "patch.diff"), None) for m in metas]
    with Pool(16) as pool:
        res = dict(pool.map(_run_patch_variant, jobs))
    lines = ["# Seeded changes vs. checks", "",
             "Each seed is a change to WilmerLab/mofun written by an independent sub-agent that saw only the property text and a scratch worktree.",
             "`own` = the check of the property the seed was written against reports it; `also` = other property checks that report it.",
             "Evaluated on scratch copies of the current /repo tree (analysis only).", "",
             "| seed | function | what changed | own check | reporting rule instances (own property) | also reported by |", "|---|---|---|---|---|---|"]
    n_own = 0
    missed = []
    for m in metas:
        r = res.get(m["id"])
        if r is None:
            lines.append("| %s | %s | %s | (patch does not apply to this tree) | | |" % (m["id"], m.get("function"), (m.get("what_changed") or "")[:90]))
            continue
        new, err = harness.diff_against(base, r)
        own = m["property"] in new
        n_own += own
        if not own:
            missed.append(m["id"])
        rules = ", ".join(sorted({k.split("|")[0] + ":" + k.split("|")[2][:40] for k in new.get(m["property"], [])})[:3])
        lines.append("| %s | %s | %s | %s | %s | %s |" % (
            m["id"], m.get("function"), (m.get("what_changed") or "").replace("|", "/").replace("\n", " ")[:110],
            "REPORTED" if own else ("analysis-error" if m["property"] in err else "**missed**"), rules.replace("|", "/"),
            " ".join(p for p in sorted(new) if p != m["property"])))
    lines += ["", "Seeds: %d; reported by their own property's check: %d; missed: %s" % (len(metas), n_own, missed or "none")]
    with open(os.path.join(ROOT, "seeded", "EXPECTED.json"), "w") as f:
        json.dump({"comment": "seeds reported by their own property's check on the confirmed tree; the thorough tier requires exactly these to stay reported",
                   "reported_by_own_check": sorted(m["id"] for m in metas if m["id"] not in missed and res.get(m["id"]) is not None)}, f, indent=1)
    with open(os.path.join(ROOT, "seeded", "MATRIX.md"), "w") as f:
        f.write("\n".join(lines) + "\n")
    print(lines[-1])


if __name__ == "__main__":
    main()
