"""Family A (part 1): ownership, typestate, guard and gate rules of the search / replace core."""
import ast

from .common import *  # noqa: F401,F403
from .common import (Ob, AnalysisError, call_name, dotted, kwarg, get_arg, names_in, expand, nf, nf_expanded, same,
                     contains_nf, calls_in, calls_named, method_calls_on, floor, norm_guards, loop_paths, fn_paths,
                     calls_at_node, const_value, PARAM, strip_not)
from verif_sa.dataflow import header_exprs

INPUT_FUNCS = {
    # function -> parameters that are caller-owned inputs and must not be mutated
    "find_pattern_in_structure": ["structure", "pattern"],
    "_get_positions_from_all_adjacent_unit_cells": ["structure"],
    "replace_pattern_in_structure": ["structure", "search_pattern", "replace_pattern"],
    "Atoms.replicate": ["self"],
    "Atoms.__getitem__": ["self"],
    "Atoms.copy": ["self"],
    "detect_bonds": ["structure"],
    "find_unchanged_atom_pairs": ["orig_structure", "final_structure"],
    "position_index_farthest_from_axis": ["axis", "atoms"],
    "group_duplicates": ["match_indices"],
}


def A1_inputs_not_mutated(repo, clause, only=None):
    """No mutator application on a value that may alias a caller-owned input."""
    eff = repo.effects
    obs = []
    for q, inputs in INPUT_FUNCS.items():
        if only is not None and q not in only:
            continue
        fn = repo.fn(q)
        for p in inputs:
            if p not in fn.params:
                raise AnalysisError("A1: %s no longer has parameter %s" % (q, p))
        fns = [fn] + [f for f in repo.all_fns() if f.outer is fn]
        napp = 0
        for f in fns:
            for a in eff.apps[f]:
                napp += 1
                bad = sorted(p for p in a.params() if p in inputs or (p.startswith("free:") and p[5:] in inputs))
                ok = not bad
                detail = ("%s on a FRESH value" % a.how) if ok else \
                    ("%s applied to a value that may alias the caller-owned input %s" % (a.how, ", ".join(bad)))
                obs.append(Ob("A1", clause, f, a.node, ok, detail,
                              construct=a.node if not isinstance(a.node, ast.Call) else a.node,
                              slot="%s:%s" % (a.how.split(" (")[0], ast.unparse(a.target)), positive=True))
        # summary obligation: the function's own effect summary must not include an input
        muts = sorted(p for p in eff.mut[fn] if p in inputs)
        obs.append(Ob("A1", clause, fn, fn.node, not muts,
                      "effect summary of %s: mutated parameters = %s (inputs %s; %d mutator applications inspected)"
                      % (q, sorted(eff.mut[fn]) or "{}", inputs, napp),
                      construct="def %s(...)" % fn.name, slot="summary", positive=True))
    return obs


def A2_copy_is_deep(repo, clause):
    fn = repo.fn("Atoms.copy")
    obs = []
    rets = [n for n in fn.own_nodes() if isinstance(n, ast.Return)]
    if not rets:
        raise AnalysisError("A2: Atoms.copy has no return")
    for r in rets:
        v = expand(fn, r.value) if r.value is not None else None
        ok = False
        detail = "returns %s" % (ast.unparse(v) if v is not None else None)
        if isinstance(v, ast.Call) and call_name(v) == "deepcopy" and v.args and isinstance(v.args[0], ast.Name) \
                and v.args[0].id == "self":
            imp = fn.module.imports
            f = v.func
            if isinstance(f, ast.Attribute) and isinstance(f.value, ast.Name) and imp.get(f.value.id, ("",))[0] == "copy":
                ok = True
            elif isinstance(f, ast.Name) and imp.get(f.id) == ("copy", "deepcopy"):
                ok = True
            detail = "returns copy.deepcopy(self): result shares no array with its source"
        elif isinstance(v, ast.Name) and v.id == "self":
            detail = "returns self: callers that mutate the 'copy' mutate their input"
        elif isinstance(v, ast.Call) and call_name(v) == "copy":
            detail = "returns a shallow copy: arrays are shared with the source"
        else:
            raise AnalysisError("A2: unrecognised shape of Atoms.copy return (%s); deep-copy cannot be decided" % detail)
        obs.append(Ob("A2", clause, fn, r, ok, detail, slot="return", positive=True))
    return obs


# ---- the per-match loop of replace_pattern_in_structure -------------------------------------------

class ReplaceLoop:
    """Semantic resolution of the constructs of replace_pattern_in_structure that several rules use."""

    def __init__(self, repo):
        self.repo = repo
        fn = self.fn = repo.fn("replace_pattern_in_structure")
        # the result structure: the receiver of .extend(...) calls and of the bulk delete
        ext = [c for c in calls_in(fn) if isinstance(c.func, ast.Attribute) and c.func.attr == "extend"
               and isinstance(c.func.value, ast.Name) and self._is_atoms_extend(c)]
        if not ext:
            raise AnalysisError("ReplaceLoop: no Atoms.extend call found in replace_pattern_in_structure")
        recvs = {c.func.value.id for c in ext}
        if len(recvs) != 1:
            raise AnalysisError("ReplaceLoop: extend is called on several receivers %s" % sorted(recvs))
        self.result = recvs.pop()
        self.extend_calls = ext
        loops = set()
        for c in ext:
            ls = [a for a in fn.ancestors(c) if isinstance(a, (ast.For, ast.While))]
            if not ls:
                raise AnalysisError("ReplaceLoop: an extend call is not inside the per-match loop")
            loops.add(ls[-1])  # outermost loop
        if len(loops) != 1:
            raise AnalysisError("ReplaceLoop: extend calls are spread over several loops")
        self.loop = loops.pop()
        # the inserted fragment variable
        frs = set()
        for c in ext:
            a = get_arg(c, ["other", "offsets", "structure_index_map", "verbose"], "other")
            if not isinstance(a, ast.Name):
                raise AnalysisError("ReplaceLoop: extend's fragment argument is not a local name")
            frs.add(a.id)
        self.raw_fragment_calls = []
        if len(frs) != 1:
            raw = {x for x in frs if x in fn.params}
            local = frs - raw
            if len(local) == 1 and raw:
                # one branch inserts the caller's pattern ITSELF (a parameter) instead of the per-match copy: judged by A3
                self.raw_fragment_calls = [c for c in ext if isinstance(get_arg(c, ["other", "offsets", "structure_index_map", "verbose"], "other"), ast.Name)
                                           and get_arg(c, ["other", "offsets", "structure_index_map", "verbose"], "other").id in raw]
                frs = local
            else:
                raise AnalysisError("ReplaceLoop: several fragment variables %s" % sorted(frs))
        self.fragment = frs.pop()
        # the find call and its three results
        fc = calls_named(fn, "find_pattern_in_structure")
        if len(fc) != 1:
            raise AnalysisError("ReplaceLoop: expected exactly one search call, found %d" % len(fc))
        self.find_call = fc[0]
        # bulk delete
        dels = []
        for n in fn.own_nodes():
            if isinstance(n, ast.Delete):
                for t in n.targets:
                    if isinstance(t, ast.Subscript) and isinstance(t.value, ast.Name) and t.value.id == self.result:
                        dels.append((n, t.slice))
            elif isinstance(n, ast.Call) and isinstance(n.func, ast.Attribute) and n.func.attr == "__delitem__" \
                    and isinstance(n.func.value, ast.Name) and n.func.value.id == self.result:
                dels.append((fn.stmt_of(n), n.args[0] if n.args else None))
        self.deletes = dels

    def _is_atoms_extend(self, c):
        # Atoms.extend takes an Atoms 'other'; list.extend calls in this function do not exist today.
        return True


def A3_fragment_typestate(repo, clause):
    """CREATE < ROTATE < TRANSLATE < WRAP < CONSUME on every path through the per-match loop, and the
    single bulk delete after the last insertion."""
    RL = ReplaceLoop(repo)
    fn, F, S = RL.fn, RL.fragment, RL.result
    obs = []
    for c_ in RL.raw_fragment_calls:
        obs.append(Ob("A3", clause, fn, c_, False,
                      "`%s` inserts the caller's replacement pattern ITSELF, not the per-match copy `%s` that was rotated, translated to the match and wrapped: the atoms land in the pattern's own frame" % (ast.unparse(c_)[:60], F),
                      slot="consume-raw-pattern", positive=True))

    def events(node):
        ev = []
        if isinstance(node, ast.Assign):
            for t in node.targets:
                if isinstance(t, ast.Name) and t.id == F:
                    v = node.value
                    if isinstance(v, ast.Call) and call_name(v) == "copy":
                        ev.append("CREATE")
                    else:
                        ev.append("REBIND")
                if isinstance(t, ast.Attribute) and t.attr == "positions" and isinstance(t.value, ast.Name) and t.value.id == F:
                    ev.append(_classify_position_store(fn, node, node.value, F))
        elif isinstance(node, ast.AugAssign):
            t = node.target
            if isinstance(t, ast.Attribute) and t.attr == "positions" and isinstance(t.value, ast.Name) and t.value.id == F:
                if isinstance(node.op, ast.Mod):
                    ev.append("WRAP")
                elif isinstance(node.op, (ast.Add, ast.Sub)):
                    ev.append("TRANSLATE")
                else:
                    ev.append("OTHERSTORE")
        for c in calls_at_node(node):
            if isinstance(c.func, ast.Attribute) and isinstance(c.func.value, ast.Name):
                if c.func.value.id == F and c.func.attr == "translate":
                    ev.append("TRANSLATE")
                elif c.func.value.id == F and c.func.attr in ("wrap", "wrap_positions"):
                    ev.append("WRAP")
                elif c.func.value.id == S and c.func.attr == "extend" and c in RL.extend_calls:
                    ev.append("CONSUME")
            # the fragment handed to a function of the package that modifies it: the callee's stores into that parameter are the events
            if isinstance(c.func, ast.Name) and any(isinstance(a_, ast.Name) and a_.id == F for a_ in c.args):
                callee = repo.maybe_fn(c.func.id)
                if callee is not None:
                    idx = [i_ for i_, a_ in enumerate(c.args) if isinstance(a_, ast.Name) and a_.id == F][0]
                    if idx < len(callee.params):
                        pn = callee.params[idx]
                        if pn in repo.effects.mut[callee]:
                            inner = set()
                            for n2 in callee.own_nodes():
                                if isinstance(n2, ast.Assign):
                                    for t2 in n2.targets:
                                        if isinstance(t2, ast.Attribute) and t2.attr == "positions" and isinstance(t2.value, ast.Name) and t2.value.id == pn:
                                            inner.add(_classify_position_store(callee, n2, n2.value, pn))
                                elif isinstance(n2, ast.AugAssign) and isinstance(n2.target, ast.Attribute) and n2.target.attr == "positions" \
                                        and isinstance(n2.target.value, ast.Name) and n2.target.value.id == pn:
                                    inner.add("WRAP" if isinstance(n2.op, ast.Mod) else ("TRANSLATE" if isinstance(n2.op, (ast.Add, ast.Sub)) else "OTHERSTORE"))
                            ev.append(inner.pop() if len(inner) == 1 else "HELPER(%s)" % c.func.id)
                elif not isinstance(c.func, ast.Attribute):
                    pass
        return ev

    paths = loop_paths(fn, RL.loop)
    want = ["CREATE", "ROTATE", "TRANSLATE", "WRAP", "CONSUME"]
    npaths = 0
    for path, end in paths:
        if end is fn.cfg.RAISE:
            # the refusal path: states up to the raise must still be a prefix-correct sequence
            pass
        seq = []
        for n in path:
            seq.extend(events(n))
        npaths += 1
        ok = seq == want
        last = path[-1] if path else RL.loop
        obs.append(Ob("A3", clause, fn, RL.loop, ok,
                      "path #%d through the per-match loop (ends at %s) drives the inserted fragment through %s; required %s"
                      % (npaths, "next iteration" if end is RL.loop else ("raise" if end is fn.cfg.RAISE else "loop exit"),
                         " < ".join(seq) or "(nothing)", " < ".join(want)),
                      construct="for ... in %s" % ast.unparse(RL.loop.iter), slot="path%d" % npaths,
                      # every event on the path is a recognised one and the fragment IS consumed, but not after create < rotate < translate < wrap: a wrong order or a missing step
                      positive=(not ok) and "CONSUME" in seq and set(seq) <= set(want)))
    floor("A3", "paths through the per-match loop", npaths, 2)
    # bulk delete: exactly one, outside any loop, after every insertion, on every path to the return
    cfg = fn.cfg
    if len(RL.deletes) != 1:
        obs.append(Ob("A3", clause, fn, fn.node, False,
                      "expected exactly one bulk deletion on the result structure, found %d" % len(RL.deletes),
                      construct="del %s[...]" % S, slot="bulk-delete-count"))
    for d, idx in RL.deletes:
        in_loop = any(isinstance(a, (ast.For, ast.While)) for a in fn.ancestors(d))
        before_insert = any(cfg.reaches(d, fn.stmt_of(c)) for c in RL.extend_calls)
        on_all_paths = cfg.postdominates(d, cfg.ENTRY)
        ok = (not in_loop) and (not before_insert) and on_all_paths
        obs.append(Ob("A3", clause, fn, d, ok,
                      "bulk delete: in loop=%s, an insertion is reachable after it=%s, on every path to a normal return=%s "
                      "(indices of matched atoms must stay valid until the last extend)" % (in_loop, before_insert, on_all_paths),
                      slot="bulk-delete"))
    # extend_types once, before the loop, its result feeds offsets= of every extend
    et = [c for c in calls_in(fn) if isinstance(c.func, ast.Attribute) and c.func.attr == "extend_types"]
    if len(et) != 1:
        raise AnalysisError("A3: expected one extend_types call, found %d" % len(et))
    et_stmt = fn.stmt_of(et[0])
    et_in_loop = any(isinstance(a, (ast.For, ast.While)) for a in fn.ancestors(et[0]))
    recv_ok = isinstance(et[0].func.value, ast.Name) and et[0].func.value.id == S
    obs.append(Ob("A3", clause, fn, et[0], (not et_in_loop) and recv_ok and cfg.dominates(et_stmt, RL.loop),
                  "type tables of the replacement are appended once (not per match), on the result structure, before the loop",
                  slot="extend_types-once"))
    for i, c in enumerate(RL.extend_calls):
        off = kwarg(c, "offsets")
        ok = False
        detail = "extend call passes no offsets: the pattern's type tables would be appended once per match"
        if off is not None:
            e = expand(fn, off)
            ok = isinstance(e, ast.Call) and call_name(e) == "extend_types"
            detail = "offsets=%s resolves to %s" % (ast.unparse(off), ast.unparse(e)[:60])
        obs.append(Ob("A3", clause, fn, c, ok, detail, slot="extend-offsets-%d" % i))
    return obs


def _classify_position_store(fn, stmt, value, F):
    e = expand(fn, value, stop_names=[F])
    has_mod = any(isinstance(n, ast.BinOp) and isinstance(n.op, ast.Mod) for n in ast.walk(e)) or \
        any(isinstance(n, ast.Call) and call_name(n) in ("mod", "remainder", "floor", "fmod", "wrap_positions") for n in ast.walk(e))
    if has_mod:
        return "WRAP"
    if isinstance(e, ast.Call) and call_name(e) == "apply":
        # <rotation>.apply(F.positions)
        if e.args and isinstance(e.args[0], ast.Attribute) and e.args[0].attr == "positions" \
                and isinstance(e.args[0].value, ast.Name) and e.args[0].value.id == F:
            return "ROTATE"
    if isinstance(e, ast.BinOp) and isinstance(e.op, (ast.Add, ast.Sub)):
        return "TRANSLATE"
    return "OTHERSTORE"


def A4_same_frame(repo, clause):
    """Both patterns are shifted by the same vector, read from the same version of the search pattern,
    and the anchor used for the final translation is the atom that was shifted to the origin."""
    RL = ReplaceLoop(repo)
    fn = RL.fn
    cfg = fn.cfg
    obs = []
    # which local holds the search pattern passed to the search call / the replacement copied per match
    fparams = repo.fn("find_pattern_in_structure").params
    sp = get_arg(RL.find_call, fparams, "pattern")
    if not isinstance(sp, ast.Name):
        raise AnalysisError("A4: search call's pattern argument is not a name")
    search = sp.id
    crt = None
    for n in fn.own_nodes():
        if isinstance(n, ast.Assign) and any(isinstance(t, ast.Name) and t.id == RL.fragment for t in n.targets) \
                and RL.loop in list(fn.ancestors(n)):
            v = n.value
            if isinstance(v, ast.Call) and call_name(v) == "copy" and isinstance(v.func, ast.Attribute) \
                    and isinstance(v.func.value, ast.Name):
                crt = v.func.value.id
    if crt is None:
        raise AnalysisError("A4: cannot find the per-match copy of the replacement pattern")
    replace = crt
    pre = [c for c in calls_in(fn) if isinstance(c.func, ast.Attribute) and c.func.attr == "translate"
           and isinstance(c.func.value, ast.Name) and c.func.value.id in (search, replace)
           and RL.loop not in list(fn.ancestors(c))]
    ts = [c for c in pre if c.func.value.id == search]
    tr = [c for c in pre if c.func.value.id == replace]
    if len(ts) != 1 or len(tr) != 1:
        obs.append(Ob("A4", clause, fn, fn.node, False,
                      "expected exactly one origin shift of the search pattern and one of the replacement pattern "
                      "before the search; found %d and %d" % (len(ts), len(tr)),
                      construct="%s.translate / %s.translate" % (search, replace), slot="pair"))
        return obs
    ts, tr = ts[0], tr[0]
    a_s, a_r = expand(fn, ts.args[0]), expand(fn, tr.args[0])
    eq = nf(a_s) == nf(a_r)
    # one snapshot local handed to both calls (`origin = search.positions[0].copy()`): expand() rightly refuses to look through it at the second call (the search pattern has been
    # moved in between), but the two arguments are the same VALUE when they are the same expression over locals with the same single definition
    def _snapshot_defs(arg):
        out = {}
        for x in ast.walk(arg):
            if isinstance(x, ast.Name) and isinstance(x.ctx, ast.Load) and x.id not in ("np", "numpy"):
                uv = fn.rd.unique_value(x)
                if uv is None:
                    return None
                out[x.id] = uv
        return out
    if not eq and nf(ts.args[0]) == nf(tr.args[0]):
        d1, d2 = _snapshot_defs(ts.args[0]), _snapshot_defs(tr.args[0])
        if d1 is not None and d2 is not None and d1.keys() == d2.keys() and all(d1[k_][0] is d2[k_][0] for k_ in d1):
            fresh = all(isinstance(v_[1], (ast.BinOp, ast.UnaryOp)) or (isinstance(v_[1], ast.Call) and call_name(v_[1]) in ("array", "copy", "negative")) for v_ in d1.values())
            if fresh:
                eq = True
                # judge the shape of the shift on the snapshot's own definition
                sub = {k_: v_[1] for k_, v_ in d1.items()}

                class _S(ast.NodeTransformer):
                    def visit_Name(self, node):
                        return sub.get(node.id, node) if isinstance(node.ctx, ast.Load) else node
                import copy as _copy
                a_s = _S().visit(_copy.deepcopy(ts.args[0]))
                a_r = a_s
    obs.append(Ob("A4", clause, fn, tr, eq,
                  "shift of replacement = %s, shift of search pattern = %s: %s"
                  % (ast.unparse(a_r), ast.unparse(a_s), "equal" if eq else "DIFFERENT vectors"), slot="equal-shift"))
    # the shift must be minus a position of the search pattern
    k = _origin_index(a_s, search)
    obs.append(Ob("A4", clause, fn, ts, k is not None,
                  "shift is the negated position of search-pattern atom %s" % (k if k is not None else "?(unrecognised)"),
                  slot="shift-shape"))
    # use-before-kill: the read of search.positions for the replacement's shift must not see the shifted search pattern
    def read_point(call):
        a = call.args[0]
        while isinstance(a, ast.UnaryOp) and isinstance(a.op, ast.USub) and isinstance(a.operand, ast.Name):
            a = a.operand       # `-origin`: the vector was read where `origin` was computed
        if isinstance(a, ast.Name):
            uv = fn.rd.unique_value(a)
            if uv is not None:
                dstmt, val = uv
                if isinstance(val, (ast.BinOp, ast.UnaryOp)) or (isinstance(val, ast.Call) and call_name(val) in ("array", "copy", "negative")):
                    return dstmt   # value computed (fresh array) at the definition
        return fn.stmt_of(call)
    rp_r = read_point(tr)
    ts_stmt = fn.stmt_of(ts)
    stale = (rp_r is not ts_stmt) and cfg.reaches(ts_stmt, rp_r)
    obs.append(Ob("A4", clause, fn, tr, not stale,
                  "the replacement's shift is read %s the search pattern is moved to the origin"
                  % ("AFTER (it then reads the already shifted pattern, i.e. a zero vector)" if stale else "before"),
                  slot="use-before-kill"))
    # both shifts happen before the search
    fstmt = fn.stmt_of(RL.find_call)
    for nm, c in (("search", ts), ("replacement", tr)):
        ok = cfg.dominates(fn.stmt_of(c), fstmt)
        obs.append(Ob("A4", clause, fn, c, ok, "origin shift of the %s pattern dominates the search call" % nm,
                      slot="shift-before-search-" + nm))
    # anchor constant agreement: final translate inside the loop uses atom_positions[k] with the same k
    loop_tr = [c for c in calls_in(fn) if isinstance(c.func, ast.Attribute) and c.func.attr == "translate"
               and isinstance(c.func.value, ast.Name) and c.func.value.id == RL.fragment]
    for c in loop_tr:
        a = expand(fn, c.args[0], stop_names=_loop_targets(RL.loop))
        kk = None
        if isinstance(a, ast.Subscript):
            kk = const_value(a.slice)
        ok = kk is not None and k is not None and kk == k
        obs.append(Ob("A4", clause, fn, c, ok,
                      "fragment is translated to matched position #%s; search pattern was shifted so that atom #%s is the origin"
                      % (kk, k), slot="anchor-index"))
    floor("A4", "obligations", len(obs), 6)
    return obs


def _loop_targets(loop):
    out = []
    for n in ast.walk(loop.target):
        if isinstance(n, ast.Name):
            out.append(n.id)
    return out


def _origin_index(shift, search):
    """-search.positions[k]  ->  k"""
    e = shift
    if isinstance(e, ast.UnaryOp) and isinstance(e.op, ast.USub):
        e = e.operand
    elif isinstance(e, ast.BinOp) and isinstance(e.op, ast.Mult):
        c = const_value(e.left) if const_value(e.left) is not None else const_value(e.right)
        if c != -1:
            return None
        e = e.right if const_value(e.left) is not None else e.left
    elif isinstance(e, ast.Call) and call_name(e) == "negative" and e.args:
        e = e.args[0]
    else:
        return None
    # a snapshot of the row: x.copy(), np.array(x), np.copy(x)
    while isinstance(e, ast.Call) and ((call_name(e) == "copy" and isinstance(e.func, ast.Attribute) and not e.args and not isinstance(e.func.value, ast.Name))
                                       or (call_name(e) in ("array", "copy", "asarray") and len(e.args) == 1 and isinstance(e.func, ast.Attribute)
                                           and isinstance(e.func.value, ast.Name) and e.func.value.id in ("np", "numpy"))):
        e = e.func.value if (call_name(e) == "copy" and not e.args) else e.args[0]
    if isinstance(e, ast.Subscript) and isinstance(e.value, ast.Attribute) and e.value.attr == "positions" \
            and isinstance(e.value.value, ast.Name) and e.value.value.id == search:
        return const_value(e.slice)
    return None


def A5_overlap_guard(repo, clause):
    RL = ReplaceLoop(repo)
    fn = RL.fn
    cfg = fn.cfg
    obs = []
    if len(RL.deletes) != 1:
        raise AnalysisError("A5: bulk delete not found")
    dstmt, didx = RL.deletes[0]
    # the running deletion set is the name that reaches the bulk delete
    names = [n.id for n in ast.walk(didx) if isinstance(n, ast.Name)] if didx is not None else []
    cand = [n for n in names if n not in ("list", "sorted", "set", "tuple", "np")]
    if len(cand) != 1:
        raise AnalysisError("A5: cannot identify the running deletion set in %s" % ast.unparse(dstmt))
    D = cand[0]
    # D must be initialised as a set
    inits = [n for n in fn.own_nodes() if isinstance(n, ast.Assign) and any(isinstance(t, ast.Name) and t.id == D for t in n.targets)]
    for i in inits:
        v = i.value
        ok = (isinstance(v, ast.Call) and call_name(v) == "set") or isinstance(v, (ast.Set, ast.SetComp))
        obs.append(Ob("A5", clause, fn, i, ok, "running deletion set is a set (each atom listed at most once in the bulk delete)",
                      slot="set-init", positive=isinstance(v, (ast.List, ast.ListComp, ast.Tuple)) or (isinstance(v, ast.Call) and call_name(v) in ("list", "tuple"))))
    # exception class
    exc = None
    for m in repo.modules.values():
        for st in m.tree.body:
            if isinstance(st, ast.ClassDef) and st.name == "AtomsShouldNotBeDeletedTwice":
                exc = st
    obs.append(Ob("A5", clause, fn, exc, exc is not None and any(dotted(b) in ("Exception",) for b in exc.bases),
                  "dedicated exception class AtomsShouldNotBeDeletedTwice(Exception) is defined", construct="class AtomsShouldNotBeDeletedTwice",
                  slot="exception-class"))
    # updates of D
    updates = []
    for n in fn.own_nodes():
        if isinstance(n, ast.AugAssign) and isinstance(n.target, ast.Name) and n.target.id == D:
            updates.append((n, n.value))
        elif isinstance(n, ast.Call) and isinstance(n.func, ast.Attribute) and n.func.attr in ("update", "add") \
                and isinstance(n.func.value, ast.Name) and n.func.value.id == D:
            updates.append((fn.stmt_of(n), n.args[0] if n.args else None))
        elif isinstance(n, ast.Assign) and n not in inits and any(isinstance(t, ast.Name) and t.id == D for t in n.targets):
            updates.append((n, n.value))
    in_loop = [(u, v) for (u, v) in updates if RL.loop in list(fn.ancestors(u))]
    out_loop = [(u, v) for (u, v) in updates if RL.loop not in list(fn.ancestors(u))]
    floor("A5", "updates of the running deletion set inside the match loop", len(in_loop), 1)
    flag_params = set(fn.params)

    def _unset(e):
        e = expand(fn, e)
        while isinstance(e, ast.Call) and call_name(e) in ("set", "frozenset", "list", "tuple") and len(e.args) == 1:
            e = expand(fn, e.args[0])
        return nf(e)

    def truth_table(guards, L):
        """Truth table of the conjunction of guards over the atoms (DISJOINT(D, L), FLAG); None if another atom occurs."""
        import itertools as _it
        flags_seen = set()

        def ev(t, env):
            if isinstance(t, ast.BoolOp):
                vals = [ev(v, env) for v in t.values]
                if any(v is None for v in vals):
                    return None
                return all(vals) if isinstance(t.op, ast.And) else any(vals)
            if isinstance(t, ast.UnaryOp) and isinstance(t.op, ast.Not):
                v = ev(t.operand, env)
                return None if v is None else (not v)
            other = _disjoint_other(t, D)
            if other is not None:
                if _unset(other) == _unset(L):
                    return env["D"]
                return None
            if isinstance(t, ast.Name) and t.id in flag_params:
                flags_seen.add(t.id)
                return env["F"]
            # `D & L` truthiness / len(D & L) > 0 style overlap tests
            if isinstance(t, ast.BinOp) and isinstance(t.op, ast.BitAnd):
                names = {ast.unparse(t.left), ast.unparse(t.right)}
                if D in names and any(_unset(x) == _unset(L) for x in (t.left, t.right)):
                    return not env["D"]
            return None
        table = {}
        for d, f in _it.product([True, False], repeat=2):
            env = {"D": d, "F": f}
            val = True
            for t, pol, kind in guards:
                v = ev(t, env)
                if v is None:
                    return None, flags_seen
                val = val and (v == pol)
            table[(d, f)] = val
        return table, flags_seen

    want_update = {(d, f): (d or f) for d in (True, False) for f in (True, False)}
    want_update_noflag = {(d, f): d for d in (True, False) for f in (True, False)}
    want_raise = {k: not v for k, v in want_update.items()}
    want_raise_noflag = {k: not v for k, v in want_update_noflag.items()}
    guard_ifs = []
    Ls = []
    for u, v in in_loop:
        L = v
        Ls.append(L)
        gs = [g for g in norm_guards(fn, u, stop=RL.loop)]
        rel = [g for g in gs if any(isinstance(x, ast.Name) and x.id == D for x in ast.walk(g[0])) or
               (isinstance(g[0], ast.Name) and g[0].id in flag_params) or any(isinstance(x, ast.Name) and x.id in flag_params and x.id.startswith("ignore") for x in ast.walk(g[0]))]
        table, flags = truth_table(rel, L)
        has_ignore_flag = any(x.startswith("ignore") for x in fn.params)
        ok = table is not None and rel != [] and (table == want_update or (table == want_update_noflag and not has_ignore_flag))
        flag_dropped = table is not None and rel != [] and table == want_update_noflag and has_ignore_flag
        if table is None:
            detail = "update of %s is guarded by %s, which is not a test of disjointness between %s and the set that is added (%s)" % (
                D, [ast.unparse(t) for t, p, k in rel] or "nothing", D, ast.unparse(L))
        elif not rel:
            detail = "update of %s is not guarded by a disjointness test against this match's deletion set" % D
        else:
            detail = "update executes exactly when (%s is disjoint from the set that is added) OR the ignore flag is set: %s (guards: %s)" % (
                D, ok, [("" if p else "not ") + ast.unparse(t)[:70] for t, p, k in rel])
            if flag_dropped:
                detail += " -- the function HAS an ignore flag, but with the flag set an overlapping match does not schedule its own atoms for deletion: the replacement is inserted on top of atoms that stay in the structure"
        obs.append(Ob("A5", clause, fn, u, ok, detail, slot="guarded-update", positive=flag_dropped))
        # this match's deletion set = set(match) - set(retained.values())
        Le = expand(fn, L)
        if isinstance(Le, ast.Call) and call_name(Le) == "set" and len(Le.args) == 1:
            Le = expand(fn, Le.args[0])
        shape_ok = False
        retained = None
        detail = "this match's deletion set is %s" % ast.unparse(Le)
        if isinstance(Le, ast.BinOp) and isinstance(Le.op, ast.Sub):
            l, r = Le.left, Le.right
            if isinstance(l, ast.Call) and call_name(l) == "set" and isinstance(r, ast.Call) and call_name(r) == "set" and r.args:
                rv = r.args[0]
                if isinstance(rv, ast.Call) and isinstance(rv.func, ast.Attribute) and rv.func.attr == "values" \
                        and isinstance(rv.func.value, ast.Name):
                    retained = rv.func.value.id
                    shape_ok = True
                    detail += " = matched atoms minus the atoms retained through %s" % retained
        obs.append(Ob("A5", clause, fn, u, shape_ok, detail, slot="deletion-set-shape"))
        # the retained-atom map of a match is the full unchanged-pairs map: filtering it by what earlier matches removed turns a retained atom into a "removed" one
        if retained is not None:
            for d_ in fn.own_nodes():
                if isinstance(d_, ast.Assign) and isinstance(d_.value, ast.DictComp) and any(isinstance(t_, ast.Name) and t_.id == retained for t_ in d_.targets):
                    ifs_ = [c_ for g_ in d_.value.generators for c_ in g_.ifs]
                    bad_ = [c_ for c_ in ifs_ if any(isinstance(y, ast.Name) and y.id == D for y in ast.walk(c_))]
                    obs.append(Ob("A5", clause, fn, d_, not ifs_,
                                  "retained-atom map `%s` %s" % (retained, "maps every unchanged pattern atom of the match" if not ifs_ else (
                                      "is FILTERED by the running deletion set (`%s`): an atom retained by this match but removed by an earlier one is then counted as removed by this match as well, and the overlap error fires although nothing is removed twice" % ast.unparse(bad_[0])[:60]
                                      if bad_ else "is filtered by `%s`" % ast.unparse(ifs_[0])[:50])),
                                  slot="retained-map-unfiltered", positive=bool(bad_), undecided=bool(ifs_) and not bad_))
        if retained is not None:
            obs.extend(_A5_same_map(fn, RL, retained, u, clause))
    # the refusal: raised exactly when the update would not happen, and it cannot reach a normal return
    raises = [n for n in fn.own_nodes() if isinstance(n, ast.Raise) and n.exc is not None
              and "AtomsShouldNotBeDeletedTwice" in ast.unparse(n.exc)]
    if not raises:
        obs.append(Ob("A5", clause, fn, RL.loop, False,
                      "the match loop never raises the dedicated overlap error: overlapping deletions are not refused",
                      construct="raise AtomsShouldNotBeDeletedTwice()", slot="raise", positive=True))
    for r in raises:
        gs = [g for g in norm_guards(fn, r, stop=RL.loop)]
        rel = [g for g in gs if any(isinstance(x, ast.Name) and x.id == D for x in ast.walk(g[0])) or
               any(isinstance(x, ast.Name) and x.id in flag_params and x.id.startswith("ignore") for x in ast.walk(g[0]))]
        neg = False
        for L in Ls:
            table, flags = truth_table(rel, L)
            if table is not None and rel and (table == want_raise or table == want_raise_noflag):
                neg = True
        in_handler = any(isinstance(a, ast.Try) for a in fn.ancestors(r))
        ok = neg and not in_handler and RL.loop in list(fn.ancestors(r))
        obs.append(Ob("A5", clause, fn, r, ok,
                      "raise is taken exactly when the running set overlaps this match's deletion set and the ignore flag is off=%s (guards: %s), "
                      "not inside a try/handler of this function=%s" % (neg, [("" if p else "not ") + ast.unparse(t)[:60] for t, p, k in rel], not in_handler), slot="raise"))
    # no handler in the function swallows it
    tries = [n for n in fn.own_nodes() if isinstance(n, ast.Try)]
    obs.append(Ob("A5", clause, fn, fn.node, not tries, "the function has no try/except that could swallow the refusal",
                  construct="def replace_pattern_in_structure", slot="no-handler"))
    # empty-replacement branch: plain union, cannot raise
    for u, v in out_loop:
        gs = norm_guards(fn, u)
        obs.append(Ob("A5", clause, fn, u, True,
                      "update outside the match loop (empty-replacement branch) is a plain set union under %s"
                      % [ast.unparse(t) for t, p, k in gs], slot="plain-union"))
    return obs


def _or_parts(t):
    if isinstance(t, ast.BoolOp) and isinstance(t.op, ast.Or):
        return list(t.values)
    if isinstance(t, (ast.Call, ast.Compare, ast.Name)):
        return [t]
    return None


def _demorgan_parts(t):
    """``not A and not B`` / ``overlap and not flag`` with polarity False == (A or B) true."""
    if isinstance(t, ast.BoolOp) and isinstance(t.op, ast.And):
        parts = []
        for v in t.values:
            if isinstance(v, ast.UnaryOp) and isinstance(v.op, ast.Not):
                parts.append(v.operand)
            else:
                return None
        return parts
    return None


def _is_disjoint_test(fn, p, D):
    return _disjoint_other(p, D) is not None


def _disjoint_other(p, D):
    """Recognise a disjointness test involving the set named D; return the other operand."""
    if isinstance(p, ast.Call) and isinstance(p.func, ast.Attribute) and p.func.attr == "isdisjoint" and p.args:
        a, b = p.func.value, p.args[0]
        if isinstance(a, ast.Name) and a.id == D:
            return b
        if isinstance(b, ast.Name) and b.id == D:
            return a
    if isinstance(p, ast.Compare) and len(p.ops) == 1 and isinstance(p.ops[0], ast.Eq) and const_value(p.comparators[0]) == 0:
        l = p.left
        if isinstance(l, ast.Call) and call_name(l) == "len" and l.args and isinstance(l.args[0], ast.BinOp) \
                and isinstance(l.args[0].op, ast.BitAnd):
            a, b = l.args[0].left, l.args[0].right
            if isinstance(a, ast.Name) and a.id == D:
                return b
            if isinstance(b, ast.Name) and b.id == D:
                return a
    return None


def _A5_same_map(fn, RL, M, upd_stmt, clause):
    """Per path through the loop body: the retained-atom map excluded from deletion is the very map
    handed to extend (or extend gets no map and the excluded map is the empty dict)."""
    obs = []
    paths = loop_paths(fn, RL.loop)
    k = 0
    for path, end in paths:
        cur = None
        at_extend = []
        at_L = None
        for n in path:
            if isinstance(n, ast.Assign) and any(isinstance(t, ast.Name) and t.id == M for t in n.targets):
                cur = n
            for c in calls_at_node(n):
                if c in RL.extend_calls:
                    a = kwarg(c, "structure_index_map")
                    if a is None and len(c.args) >= 3:
                        a = c.args[2]
                    at_extend.append((c, a, cur))
            if n is upd_stmt or _defines_from(fn, n, upd_stmt, M):
                at_L = cur if at_L is None else at_L
        # where is L evaluated?  the statement that reads M.values()
        for n in path:
            if any(isinstance(x, ast.Call) and isinstance(x.func, ast.Attribute) and x.func.attr == "values"
                   and isinstance(x.func.value, ast.Name) and x.func.value.id == M for e in header_exprs(n) for x in ast.walk(e)):
                at_L = _last_def_before(path, n, M)
        if not at_extend:
            continue
        k += 1
        for c, a, d in at_extend:
            if a is None:
                empty = at_L is not None and isinstance(at_L.value, ast.Dict) and not at_L.value.keys
                ok = empty
                detail = "extend without identity map; map excluded from deletion on this path is %s" % (
                    "the empty dict (every matched atom is deleted)" if empty else "NOT empty: atoms are kept but re-inserted")
            else:
                ok = isinstance(a, ast.Name) and a.id == M and d is at_L
                detail = "extend(structure_index_map=%s) and the deletion set use %s version of the retained-atom map" % (
                    ast.unparse(a), "the same" if ok else "DIFFERENT")
            obs.append(Ob("A5", clause, fn, c, ok, detail, slot="same-map-path%d" % k))
    floor("A5", "paths with an insertion", k, 2)
    return obs


def _defines_from(fn, n, upd, M):
    return False


def _last_def_before(path, node, M):
    cur = None
    for n in path:
        if n is node:
            return cur
        if isinstance(n, ast.Assign) and any(isinstance(t, ast.Name) and t.id == M for t in n.targets):
            cur = n
    return cur


CLOSENESS = {"isclose", "allclose"}


def _anchor_at_origin(fn, clause):
    """The pose check rebuilds the expected positions as rotation.apply(pattern.positions) + position of the matched anchor atom: that presupposes that the pattern's
    own anchor atom (the first axis point) sits at the origin.  The statement that moves it there - pattern.translate(-pattern.positions[<anchor>]) - must be executed on
    EVERY path that reaches the pose check (dominance on the statement CFG), whatever the size of the pattern."""
    obs = []
    trs = []
    for st in fn.own_nodes():
        if isinstance(st, ast.Expr) and isinstance(st.value, ast.Call) and isinstance(st.value.func, ast.Attribute) and st.value.func.attr == "translate" and st.value.args \
                and isinstance(st.value.func.value, ast.Name) and st.value.func.value.id in fn.params:
            a0 = st.value.args[0]
            if isinstance(a0, ast.UnaryOp) and isinstance(a0.op, ast.USub) and isinstance(a0.operand, ast.Subscript) and ast.unparse(a0.operand.value) == "%s.positions" % st.value.func.value.id:
                trs.append(st)
    checks = [c for c in fn.own_nodes() if isinstance(c, ast.Call) and call_name(c) in ("allclose", "positions_are_unchanged", "isclose")
              and len([a for a in fn.ancestors(c) if isinstance(a, ast.For)]) >= 2 and any(isinstance(x, ast.Attribute) and x.attr == "positions" for x in ast.walk(expand(fn, c)))]
    if len(trs) != 1 or not checks:
        return obs
    tr = trs[0]
    for c in checks[:1]:
        st_c = fn.stmt_of(c)
        ok = fn.cfg.dominates(tr, st_c)
        gs = [ast.unparse(t)[:40] for t, pol, k in norm_guards(fn, tr)]
        obs.append(Ob("A6", clause, fn, tr, ok,
                      "`%s` (the pattern's anchor atom moved to the origin) %s" % (
                          ast.unparse(tr)[:60], "is executed on every path to the pose check" if ok else
                          "is executed only under %s, but the pose check `%s` is reached without it too: for the patterns the guard excludes the expected positions are built from an "
                          "un-anchored pattern and a genuine copy is rejected (or found only where the anchor happens to sit at the origin)" % (gs, ast.unparse(st_c)[:50])),
                      slot="anchor-at-origin", positive="robust" if not ok else False))
    return obs


def A6_rotation_gate(repo, clause):
    fn = repo.fn("find_pattern_in_structure")
    cfg = fn.cfg
    obs = _anchor_at_origin(fn, clause)
    # the checked copy: X = <pattern copy>.copy() inside the candidate loop, whose positions are rotated with .apply
    chk = None
    for n in fn.own_nodes():
        if isinstance(n, ast.Assign) and len(n.targets) == 1 and isinstance(n.targets[0], ast.Name) and isinstance(n.value, ast.Call) \
                and call_name(n.value) == "copy" and len([a for a in fn.ancestors(n) if isinstance(a, ast.For)]) >= 2:
            chk = n.targets[0].id
    # ... or, without a copy, the rotated pattern positions as a plain array: <rotation>.apply(pattern.positions) + origin
    rotated_exprs = chk is None and any(isinstance(x, ast.Call) and isinstance(x.func, ast.Attribute) and x.func.attr == "apply" for x in fn.own_nodes())
    if chk is None and not rotated_exprs:
        raise AnalysisError("A6: per-candidate copy of the pattern (rotation re-check) not found in find_pattern_in_structure")
    if chk is None:
        chk = "<rotated pattern positions>"

    def mentions_chk(e):
        ee = expand(fn, e, stop_names=[chk])
        if rotated_exprs:
            return any(isinstance(x, ast.Call) and call_name(x) in CLOSENESS for x in ast.walk(ee)) and \
                any(isinstance(x, ast.Call) and isinstance(x.func, ast.Attribute) and x.func.attr == "apply" for x in ast.walk(ee))
        return any(isinstance(x, ast.Attribute) and x.attr == "positions" and isinstance(x.value, ast.Name) and x.value.id == chk
                   for x in ast.walk(ee))
    # accepted list: appends guarded (positively) by a test that reads the checked copy's positions
    acc = []
    gate = None
    for c in calls_in(fn):
        if isinstance(c.func, ast.Attribute) and c.func.attr == "append" and isinstance(c.func.value, ast.Name):
            for t, pol, kind in norm_guards(fn, c):
                if pol and mentions_chk(t):
                    acc.append(c)
                    gate = t
    if len(acc) == 0:
        return [Ob("A6", clause, fn, fn.node, False,
                   "no candidate acceptance is control-dependent on a comparison with the rotated+translated pattern copy `%s`: "
                   "matches are reported without passing the rotation re-check" % chk, construct="if <re-check>: accepted.append(...)", slot="gated-append", positive=True)]
    if len(acc) != 1:
        raise AnalysisError("A6: expected one append gated by the rotation re-check, found %d" % len(acc))
    # the re-check must be IMPLIED by the acceptance test: in `a or <re-check>` it is only one alternative - whenever `a` holds the candidate is accepted unchecked
    if isinstance(gate, ast.BoolOp) and isinstance(gate.op, ast.Or):
        others = [v for v in gate.values if not mentions_chk(v)]

        def small_pattern_only(v):
            try:
                v = expand(fn, v)
            except Exception:
                pass
            if isinstance(v, ast.Compare) and len(v.ops) == 1 and isinstance(v.left, ast.Call) and call_name(v.left) == "len" and isinstance(const_value(v.comparators[0]), int):
                k_ = const_value(v.comparators[0])
                return (isinstance(v.ops[0], ast.LtE) and k_ <= 2) or (isinstance(v.ops[0], ast.Lt) and k_ <= 3)
            return False
        free = [v for v in others if not small_pattern_only(v)]
        if free:
            obs.append(Ob("A6", clause, fn, gate, False,
                          "the rotation re-check is only ONE ALTERNATIVE of the acceptance test `%s`: whenever `%s` holds, a candidate is accepted without being compared with the rotated pattern "
                          "(a bent copy of a linear three-atom pattern, a mirror image, any candidate whose pair distances merely match)" % (ast.unparse(gate)[:90], ast.unparse(free[0])[:50]),
                          slot="gate-not-implied", positive="robust"))
    G = acc[0].func.value.id
    inner = [a for a in fn.ancestors(acc[0]) if isinstance(a, ast.For)]
    if len(inner) < 2:
        raise AnalysisError("A6: accepted-list append is not inside the candidate loop of a group loop")
    cand_loop, group_loop = inner[0], inner[1]
    # every append to G is gated
    from .common import implied_min_len
    for c in method_calls_on(fn, G, "append"):
        gs_c = norm_guards(fn, c, stop=group_loop)
        gated = any(pol and t is gate for t, pol, k in gs_c)
        # a bypass of the re-check for SMALL patterns: two atoms always rotate into place once their distance matches; three atoms do not (a bent copy of a
        # linear pattern has all pair distances within tolerance and the middle atom off the line)
        bypass = None
        if not gated:
            for t, pol, k in gs_c:
                if isinstance(t, ast.Compare) and len(t.ops) == 1:
                    # upper bound on a length: len(x) <= k / len(x) < k taken positively
                    l_, r_, op_ = t.left, t.comparators[0], type(t.ops[0])
                    if isinstance(l_, ast.Call) and call_name(l_) == "len" and isinstance(const_value(r_), int) and pol and op_ in (ast.LtE, ast.Lt):
                        bypass = const_value(r_) if op_ is ast.LtE else const_value(r_) - 1
        obs.append(Ob("A6", clause, fn, c, gated or (bypass is not None and bypass <= 2),
                      ("append to the accepted list %s is %scontrol-dependent on the rotation re-check %s" % (G, "" if gated else "NOT ", ast.unparse(gate)[:70])) if bypass is None else
                      ("candidates of patterns with up to %d atoms are accepted WITHOUT the rotation re-check%s" % (
                          bypass, "" if bypass <= 2 else ": three atoms with matching pair distances need not rotate into place within the tolerance (a bent copy of a linear pattern passes)")),
                      slot="gated-append", positive="robust" if (bypass is not None and bypass > 2) else False))
    # the re-check is a closeness test with the caller's tolerance, on quantities of the same length dimension
    ge = expand(fn, gate, stop_names=[chk])
    from .common import length_degree
    tol_ok = False
    tol_positive = False
    tol_detail = "no tolerance found in the re-check"
    closeness_calls = [x for x in ast.walk(ge) if isinstance(x, ast.Call) and call_name(x) in CLOSENESS]
    if closeness_calls:
        cc = closeness_calls[0]
        tol = kwarg(cc, "atol")
        tol_ok = tol is not None and isinstance(tol, ast.Name) and tol.id == "atol" and "atol" in fn.params
        tol_detail = "closeness call with atol=%s" % (ast.unparse(tol) if tol is not None else "(library default; positional tolerance is rtol)")
        tol_positive = not tol_ok
    else:
        cmps = [x for x in ast.walk(ge) if isinstance(x, ast.Compare) and len(x.ops) == 1 and isinstance(x.ops[0], (ast.Lt, ast.LtE, ast.Gt, ast.GtE))]
        for x in cmps:
            sides = [x.left, x.comparators[0]]
            tside = [sd for sd in sides if any(isinstance(y, ast.Name) and y.id == "atol" for y in ast.walk(sd))]
            oside = [sd for sd in sides if sd not in tside]
            if len(tside) == 1 and len(oside) == 1:
                dt, do = length_degree(fn, tside[0]), length_degree(fn, oside[0])
                upper = (x.left is oside[0] and isinstance(x.ops[0], (ast.Lt, ast.LtE))) or (x.left is tside[0] and isinstance(x.ops[0], (ast.Gt, ast.GtE)))
                tol_ok = dt is not None and do is not None and dt == do and upper
                tol_detail = "comparison `%s`: deviation has length dimension %s, tolerance side has %s (must agree), upper bound=%s" % (ast.unparse(x)[:70], do, dt, upper)
                tol_positive = dt is not None and do is not None and dt != do
    obs.append(Ob("A6", clause, fn, gate, tol_ok, "rotation re-check uses the caller's absolute tolerance: %s" % tol_detail, slot="gate-tolerance", positive=tol_positive))
    # the tolerance bounds EVERY coordinate deviation: an aggregate over the atoms (norm / mean / sum of the whole difference, possibly divided by the atom count)
    # lets one atom deviate by up to sqrt(n) or n times the tolerance; differences of consecutive atoms let errors accumulate along the pattern
    if not closeness_calls:
        agg = [x for x in ast.walk(ge) if isinstance(x, ast.Call) and call_name(x) in ("norm", "mean", "average", "sum", "std", "median")
               and not kwarg(x, "axis") and any(isinstance(y, ast.BinOp) and isinstance(y.op, ast.Sub) for a_ in x.args for y in ast.walk(a_))]
        reduced_by_max = any(isinstance(x, ast.Call) and call_name(x) in ("max", "amax", "all") for x in ast.walk(ge))
        if agg and not reduced_by_max:
            obs.append(Ob("A6", clause, fn, gate, False,
                          "the re-check bounds an AGGREGATE of all deviations (`%s`), not each deviation: a single atom may be off by far more than the tolerance (up to sqrt(n) x atol for an RMS) and a mirror image of a large, nearly flat pattern passes" % ast.unparse(agg[0])[:70],
                          slot="gate-elementwise", positive=True))
    else:
        cc = closeness_calls[0]
        diffs = [a_ for a_ in cc.args[:2] if isinstance(a_, ast.Call) and call_name(a_) in ("diff", "ediff1d", "gradient")]
        if len(diffs) == 2:
            obs.append(Ob("A6", clause, fn, gate, False,
                          "the re-check compares DIFFERENCES of consecutive atoms (`%s`), not positions: each step may be off by the tolerance, so the error accumulates along the pattern and a bowed chain passes" % ast.unparse(cc)[:70],
                          slot="gate-elementwise", positive=True))
    # G is local to one group (initialised inside the group loop, outside the candidate loop)
    ginit = [n for n in fn.own_nodes() if isinstance(n, ast.Assign) and any(isinstance(t, ast.Name) and t.id == G for t in n.targets)]
    ok = bool(ginit) and all(group_loop in list(fn.ancestors(n)) and cand_loop not in list(fn.ancestors(n)) for n in ginit)
    obs.append(Ob("A6", clause, fn, ginit[0] if ginit else fn.node, ok,
                  "accepted list is reset per atom group (inside the group loop, outside the candidate loop)", slot="per-group-reset"))
    # the rotation list is reset per group as well (it is indexed by the candidate number of THIS group)
    rl_candidates = {c.func.value.id for c in calls_in(fn) if isinstance(c.func, ast.Attribute) and c.func.attr == "append" and isinstance(c.func.value, ast.Name)
                     and cand_loop in list(fn.ancestors(c)) and c.func.value.id != G}
    for rl in sorted(rl_candidates):
        rinit = [n for n in fn.own_nodes() if isinstance(n, ast.Assign) and any(isinstance(t, ast.Name) and t.id == rl for t in n.targets)]
        okr = bool(rinit) and all(group_loop in list(fn.ancestors(n)) and cand_loop not in list(fn.ancestors(n)) for n in rinit)
        obs.append(Ob("A6", clause, fn, rinit[0] if rinit else fn.node, okr,
                      "per-candidate list `%s` is reset per atom group (its entries are addressed by the candidate number within the group)" % rl,
                      slot="per-group-reset:%s" % rl, positive=bool(rinit)))
    # appended value is the enumerate index of the candidate loop
    idxname = None
    it = cand_loop.iter
    if isinstance(it, ast.Call) and call_name(it) == "enumerate" and isinstance(cand_loop.target, ast.Tuple) \
            and isinstance(cand_loop.target.elts[0], ast.Name):
        idxname = cand_loop.target.elts[0].id
        cands = it.args[0]
    else:
        raise AnalysisError("A6: candidate loop is not an enumerate loop")
    v = acc[0].args[0]
    obs.append(Ob("A6", clause, fn, acc[0], isinstance(v, ast.Name) and v.id == idxname,
                  "accepted list stores the candidate number of the enumerate loop over %s" % ast.unparse(cands), slot="accepted-is-candidate-index"))
    # gate operands: the candidate's own image positions vs. the checked copy's positions
    allp = _all_positions_name(fn)
    ge2 = expand(fn, gate, stop_names=[chk, idxname])
    uses_all = any(isinstance(n, ast.Subscript) and isinstance(n.value, ast.Name) and n.value.id == allp for n in ast.walk(ge2))
    obs.append(Ob("A6", clause, fn, gate, uses_all,
                  "re-check compares the candidate's own image positions (from %s) with the rotated+translated pattern copy %s.positions"
                  % (allp, chk), slot="gate-operands"))
    # pattern copy: chk = <pattern>.copy() ; chk.positions = q.apply(chk.positions) ; chk.translate(cand[k])
    body_paths = loop_paths(fn, cand_loop)
    rotq = None
    npth = 0
    qapp = 0
    rot_list = None
    for c in calls_in(fn):
        if isinstance(c.func, ast.Attribute) and c.func.attr == "append" and isinstance(c.func.value, ast.Name) \
                and cand_loop in list(fn.ancestors(c)) and c.func.value.id != G:
            rot_list = c.func.value.id if rot_list is None else rot_list
    if rot_list is None:
        raise AnalysisError("A6: rotation list append not found in the candidate loop")
    for path, end in body_paths:
        npth += 1
        seq = []
        qdefs_at_rot = None
        qdefs_at_append = None
        n_rot_append = 0
        for n in path:
            if isinstance(n, ast.Assign):
                for t in n.targets:
                    if isinstance(t, ast.Name) and t.id == chk:
                        seq.append("CREATE" if isinstance(n.value, ast.Call) and call_name(n.value) == "copy" else "REBIND")
                    if isinstance(t, ast.Attribute) and t.attr == "positions" and isinstance(t.value, ast.Name) and t.value.id == chk:
                        kind = _classify_position_store(fn, n, n.value, chk)
                        seq.append(kind)
                        if kind == "ROTATE":
                            rcall = expand(fn, n.value)
                            if isinstance(rcall.func.value, ast.Name):
                                qdefs_at_rot = frozenset(map(id, fn.rd.defs_at(n, rcall.func.value.id)))
                                rotq = rcall.func.value.id
            for c in calls_at_node(n):
                if isinstance(c.func, ast.Attribute) and isinstance(c.func.value, ast.Name):
                    if c.func.value.id == chk and c.func.attr == "translate":
                        seq.append("TRANSLATE")
                    if c.func.value.id == rot_list and c.func.attr == "append":
                        n_rot_append += 1
                        if c.args and isinstance(c.args[0], ast.Name):
                            qdefs_at_append = (c.args[0].id, frozenset(map(id, fn.rd.defs_at(n, c.args[0].id))))
            if isinstance(n, ast.stmt) and not (isinstance(n, ast.Assign) and any(isinstance(t, ast.Attribute) and t.attr == "positions" for t in n.targets)):
                if any(isinstance(x, ast.Attribute) and x.attr == "positions" and isinstance(x.value, ast.Name) and x.value.id == chk
                       and isinstance(x.ctx, ast.Load) for e2 in header_exprs(n) for x in ast.walk(e2)):
                    if not seq or seq[-1] != "CHECK":
                        seq.append("CHECK")
        want = ["CREATE", "ROTATE", "TRANSLATE", "CHECK"]
        obs.append(Ob("A6", clause, fn, cand_loop, seq == want,
                      "candidate-loop path #%d: checked copy goes through %s (required %s)" % (npth, " < ".join(seq), " < ".join(want)),
                      construct="for ... in %s" % ast.unparse(cand_loop.iter), slot="chk-typestate-path%d" % npth,
                      positive=seq != want and "CHECK" in seq and set(seq) <= set(want)))
        okq = n_rot_append == 1 and qdefs_at_append is not None and rotq is not None and qdefs_at_append[0] == rotq \
            and qdefs_at_append[1] == qdefs_at_rot
        obs.append(Ob("A6", clause, fn, cand_loop, okq,
                      "candidate-loop path #%d: rotation list gets exactly one entry (%d) and it is the rotation applied to the checked copy"
                      % (npth, n_rot_append), construct="%s.append(...)" % rot_list, slot="rotation-list-path%d" % npth))
    floor("A6", "paths through the candidate loop", npth, 2)
    # translate of the checked copy goes to candidate[k], k = the pattern atom that was moved to the origin
    tcalls = method_calls_on(fn, chk, "translate")
    pat_shift = [c for c in calls_in(fn) if isinstance(c.func, ast.Attribute) and c.func.attr == "translate"
                 and isinstance(c.func.value, ast.Name) and c.func.value.id != chk and group_loop not in list(fn.ancestors(c))]
    if len(pat_shift) != 1 or len(tcalls) != 1:
        obs.append(Ob("A6", clause, fn, fn.node, False, "origin shift of the pattern / translate of the checked copy not found uniquely (the re-check is not written with a translated copy)",
                      construct="chk.translate(candidate[k])", slot="anchor-agreement", undecided=True))
        return obs
    ps = pat_shift[0]
    pname = ps.func.value.id
    k1 = _shift_index_expr(ps.args[0], pname)
    ta = tcalls[0].args[0]
    k2 = ta.slice if isinstance(ta, ast.Subscript) else None
    ok = k1 is not None and k2 is not None and nf(k1) == nf(k2)
    obs.append(Ob("A6", clause, fn, tcalls[0], ok,
                  "checked copy is translated to candidate position [%s]; pattern was shifted so that atom [%s] is the origin"
                  % (ast.unparse(k2) if k2 is not None else "?", ast.unparse(k1) if k1 is not None else "?"), slot="anchor-agreement"))
    # the copy being checked is a copy of the origin-shifted pattern, taken after the shift
    creates = [n for n in fn.own_nodes() if isinstance(n, ast.Assign) and any(isinstance(t, ast.Name) and t.id == chk for t in n.targets)]
    for cr in creates:
        v = cr.value
        ok = isinstance(v, ast.Call) and call_name(v) == "copy" and isinstance(v.func, ast.Attribute) \
            and isinstance(v.func.value, ast.Name) and v.func.value.id == pname and cfg.dominates(fn.stmt_of(ps), cr)
        obs.append(Ob("A6", clause, fn, cr, ok, "checked copy is a fresh copy of the origin-shifted pattern %s" % pname, slot="chk-source"))
    # result appends: selected by an element of G, paired with the rotation of the same selector
    ret_lists = _returned_lists(fn)
    res_appends = [c for c in calls_in(fn) if isinstance(c.func, ast.Attribute) and c.func.attr == "append"
                   and isinstance(c.func.value, ast.Name) and c.func.value.id in ret_lists
                   and group_loop in list(fn.ancestors(c))]
    floor("A6", "appends to returned lists", len(res_appends), 2)
    by_block = {}
    for c in res_appends:
        blk = fn.parents[fn.stmt_of(c)]
        by_block.setdefault(id(blk) if not isinstance(blk, ast.If) else (id(blk), _branch_of(blk, fn.stmt_of(c))), []).append(c)
    for key, cs in by_block.items():
        sels = []
        for c in cs:
            v = c.args[0]
            sel_ok = False
            sel = None
            v = expand(fn, v) if isinstance(v, ast.Name) and fn.rd.unique_value(v) is not None and isinstance(fn.rd.unique_value(v)[1], ast.Subscript) else v
            recognised = False

            def _from_G(sel):
                sel = expand(fn, sel)
                return (isinstance(sel, ast.Call) and call_name(sel) == "choice" and sel.args and isinstance(sel.args[0], ast.Name)
                        and sel.args[0].id == G) or \
                       (isinstance(sel, ast.Subscript) and isinstance(sel.value, ast.Name) and sel.value.id == G)
            if isinstance(v, ast.Subscript):
                sel = v.slice
                vals = None
                if isinstance(sel, ast.Name):
                    from verif_sa.dataflow import all_values
                    vals = all_values(fn, sel)
                if vals is not None and len(vals) > 1:
                    sel_ok = all(_from_G(x) for x in vals)
                    recognised = True
                else:
                    sel_ok = _from_G(sel)
                    recognised = True
                base = v.value
            elif isinstance(v, ast.Name):
                recognised = True      # a bare local (e.g. a stale loop variable), not a selection by an accepted index
            sels.append((c, v, sel, sel_ok))
            obs.append(Ob("A6", clause, fn, c, sel_ok,
                          "value appended to returned list %s is selected by an element of the accepted list %s (%s)"
                          % (c.func.value.id, G, ast.unparse(v)), slot="result-selected-by-accepted:%s" % ast.unparse(v), positive=recognised))
        lists = {c.func.value.id for c in cs}
        pair_ok = len(cs) == 2 and len(lists) == 2 and all(isinstance(v, ast.Subscript) for _, v, _, _ in sels) and \
            nf(sels[0][1].slice) == nf(sels[1][1].slice)
        bases = sorted(ast.unparse(v.value) for _, v, _, _ in sels if isinstance(v, ast.Subscript))
        pair_ok = pair_ok and set(bases) == {ast.unparse(cands), rot_list}
        obs.append(Ob("A6", clause, fn, cs[0], pair_ok,
                      "index tuple and rotation are appended pairwise with the same selector from %s" % bases, slot="paired-append:%s" % "+".join(bases)))
    # at most one result append per group on every path
    npth = 0
    for path, end in loop_paths(fn, group_loop):
        cnt = {}
        for n in path:
            for c in calls_at_node(n):
                if c in res_appends:
                    cnt[c.func.value.id] = cnt.get(c.func.value.id, 0) + 1
        npth += 1
        ok = all(v <= 1 for v in cnt.values()) and len(set(cnt.values())) <= 1
        if cnt or True:
            obs.append(Ob("A6", clause, fn, group_loop, ok, "group-loop path #%d appends %s (at most one survivor per atom group)"
                          % (npth, cnt or "nothing"), construct="for ... in %s" % ast.unparse(group_loop.iter), slot="one-per-group-path%d" % npth))
        if npth > 64:
            break
    return obs


def _branch_of(ifnode, st):
    return "body" if any(st is x for x in ifnode.body) else "orelse"


def _all_positions_name(fn):
    """Local that receives the 4th result of _get_positions_from_all_adjacent_unit_cells."""
    for n in fn.own_nodes():
        if isinstance(n, ast.Assign) and isinstance(n.value, ast.Call) and call_name(n.value) == "_get_positions_from_all_adjacent_unit_cells":
            t = n.targets[0]
            if isinstance(t, ast.Tuple) and len(t.elts) == 4 and isinstance(t.elts[3], ast.Name):
                return t.elts[3].id
    raise AnalysisError("cannot find the unpacking of _get_positions_from_all_adjacent_unit_cells' four results")


def _shift_index_expr(arg, pname):
    e = arg
    if isinstance(e, ast.UnaryOp) and isinstance(e.op, ast.USub):
        e = e.operand
    else:
        return None
    if isinstance(e, ast.Subscript) and isinstance(e.value, ast.Attribute) and e.value.attr == "positions" \
            and isinstance(e.value.value, ast.Name) and e.value.value.id == pname:
        return e.slice
    return None


def _returned_lists(fn):
    """Names of local lists from which the returned values are built (through comprehensions / np.array)."""
    out = set()
    for n in fn.own_nodes():
        if isinstance(n, ast.Return) and n.value is not None:
            e = expand(fn, n.value)
            for x in ast.walk(e):
                if isinstance(x, ast.comprehension) and isinstance(x.iter, ast.Name):
                    out.add(x.iter.id)
                if isinstance(x, ast.Call) and call_name(x) == "array" and x.args and isinstance(x.args[0], ast.Name):
                    out.add(x.args[0].id)
    return out


def A7_tolerance_provenance(repo, clause, funcs=None):
    obs = []
    targets = [f for f in repo.all_fns() if "atol" in f.params and f.outer is None]
    if funcs is not None:
        targets = [f for f in targets if f.qualname in funcs]
    for fn in targets:
        fns = [fn] + [f for f in repo.all_fns() if f.outer is fn]
        for f in fns:
            for c in calls_in(f):
                name = call_name(c)
                if name in CLOSENESS:
                    tol = kwarg(c, "abs_tol") if name == "isclose" and _is_math(f, c) else kwarg(c, "atol")
                    ok = tol is not None and isinstance(expand(f, tol), ast.Name) and expand(f, tol).id == "atol"
                    obs.append(Ob("A7", clause, f, c, ok,
                                  "closeness test uses tolerance %s; must be the caller's atol unchanged"
                                  % (ast.unparse(tol) if tol is not None else "(library default)"), slot="closeness:%s" % name, positive=True))
                else:
                    callee, kind = repo.effects.resolve(f, c)
                    if callee is not None and "atol" in callee.params and kind is False:
                        a = get_arg(c, callee.params, "atol")
                        ok = a is not None and isinstance(expand(f, a), ast.Name) and expand(f, a).id == "atol"
                        obs.append(Ob("A7", clause, f, c, ok,
                                      "call of %s passes atol=%s; must forward the caller's atol"
                                      % (callee.qualname, ast.unparse(a) if a is not None else "(callee default)"),
                                      slot="forward:%s" % callee.qualname, positive=True))
    return obs


def _is_math(fn, c):
    return isinstance(c.func, ast.Attribute) and isinstance(c.func.value, ast.Name) and \
        fn.module.imports.get(c.func.value.id, ("",))[0] == "math"


CONFIRMED_MUTATORS = {
    # module-level functions that are *documented* to modify their argument in place
    "retype_atoms_from_uff_types": {"atoms"},
    "assign_pair_coeffs": {"atoms"},
    "assign_bond_types": {"atoms"},
    "assign_angle_types": {"atoms"},
    "assign_dihedral_types": {"atoms"},
    "assign_pair_params_to_structure": {"structure"},
    "add_aromatic_flag": {"g"},
}
CONFIRMED_MUTATING_METHODS = {"__init__", "assert_arrays_are_consistent_sizes", "translate", "extend_types", "_extend_extra_fields",
                              "extend", "__delitem__", "pop"}


def A1w_who_may_mutate(repo, clause, roots=("replace_pattern_in_structure", "find_pattern_in_structure", "Atoms.replicate", "Atoms.__getitem__", "detect_bonds")):
    """Every module-level function reachable (call graph) from the read-only entry points has an effect summary that
    mutates none of its parameters; Atoms methods reached from them may only mutate `self`."""
    eff = repo.effects
    obs = []
    seen = set()
    work = [repo.fn(r) for r in roots]
    while work:
        fn = work.pop()
        if fn in seen:
            continue
        seen.add(fn)
        for f2 in [fn] + [g for g in repo.all_fns() if g.outer is fn]:
            for c in calls_in(f2):
                callee, kind = eff.resolve(f2, c)
                if callee is not None and callee not in seen:
                    work.append(callee)
    for fn in sorted(seen, key=lambda f: (f.relpath, f.node.lineno)):
        if fn.outer is not None:
            continue
        muts = {p for p in eff.mut[fn] if not p.startswith("free:")}
        if fn.cls == "Atoms":
            other = muts - {"self"}
            obs.append(Ob("A1w", clause, fn, fn.node, not other,
                          "method %s (reachable from the read-only entry points) mutates %s; only `self` is allowed" % (fn.qualname, sorted(muts) or "nothing"),
                          construct="def %s" % fn.name, slot="method", positive=True))
        else:
            # a helper that mutates its argument is harmless as long as every reachable caller hands it a FRESH object (a per-match copy);
            # it is a violation when some caller passes a value that may alias one of ITS parameters
            borrowed = []
            if muts:
                for f2 in seen:
                    for a_ in eff.apps.get(f2, []):
                        if isinstance(a_.node, ast.Call):
                            cal, _k = eff.resolve(f2, a_.node)
                            if cal is fn and a_.params():
                                borrowed.append((f2, a_))
            ok_ = (not muts) or not borrowed
            obs.append(Ob("A1w", clause, fn, fn.node, ok_,
                          "function %s (reachable from the read-only entry points) mutates parameter(s) %s%s" % (
                              fn.qualname, sorted(muts) or "none",
                              "" if not muts else ("; every caller hands it a fresh object" if ok_ else
                                                   "; %s passes a value that may alias its own parameter %s" % (borrowed[0][0].qualname, sorted(borrowed[0][1].params()))),
                          ),
                          construct="def %s" % fn.name, slot="function", positive=True))
    floor("A1w", "functions reachable from the entry points", len(obs), 15 if len(roots) >= 5 else 5)
    return obs


def A21_no_mutable_default_mutation(repo, clause, funcs=None):
    """A parameter whose default is a mutable literal ([] / {} / set()) is shared across calls; mutating it leaks state
    from one call into the next (and, for maps handed in by the caller, into the caller's object)."""
    eff = repo.effects
    obs = []
    n = 0
    for fn in repo.all_fns():
        if funcs is not None and fn.qualname not in funcs:
            continue
        for p, d in fn.param_defaults().items():
            if isinstance(d, (ast.List, ast.Dict, ast.Set)) or (isinstance(d, ast.Call) and call_name(d) in ("list", "dict", "set", "OrderedSet")):
                n += 1
                bad = p in eff.mut[fn]
                obs.append(Ob("A21", clause, fn, fn.node, not bad,
                              "parameter `%s` of %s has the mutable default %s and is %s by the function" % (
                                  p, fn.qualname, ast.unparse(d), "MUTATED in place (values written by one call are seen by later calls / by the caller)" if bad else "only read"),
                              construct="def %s(..., %s=%s)" % (fn.name, p, ast.unparse(d)), slot="mutable-default:%s" % p, positive=True))
    floor("A21", "parameters with mutable defaults", n, 1 if funcs else 2)
    return obs


def A22_no_module_state(repo, clause, modules=("mofun.atoms", "mofun.helpers", "mofun.mofun", "mofun.detect_bonds", "mofun.rough_uff")):
    """Library functions keep no hidden module-level state: no function writes a module-level name or mutates a
    module-level container (memo tables make a result depend on earlier calls with other options)."""
    obs = []
    for mname in modules:
        m = repo.module(mname)
        module_names = set()
        for st in m.tree.body:
            if isinstance(st, ast.Assign):
                for t in st.targets:
                    for x in ast.walk(t):
                        if isinstance(x, ast.Name):
                            module_names.add(x.id)
        # tables imported from other modules of the package (`from mofun.atomic_masses import ATOMIC_MASSES`) are module-level state just the same
        for local_, (src_mod, attr_) in m.imports.items():
            if attr_ is not None and src_mod and src_mod.split(".")[0] == "mofun" and src_mod in repo.modules:
                sm = repo.modules[src_mod]
                is_def = any(isinstance(st, (ast.FunctionDef, ast.ClassDef, ast.AsyncFunctionDef)) and st.name == attr_ for st in sm.tree.body)
                # an assignment there, or a name re-exported from a third module of the package (atoms <- helpers <- atomic_masses)
                if not is_def and (sm.top_assign(attr_) is not None or (attr_ in sm.imports and (sm.imports[attr_][0] or "").split(".")[0] == "mofun") or
                                   any((x or "").split(".")[0] == "mofun" for x in sm.star_imports)):
                    module_names.add(local_)
        bad = []
        for (mm, q), fn in repo.fns.items():
            if mm != mname:
                continue
            local_stores = {x.id for x in fn.all_nodes() if isinstance(x, ast.Name) and isinstance(x.ctx, ast.Store)} | set(fn.params)
            outer = fn.outer
            while outer is not None:
                local_stores |= {x.id for x in outer.all_nodes() if isinstance(x, ast.Name) and isinstance(x.ctx, ast.Store)} | set(outer.params)
                outer = outer.outer
            globals_decl = {nm for x in fn.own_nodes() if isinstance(x, ast.Global) for nm in x.names}
            for n_ in fn.own_nodes():
                tgt = None
                if isinstance(n_, (ast.Assign, ast.AugAssign)):
                    ts = n_.targets if isinstance(n_, ast.Assign) else [n_.target]
                    for t in ts:
                        b = t
                        while isinstance(b, (ast.Subscript, ast.Attribute)):
                            b = b.value
                        if isinstance(b, ast.Name) and (b.id in globals_decl or (b is not t and b.id in module_names and b.id not in local_stores)):
                            tgt = b.id
                elif isinstance(n_, ast.Call) and isinstance(n_.func, ast.Attribute) and n_.func.attr in ("append", "update", "setdefault", "add", "pop", "clear", "extend", "__setitem__") \
                        and isinstance(n_.func.value, ast.Name) and n_.func.value.id in module_names and n_.func.value.id not in local_stores:
                    tgt = n_.func.value.id
                if tgt is not None:
                    bad.append((fn, n_, tgt))
        from verif_sa.core import FileObj
        fo = FileObj(m.relpath, mname)
        obs.append(Ob("A22", clause, bad[0][0] if bad else fo, bad[0][1] if bad else m.tree.body[0], not bad,
                      "no function of %s writes module-level state%s" % (mname, "" if not bad else
                                                                         ": %s writes `%s` (results then depend on earlier calls)" % (bad[0][0].qualname, bad[0][2])),
                      construct="module %s" % mname if not bad else None, slot="module-state:%s" % mname, positive="robust"))
    return obs


def A6r_every_return_through_groups(repo, clause):
    """Uniqueness and the rotation re-check live in the per-group loop over `group_duplicates(<candidates>)`.  Every return of the search that hands back
    matches must build them from the lists filled inside that loop; a return whose value derives from the raw candidate list bypasses both (for a pattern
    of two atoms of one element every pair is grown twice - once from either start atom - so the same occurrence is reported twice).  Only a pattern of
    at most ONE atom has nothing to merge."""
    fn = repo.fn("find_pattern_in_structure")
    gcall = None
    for c in calls_in(fn):
        if call_name(c) == "group_duplicates" and c.args:
            gcall = c
    if gcall is None:
        return [Ob("A6r", clause, fn, fn.node, False, "the grouping of candidates by atom set (group_duplicates) was not found: cannot tell which lists are de-duplicated",
                   construct="group_duplicates(<candidates>, key=...)", slot="grouping", undecided=True)]
    cand = gcall.args[0]
    if not isinstance(cand, ast.Name):
        return [Ob("A6r", clause, fn, gcall, False, "candidate argument of group_duplicates is not a plain local", slot="grouping", undecided=True)]
    cand = cand.id
    gstmt = fn.stmt_of(gcall)
    obs = [Ob("A6r", clause, fn, gcall, True, "candidates `%s` are grouped by atom set before anything is reported" % cand, slot="grouping")]
    nret = 0
    for r in fn.own_nodes():
        if not isinstance(r, ast.Return) or r.value is None:
            continue
        nret += 1
        try:
            e = expand(fn, r.value, stop_names=[cand])
        except Exception:
            e = r.value
        raw = any(isinstance(x, ast.Name) and x.id == cand and isinstance(x.ctx, ast.Load) for x in ast.walk(e))
        if not raw:
            obs.append(Ob("A6r", clause, fn, r, True, "return value does not read the raw candidate list `%s`" % cand, slot="return#%d" % nret))
            continue
        # permitted only for patterns of at most one atom
        small = None
        for t, pol, k in norm_guards(fn, r):
            if isinstance(t, ast.Compare) and len(t.ops) == 1 and isinstance(t.left, ast.Call) and call_name(t.left) == "len" and isinstance(const_value(t.comparators[0]), int):
                k_, op_ = const_value(t.comparators[0]), type(t.ops[0])
                if pol and op_ in (ast.LtE, ast.Lt, ast.Eq):
                    small = k_ if op_ in (ast.LtE, ast.Eq) else k_ - 1
                if not pol and op_ in (ast.Gt, ast.GtE):
                    small = k_ if op_ is ast.Gt else k_ - 1
            for bt in (t.values if isinstance(t, ast.BoolOp) and isinstance(t.op, ast.And) and pol else []):
                if isinstance(bt, ast.Compare) and len(bt.ops) == 1 and isinstance(bt.left, ast.Call) and call_name(bt.left) == "len" and isinstance(const_value(bt.comparators[0]), int):
                    k_, op_ = const_value(bt.comparators[0]), type(bt.ops[0])
                    if op_ in (ast.LtE, ast.Lt, ast.Eq):
                        small = k_ if op_ in (ast.LtE, ast.Eq) else k_ - 1
        ok = small is not None and small <= 1
        obs.append(Ob("A6r", clause, fn, r, ok,
                      "this return builds its result from the RAW candidate list `%s`%s: the grouping by atom set / rotation re-check is bypassed, so an occurrence that was grown from "
                      "several start atoms (two atoms of one element: once from either end) is reported more than once"
                      % (cand, "" if small is None else " for patterns of up to %d atoms" % small), slot="return-bypasses-grouping", positive="robust"))
    return obs
