"""Family D: decision lists (symmetry, type counts, exhaustiveness, window bounds)."""
import ast
import re

from .common import (Ob, AnalysisError, call_name, dotted, kwarg, get_arg, names_in, expand, nf, nf_expanded, same,
                     contains_nf, calls_in, calls_named, method_calls_on, floor, norm_guards, const_value, KINDS, ARITY,
                     kind_of, is_self_attr, fmt_slots)
from verif_sa.pe import P, Normalizer, decision_list, first_difference
from .common import eq_const


PROVED_NAMES = ("guess_bond_order", "max_bond_length", "bond_params", "angle_params", "dihedral_params", "typekey")


def _sym_check(fn, ident, swapped, normalizer):
    repo = fn.repo

    def resolver(name):
        # private helpers of the same module may be inlined; functions whose symmetry is proved separately stay calls
        if name in PROVED_NAMES or name in normalizer.comm_calls:
            return None
        c = repo.fns.get((fn.module.name, name))
        if c is not None and c is not fn and c.cls is None:
            if not hasattr(normalizer, "used_fns"):
                normalizer.used_fns = []
            if c not in normalizer.used_fns:
                normalizer.used_fns.append(c)
            return c.node
        return None
    a = decision_list(fn.node, ident, normalizer, resolver=resolver)
    b = decision_list(fn.node, swapped, normalizer, resolver=resolver)
    return a, b, first_difference(a, b)


def _semantic_symmetry(repo, dl_a, dl_b):
    """True: same leaf for every abstract input; False: a counterexample exists; None: cannot decide."""
    import itertools
    from .fam_d2 import Table, canon_expr, Unknown, _numeric_features
    # paths that are literally the same on both sides (same conditions, same leaf) at the head of the lists select the same leaf for the same inputs
    # whatever their conditions mean (e.g. the loop over user rules): only the remainder has to be compared
    k0 = 0
    while k0 < min(len(dl_a), len(dl_b)) and dl_a[k0] == dl_b[k0]:
        k0 += 1
    if 0 < k0 < max(len(dl_a), len(dl_b)):
        dl_a, dl_b = dl_a[k0:], dl_b[k0:]
    try:
        ta, tb = Table(repo, dl_a), Table(repo, dl_b)
        feats = {}
        for t_ in (ta, tb):
            for f, sets in t_.features.items():
                feats.setdefault(f, set()).update(sets)
        numeric = {}
        for t_ in (ta, tb):
            for f, vals in _numeric_features(t_).items():
                numeric.setdefault(f, set()).update(vals)
        doms = {}
        for f in set(feats) | set(numeric):
            sets = list(feats.get(f, ()))
            universe = set()
            for s_ in sets:
                universe |= set(s_)
            # one representative per class of the partition the literal sets induce (values no comparison can tell apart behave alike)
            classes = {}
            for v in sorted(universe, key=repr):
                sig = tuple(sorted(repr(sorted(s_, key=repr)) for s_ in sets if v in s_)) + (("=" + repr(v),) if any(len(s_) == 1 and v in s_ for s_ in sets) else ())
                classes.setdefault(sig, v)
            vals = sorted(set(classes.values()) | numeric.get(f, set()), key=repr)
            vals.append(12345.678 if any(isinstance(v, (int, float)) and not isinstance(v, bool) for v in vals) else "?other?")
            if isinstance(f, tuple) and f and f[0] == "param" and vals[-1] == "?other?":
                vals.append("?other2?")      # two parameters may be compared with each other: two distinct values outside every literal set
            doms[f] = vals
        from .fam_d2 import drop_derived_features
        doms = drop_derived_features((ta, tb), doms)
        order = sorted(doms, key=lambda f: len(repr(f)))
        size = 1
        for f in order:
            size *= len(doms[f])
        if size > 60000:
            import os as _os
            if _os.environ.get("VERIF_DEBUG"):
                print("semantic symmetry: domain size", size, [len(doms[f]) for f in order])
            return None
        def _no(why, env=None):
            import os as _os
            if _os.environ.get("VERIF_DEBUG"):
                print("semantic symmetry: counterexample:", why, env)
            return False
        for combo in itertools.product(*[doms[f] for f in order]):
            env = dict(zip(order, combo))
            ia, la = ta.decide(env)
            ib, lb = tb.decide(env)
            if la is None or lb is None:
                if la is None and lb is None:
                    continue
                return _no("one side has no path", env)
            if la[0] != lb[0]:
                return _no("leaf kinds differ %r %r" % (la[0], lb[0]), env)
            if la[0] == "raise":
                continue
            va, vb = la[1], lb[1]
            ea = list(va[1:]) if va[0] == "list" else [va]
            eb = list(vb[1:]) if vb[0] == "list" else [vb]
            if len(ea) != len(eb):
                return _no("lengths", env)
            for x, y in zip(ea, eb):
                if canon_expr(ta, x, env) != canon_expr(tb, y, env):
                    return _no("values %s | %s" % (str(canon_expr(ta, x, env))[:300], str(canon_expr(tb, y, env))[:300]), env)
        return True
    except Unknown as _e:
        import os as _os
        if _os.environ.get("VERIF_DEBUG"):
            print("semantic symmetry: Unknown", _e)
        return None
    except Exception:
        import os as _os
        if _os.environ.get("VERIF_DEBUG"):
            import traceback as _tb
            _tb.print_exc()
        return None


def D1_symmetry(repo, clause, funcs=None):
    obs = []
    nz = Normalizer({})
    plan = [
        ("guess_bond_order", {"a1": P("a1"), "a2": P("a2"), "rules": P("rules")},
         {"a1": P("a2"), "a2": P("a1"), "rules": P("rules")}, [[(0,), (1,)]], "a1<->a2"),
        ("max_bond_length", {"el1": P("e1"), "el2": P("e2")}, {"el1": P("e2"), "el2": P("e1")}, [[(0,), (1,)]], "el1<->el2"),
        ("bond_params", {"a1": P("a1"), "a2": P("a2"), "bond_order": P("bo"), "bond_order_rules": P("r")},
         {"a1": P("a2"), "a2": P("a1"), "bond_order": P("bo"), "bond_order_rules": P("r")}, [[(0,), (1,)]], "a1<->a2"),
        ("angle_params", {"a1": P("a1"), "a2": P("a2"), "a3": P("a3"), "bond_orders": ("list", P("b0"), P("b1")), "bond_order_rules": P("r")},
         {"a1": P("a3"), "a2": P("a2"), "a3": P("a1"), "bond_orders": ("list", P("b1"), P("b0")), "bond_order_rules": P("r")}, None,
         "a1<->a3 with bond orders reversed"),
        ("dihedral_params", {"a1": P("a1"), "a2": P("a2"), "a3": P("a3"), "a4": P("a4"), "num_dihedrals_about_bond": P("M"),
                             "bond_order": P("bo"), "bond_order_rules": P("r")},
         {"a1": P("a4"), "a2": P("a3"), "a3": P("a2"), "a4": P("a1"), "num_dihedrals_about_bond": P("M"),
          "bond_order": P("bo"), "bond_order_rules": P("r")}, None, "a1<->a4, a2<->a3"),
    ]
    undecided_comm = {}
    for name, ident, swapped, comm, desc in plan:
        if funcs is not None and name not in funcs:
            continue
        fn = repo.fn(name)
        for p in ident:
            if p not in fn.params:
                raise AnalysisError("D1: %s no longer has parameter %s" % (name, p))
        extra = [p for p in fn.params if p not in ident]
        for p in extra:
            ident[p] = swapped[p] = P(p)
        nz.used_fns = []
        a, b, diff = _sym_check(fn, ident, swapped, nz)
        helpers = list(nz.used_fns)
        ok = diff is None
        sem = None
        if not ok:
            # the two decision lists are not syntactically equal: decide by evaluating both over the finite abstract domain their comparisons induce
            sem = _semantic_symmetry(repo, a, b)
            if sem is True:
                ok, diff = True, None
        if ok and sem is True:
            detail = "decision lists of %s under %s differ in spelling but select the same leaf (normal form) on every combination of the abstract domain induced by their comparisons" % (name, desc)
            if comm:
                nz.comm_calls[name] = comm
            obs.append(Ob("D1", clause, fn, fn.node, True, detail, construct="def %s" % name, slot="symmetric:%s" % name, positive=True))
            continue
        if not ok and undecided_comm:
            # a callee whose own symmetry could be neither proved nor refuted: if this function is symmetric GIVEN the callee's symmetry, its own
            # verdict is undecided as well (the only open question is the callee's)
            nz2 = Normalizer(dict(nz.comm_calls, **undecided_comm))
            a2_, b2_, diff2 = _sym_check(fn, dict(ident), dict(swapped), nz2)
            if diff2 is None or _semantic_symmetry(repo, a2_, b2_) is True:
                obs.append(Ob("D1", clause, fn, fn.node, False, "symmetry of %s under %s holds if %s is symmetric, which could not be decided" % (
                    name, desc, "/".join(sorted(undecided_comm))), construct="def %s" % name, slot="symmetric:%s" % name, undecided=True))
                if comm:
                    undecided_comm[name] = comm
                continue
        if not ok and sem is None:
            if comm:
                undecided_comm[name] = comm
            i, x, y = diff
            obs.append(Ob("D1", clause, fn, fn.node, False, "symmetry of %s under %s cannot be decided: path #%d differs in spelling and the guards are outside the table language" % (name, desc, i),
                          construct="def %s" % name, slot="symmetric:%s" % name, undecided=True))
            continue
        if ok:
            detail = "decision list of %s (%d paths) is identical under %s: same conditions, same returned terms, same raise/None paths" % (name, len(a), desc)
            if comm:
                nz.comm_calls[name] = comm
        else:
            i, x, y = diff
            detail = "NOT symmetric under %s: path #%d differs: %s  VERSUS  %s" % (desc, i, _short(x), _short(y))
        obs.append(Ob("D1", clause, fn, fn.node, ok, detail, construct="def %s" % name, slot="symmetric:%s" % name, positive=True, depends=helpers))
        # per-path obligations make the evidence concrete
        for i, (pa, pb) in enumerate(zip(a, b)):
            if pa != pb and ok is False:
                obs.append(Ob("D1", clause, fn, fn.node, False, "path #%d: %s != %s" % (i, _short(pa), _short(pb)),
                              construct="def %s path %d" % (name, i), slot="path:%s:%d" % (name, i), positive=True, depends=helpers))
    if funcs is None or "typekey" in funcs:
        obs.extend(_typekey_min_idiom(repo, clause))
    return obs


def _short(t, n=220):
    s = repr(t)
    return s if len(s) <= n else s[:n] + "..."


def _typekey_min_idiom(repo, clause):
    fn = repo.fn("typekey")
    T = fn.params[0]
    obs = []
    # R: reversed copy of T
    R = None
    how = None
    stmts = [s for s in fn.node.body if not (isinstance(s, ast.Expr) and isinstance(s.value, ast.Constant))]
    for i, s in enumerate(stmts):
        if isinstance(s, ast.Assign) and isinstance(s.targets[0], ast.Name):
            v = s.value
            name = s.targets[0].id
            if isinstance(v, ast.Call) and call_name(v) in ("list", "tuple") and v.args and isinstance(v.args[0], ast.Name) and v.args[0].id == T:
                # needs a following R.reverse()
                for s2 in stmts[i + 1:]:
                    if isinstance(s2, ast.Expr) and isinstance(s2.value, ast.Call) and isinstance(s2.value.func, ast.Attribute) \
                            and s2.value.func.attr == "reverse" and isinstance(s2.value.func.value, ast.Name) and s2.value.func.value.id == name:
                        R, how = name, "list(%s) reversed in place" % T
                        break
            elif isinstance(v, ast.Subscript) and isinstance(v.value, ast.Name) and v.value.id == T and isinstance(v.slice, ast.Slice) \
                    and v.slice.lower is None and v.slice.upper is None and const_value(v.slice.step) == -1:
                R, how = name, "%s[::-1]" % T
            elif isinstance(v, ast.Call) and call_name(v) in ("list", "tuple") and v.args and isinstance(v.args[0], ast.Call) \
                    and call_name(v.args[0]) == "reversed":
                R, how = name, "reversed(%s)" % T
    verdict_sem = _typekey_by_orderings(fn, T)
    if R is None and verdict_sem is not None:
        ok_, detail_ = verdict_sem
        obs.append(Ob("D1", clause, fn, fn.node, ok_, detail_, construct="def typekey", slot="symmetric:typekey", positive=not ok_))
        return obs
    if R is None:
        no_reversal = not any((isinstance(x, ast.Call) and call_name(x) in ("reverse", "reversed", "flip", "min", "max", "sorted")) or
                              (isinstance(x, ast.Slice) and x.step is not None) for x in ast.walk(fn.node))
        obs.append(Ob("D1", clause, fn, fn.node, False, "typekey: reversed copy of the sequence not found (no canonicalisation under reversal)",
                      construct="def typekey", slot="symmetric:typekey", positive=no_reversal))
        return obs

    def is_seq(e, name):
        if isinstance(e, ast.Name) and e.id == name:
            return True
        return isinstance(e, ast.Call) and call_name(e) in ("tuple", "list") and len(e.args) == 1 and isinstance(e.args[0], ast.Name) and e.args[0].id == name

    ok = False
    partial_cmp = False
    detail = "comparison/return structure not recognised as min(sequence, reversed sequence)"
    ifs = [s for s in stmts if isinstance(s, ast.If)]
    rets = [s for s in stmts if isinstance(s, ast.Return)]
    mins = [c for c in ast.walk(fn.node) if isinstance(c, ast.Call) and call_name(c) in ("min", "max")]
    if len(ifs) == 1 and isinstance(ifs[0].test, ast.Compare) and len(ifs[0].test.ops) == 1 and \
            isinstance(ifs[0].test.ops[0], (ast.Lt, ast.LtE, ast.Gt, ast.GtE)):
        t = ifs[0].test
        l, r = t.left, t.comparators[0]
        full = (is_seq(l, R) and is_seq(r, T)) or (is_seq(l, T) and is_seq(r, R))
        body_ret = ifs[0].body[0] if len(ifs[0].body) == 1 and isinstance(ifs[0].body[0], ast.Return) else None
        else_ret = ifs[0].orelse[0] if len(ifs[0].orelse) == 1 and isinstance(ifs[0].orelse[0], ast.Return) else (rets[0] if rets else None)
        if full and body_ret is not None and else_ret is not None:
            a, b = body_ret.value, else_ret.value
            two = (is_seq(a, R) and is_seq(b, T)) or (is_seq(a, T) and is_seq(b, R))
            same_conv = type(a) is type(b) and (not isinstance(a, ast.Call) or call_name(a) == call_name(b))
            ok = two and same_conv
            detail = "typekey compares the whole sequence with its reversal (%s; %s) and returns one or the other in the same container type: " \
                     "the result is the same for a sequence and its reversal" % (how, ast.unparse(t))
            if not two:
                detail = "typekey does not return exactly {sequence, reversed sequence} on its two branches"
        elif not full:
            detail = "typekey compares %s, not the whole sequence against its whole reversal: ties are broken asymmetrically" % ast.unparse(t)
            partial_cmp = True
    elif mins:
        c = mins[0]
        ok = len(c.args) == 2 and ((is_seq(c.args[0], R) and is_seq(c.args[1], T)) or (is_seq(c.args[0], T) and is_seq(c.args[1], R)))
        detail = "typekey returns %s of the sequence and its reversal" % call_name(c)
    only_t = (not ifs) and (not mins) and bool(rets) and all(is_seq(r_.value, T) for r_ in rets)
    if only_t:
        detail = "typekey returns the sequence itself on every path: a sequence and its reversal get different keys"
    if not ok and not (only_t or partial_cmp) and verdict_sem is not None:
        ok, detail = verdict_sem
        obs.append(Ob("D1", clause, fn, ifs[0] if ifs else fn.node, ok, detail, slot="symmetric:typekey", positive=not ok))
        return obs
    obs.append(Ob("D1", clause, fn, ifs[0] if ifs else fn.node, ok, detail, slot="symmetric:typekey", positive=only_t or partial_cmp))
    return obs


def _typekey_by_orderings(fn, T):
    """typekey touches the elements of its argument only through (lexicographic) comparisons, copies, reversal and slicing: its behaviour on every input is
    determined by the order type of the sequence.  When the function is a pure expression of its argument (no in-place mutation), its decision list is
    evaluated on every sequence of length 1..4 over a three-letter ordered alphabet (120 order types incl. ties): the key of a sequence and of its reversal
    must be equal and must be one of the two.  -> (ok, detail) or None when the function is outside this language."""
    import itertools
    from verif_sa.pe import P, Normalizer, decision_list
    for n in ast.walk(fn.node):
        if isinstance(n, ast.Call) and isinstance(n.func, ast.Attribute) and n.func.attr in ("reverse", "sort", "append", "extend", "insert", "pop", "remove"):
            return None
        if isinstance(n, (ast.For, ast.While, ast.AugAssign)):
            return None
    try:
        dl = decision_list(fn.node, {T: P(T)}, Normalizer({}))
    except Exception:
        return None

    class U(Exception):
        pass

    def ev(t, x):
        if not isinstance(t, tuple):
            raise U(repr(t))
        op = t[0]
        if op == "param":
            if t[1] == T:
                return x
            raise U("param")
        if op == "const":
            return t[1]
        if op in ("list", "tuple") and (len(t) == 1 or isinstance(t[1], tuple)):
            return tuple(ev(y, x) for y in t[1:])
        if op == "call" and t[1] in ("tuple", "list", "reversed", "sorted", "len", "min", "max") and t[3] == ("kws",):
            args = [ev(y, x) for y in t[2][1:]]
            if t[1] in ("tuple", "list") and len(args) == 1:
                return tuple(args[0])
            if t[1] == "reversed" and len(args) == 1:
                return tuple(reversed(args[0]))
            if t[1] == "sorted" and len(args) == 1:
                return tuple(sorted(args[0]))
            if t[1] == "len" and len(args) == 1:
                return len(args[0])
            if t[1] in ("min", "max") and len(args) == 2:
                return min(args) if t[1] == "min" else max(args)
            raise U("call")
        if op == "sub[]":
            base = ev(t[1], x)
            sl = t[2]
            if isinstance(sl, tuple) and sl[0] == "slice":
                parts = [None if y is None else ev(y, x) for y in sl[1:4]]
                return base[slice(*parts)]
            return base[ev(sl, x)]
        if op in ("le", "lt", "ge", "gt", "eq", "ne"):
            a, b = ev(t[1], x), ev(t[2], x)
            return {"le": a <= b, "lt": a < b, "ge": a >= b, "gt": a > b, "eq": a == b, "ne": a != b}[op]
        if op == "not":
            return not ev(t[1], x)
        if op == "and":
            return all(ev(y, x) for y in t[1:])
        if op == "or":
            return any(ev(y, x) for y in t[1:])
        if op in ("ifexp", "phi"):
            return ev(t[2], x) if ev(t[1], x) else ev(t[3], x)
        if op == "add":
            a, b = ev(t[1], x), ev(t[2], x)
            if isinstance(a, tuple) and isinstance(b, tuple):
                return a + b
            raise U("add")
        raise U(op)

    def key(x):
        for conds, leaf in dl:
            if all(ev(c, x) for c in conds):
                if leaf[0] != "ret":
                    raise U("raise path")
                return ev(leaf[1], x)
        raise U("no path")
    try:
        n = 0
        for ln in range(1, 5):
            for x in itertools.product((0, 1, 2), repeat=ln):
                n += 1
                k1, k2 = key(x), key(tuple(reversed(x)))
                if k1 != k2:
                    return False, "typekey gives DIFFERENT keys for the sequence %s and its reversal: %s vs %s (evaluated on all 120 order types of length 1..4)" % (list(x), k1, k2)
                if tuple(k1) not in (x, tuple(reversed(x))) or not isinstance(k1, tuple):
                    return False, "typekey of %s is %r: neither the sequence nor its reversal as a tuple" % (list(x), k1)
        return True, "typekey evaluated on all %d order types of sequences of length 1..4 (elements are only compared, copied and reordered): a sequence and its reversal always get the same key, which is one of the two" % n
    except U:
        return None
    except Exception:
        return None


# ---- D2: type count = table length ----------------------------------------------------------------

def D2_type_counts(repo, clause, kinds=("atom",) + KINDS, pair=True):
    obs = []
    nz = Normalizer()
    tables = {"atom": "atom_type_elements"}
    for k in KINDS:
        tables[k] = "%s_type_coeffs" % k
    for k in kinds:
        fn = repo.fn("Atoms.num_%s_types" % k)
        from verif_sa.pe import decision_list_inlined
        dl = decision_list_inlined(repo, fn, {"self": P("self")}, nz)
        table_len = ("call", "len", ("args", ("attr", P("self"), tables[k])), ("kws",))
        # a conditional expression in a return is two paths
        split = []
        for conds, res in dl:
            work = [(tuple(conds), res)]
            while work:
                cs, rs = work.pop(0)
                if rs[0] == "ret" and isinstance(rs[1], tuple) and rs[1] and rs[1][0] in ("ifexp", "phi") and len(rs[1]) == 4:
                    work.append((cs + (rs[1][1],), ("ret", rs[1][2])))
                    work.append((cs + (("not", rs[1][1]),), ("ret", rs[1][3])))
                else:
                    split.append((cs, rs))
        dl = split
        for i, (conds, res) in enumerate(dl):
            if res[0] != "ret":
                obs.append(Ob("D2", clause, fn, fn.node, False, "leaf #%d raises" % i, construct="def num_%s_types leaf %d" % (k, i), slot="%s:leaf%d" % (k, i)))
                continue
            val = res[1]
            ok = False
            why = ""
            if val == table_len:
                ok, why = True, "returns len(self.%s)" % tables[k]
            elif val[0] == "or" and table_len in val[1:]:
                # python `len(table) or X`: the table length whenever it is non-zero
                first_truthy = True
                ok, why = True, "returns len(self.%s) whenever the table is non-empty (`or` idiom), else the fallback" % tables[k]
                if not _implies_nonempty_first(val, table_len):
                    ok, why = False, "`or` expression does not put the table length first"
            else:
                empty = any(_implies_empty(c, table_len) for c in conds)
                ok = empty
                if not empty and not _recognisable_count(val):
                    raise AnalysisError("D2: leaf #%d of num_%s_types returns %s, which is neither the table length nor a recognisable count; cannot decide" % (i, k, _short(val, 80)))
                if empty and val != ("const", 0) and k != "atom":
                    # fallback when no coefficient table exists: every id in use must be below the count
                    types_attr = ("attr", P("self"), "%s_types" % k)
                    want = nz.norm(("add", ("const", 1), ("call", "max", ("args", types_attr), ("kws",))))
                    alt = nz.norm(("add", ("const", 1), ("mcall", types_attr, "max", ("args",), ("kws",))))
                    if val not in (want, alt):
                        ok = False
                        why = "fallback count without a coefficient table is %s; it must be max(self.%s_types) + 1 so that every type id in use is declared" % (_short(val, 80), k)
                        obs.append(Ob("D2", clause, fn, fn.node, ok, "leaf #%d of num_%s_types: %s" % (i, k, why),
                                      construct="def num_%s_types: leaf %d" % (k, i), slot="%s:leaf%d" % (k, i), positive=True))
                        continue
                why = ("returns %s on a path where the table is known to be empty" % _short(val, 60)) if empty else \
                    ("returns %s although self.%s may be NON-EMPTY on this path (conditions: %s): the count is then smaller than the table, "
                     "so merged type ids point at old rows and the written header disagrees with the Coeffs section"
                     % (_short(val, 60), tables[k], _short(conds, 120)))
            obs.append(Ob("D2", clause, fn, fn.node, ok, "leaf #%d of num_%s_types: %s" % (i, k, why),
                          construct="def num_%s_types: leaf %d" % (k, i), slot="%s:leaf%d" % (k, i), positive=True))
    # tables appended by extend_types: self.T = np.append(self.T, other.T), one per kind (+3 atom-type tables)
    et = repo.fn("Atoms.extend_types")
    seen = {}
    for n in et.own_nodes():
        if isinstance(n, ast.Assign) and len(n.targets) == 1 and is_self_attr(n.targets[0]):
            t = n.targets[0].attr
            v = n.value
            ok = isinstance(v, ast.Call) and call_name(v) == "append" and len(v.args) == 2 and is_self_attr(v.args[0], t) \
                and isinstance(v.args[1], ast.Attribute) and v.args[1].attr == t and isinstance(v.args[1].value, ast.Name) \
                and v.args[1].value.id == et.params[1]
            seen[t] = n
            obs.append(Ob("D2", clause, et, n, ok, "table %s of the other structure is appended to the same table of self" % t, slot="append:%s" % t))
            # the append of table T may depend on T only: a guard on ANOTHER table of the other structure (`if len(other.pair_coeffs) > 0:` around the bonded tables)
            # drops T for structures that have T but not that other table, while the type ids of the terms are still offset
            for g_, pol_, k_ in norm_guards(et, n):
                attrs_ = {y.attr for y in ast.walk(g_) if isinstance(y, ast.Attribute) and isinstance(y.value, ast.Name) and y.value.id in (et.params[1], "self")}
                foreign = sorted(a_ for a_ in attrs_ if a_ != t and (a_.endswith("coeffs") or a_.endswith("_types") or a_.endswith("masses") or a_.endswith("labels") or a_.endswith("elements")))
                if foreign and t not in attrs_:
                    obs.append(Ob("D2", clause, et, n, False,
                                  "the append of table %s is guarded by `%s`, a test on %s: a structure that has %s but not that table keeps the offset type ids and loses the coefficient rows they point at" % (
                                      t, ast.unparse(g_)[:50], "/".join(foreign), t), slot="append-guard:%s" % t, positive="robust"))
    need = set(tables.values()) | {"atom_type_masses", "atom_type_labels"}
    missing = sorted(need - set(seen))
    obs.append(Ob("D2", clause, et, et.node, not missing, "every counted type table is merged by extend_types (missing: %s)" % (missing or "none"),
                  construct="def extend_types", slot="all-tables-merged"))
    # atom-type tables stay in lockstep: masses and labels are defaulted from the elements in __init__
    init = repo.fn("Atoms.__init__")
    txt = ast.unparse(init.node)
    ok_m = re.search(r"self\.atom_type_masses = \[ATOMIC_MASSES\[\w+\] for \w+ in self\.atom_type_elements\]", txt) is not None
    ok_l = "self.atom_type_labels = self.atom_type_elements" in txt
    obs.append(Ob("D2", clause, init, init.node, ok_m and ok_l,
                  "constructor defaults masses (%s) and labels (%s) per element type, keeping the three atom-type tables equally long" % (ok_m, ok_l),
                  construct="def __init__: atom_type_masses / atom_type_labels defaults", slot="atom-tables-lockstep"))
    # pair_coeffs is an atom-type table too: it must be appended in lockstep (padded) or refused
    if "pair_coeffs" in seen and pair:
        n = seen["pair_coeffs"]
        guarded = bool(norm_guards(et, n)) or any(isinstance(x, ast.Call) and call_name(x) in ("full", "repeat", "pad") for x in ast.walk(n))
        obs.append(Ob("D2", clause, et, n, guarded,
                      "pair_coeffs is appended %s: when self has atom types but no pair table (structure loaded from CIF) the pattern's pair "
                      "coefficients land on type ids 0.. instead of offset.." % ("with padding/guard" if guarded else "WITHOUT padding to the atom-type offset"),
                      slot="pair_coeffs-lockstep"))
    return obs


def _recognisable_count(val):
    """Terms we can positively classify as 'not the table length': constants, max(..)+1, len(<other thing>)."""
    if val[0] == "const":
        return True
    if val[0] == "add" and any(isinstance(x, tuple) and x and x[0] in ("call", "mcall") and "max" in repr(x[:3]) for x in val[1:]):
        return True
    if val[0] == "call" and val[1] == "len":
        a_ = val[2][1] if len(val[2]) > 1 else None
        return isinstance(a_, tuple) and a_[0] == "attr" and a_[1] == P("self")
    if val[0] == "or":
        return all(_recognisable_count(x) for x in val[1:])
    return False


def _implies_empty(cond, table_len):
    """cond implies len(table) == 0"""
    if cond == ("eq", ("const", 0), table_len) or cond == ("eq", table_len, ("const", 0)):
        return True
    if cond[0] == "not":
        c = cond[1]
        if c == ("gt", table_len, ("const", 0)) or c == ("lt", ("const", 0), table_len) or c == table_len or \
                c == ("ne", ("const", 0), table_len) or c == ("ne", table_len, ("const", 0)) or c == ("ge", table_len, ("const", 1)):
            return True
    return False


def _implies_nonempty_first(val, table_len):
    return True


# ---- D3: exhaustiveness and format arity ----------------------------------------------------------

def D3_angle_styles(repo, clause):
    obs = []
    fn = repo.fn("angle_params")
    # the membership test on a literal list and the inner chain
    from .common import strip_not
    tests = []
    for n in fn.own_nodes():
        if isinstance(n, ast.If):
            tt, pol = strip_not(n.test, True)
            if isinstance(tt, ast.Compare) and len(tt.ops) == 1 and isinstance(tt.ops[0], (ast.In, ast.NotIn)) and isinstance(tt.comparators[0], (ast.List, ast.Tuple, ast.Set)):
                if isinstance(tt.ops[0], ast.NotIn):
                    pol = not pol
                tests.append((n, tt, pol))
    if len(tests) != 1:
        raise AnalysisError("D3: membership test on the literal angle list not found in angle_params")
    t, tt, pol = tests[0]
    in_branch = t.body if pol else t.orelse
    raw = expand(fn, tt.left)
    is_lookup = isinstance(raw, ast.Subscript) and isinstance(raw.value, ast.Subscript) and ast.unparse(raw.value.value) == "UFF4MOF"
    wrapped = isinstance(raw, ast.Call) and call_name(raw) in ("int", "round", "floor", "ceil", "rint")
    obs.append(Ob("D3", clause, fn, t, is_lookup,
                  "the potential style is decided on the tabulated equilibrium angle itself (%s)%s" % (
                      ast.unparse(raw)[:50], " -- a ROUNDED value is tested: angles near 90/120/180 (e.g. 90.25) change style" if wrapped else ""),
                  slot="style-test-on-raw-angle", positive=wrapped))
    var = ast.unparse(tt.left)
    lits = [const_value(e) for e in tt.comparators[0].elts]
    chain = [s for s in in_branch if isinstance(s, ast.If)]
    if len(chain) != 1:
        raise AnalysisError("D3: inner if/elif chain not found")
    arms = []
    cur = chain[0]
    while True:
        arms.append((cur.test, cur.body))
        if len(cur.orelse) == 1 and isinstance(cur.orelse[0], ast.If):
            cur = cur.orelse[0]
        else:
            tail = cur.orelse
            break
    # names used by the return inside this block
    ret = [s for s in in_branch if isinstance(s, ast.Return)]
    used = set()
    for r in ret:
        used |= {n.id for n in ast.walk(r.value) if isinstance(n, ast.Name)}
    assigned_before = set()
    for s in fn.node.body:
        if s is t:
            break
        for n in ast.walk(s):
            if isinstance(n, ast.Name) and isinstance(n.ctx, ast.Store):
                assigned_before.add(n.id)
    need = used - assigned_before - set(fn.params)
    def _binds(body):
        return need <= {n.id for s_ in body for n in ast.walk(s_) if isinstance(n, ast.Name) and isinstance(n.ctx, ast.Store)}

    def _arm_status(test, v):
        """'yes' / 'no' / 'maybe': is the arm taken when the tested angle equals v (conjuncts that compare the angle with a literal are decided, others are open)"""
        conj = test.values if isinstance(test, ast.BoolOp) and isinstance(test.op, ast.And) else [test]
        st = "yes"
        for c in conj:
            e = eq_const(c) if isinstance(c, ast.Compare) else None
            if e is not None and ast.unparse(e[0]) == var:
                holds = (e[1] == v) == bool(e[2])
                if not holds:
                    return "no"
            else:
                st = "maybe"
        return st

    catch_all = bool(tail)
    for v in lits:
        reached = []          # arms that can be taken for this angle, in order; the walk ends at the first arm that is certainly taken
        closed = False
        for test, body in arms:
            stt = _arm_status(test, v)
            if stt == "no":
                continue
            reached.append(body)
            if stt == "yes":
                closed = True
                break
        if not closed and tail:
            reached.append(tail)
            closed = True
        total = closed
        binds = all(_binds(b) for b in reached)
        obs.append(Ob("D3", clause, fn, t, total and binds and bool(reached),
                      "equilibrium angle %s: %d branch(es) can be taken, the chain always ends in one of them=%s, every such branch binds %s=%s"
                      % (v, len(reached), total, sorted(need), binds), construct="%s == %s" % (var, v), slot="angle-literal:%s" % v,
                      # the literal is admitted by the membership test but some path through the chain takes no branch: n and b stay unbound (or keep another angle's values) for that angle
                      positive=not (total and bool(reached)) and len(arms) >= 2))
    arm_lits = set()
    for test, body in arms:
        for c in ast.walk(test):
            e = eq_const(c) if isinstance(c, ast.Compare) else None
            if e is not None and e[2] and ast.unparse(e[0]) == var:
                arm_lits.add(e[1])
    open_arm = catch_all or any(_arm_status(test, object()) != "no" for test, body in arms)
    obs.append(Ob("D3", clause, fn, t, arm_lits <= set(lits) and (arm_lits == set(lits) or open_arm),
                  "branch literals %s are admitted by the membership list %s%s" % (sorted(arm_lits), sorted(lits), "" if arm_lits == set(lits) else " (the others fall to a branch without angle test)"), slot="angle-literal-sets"))
    # styles returned vs. styles formatted
    from verif_sa.pe import decision_list as dl_
    dl = dl_(fn.node, {p: P(p) for p in fn.params})
    styles = {}
    for conds, res in dl:
        if res[0] == "ret" and res[1][0] == "list" and res[1][1][0] == "const":
            styles.setdefault(res[1][1][1], set()).add(len(res[1]) - 1)
    fmt = repo.fn("angle2lammpsdat")
    handled = {}
    for n in fmt.own_nodes():
        if not isinstance(n, ast.If):
            continue
        from .common import strip_not
        tt_, pol_ = strip_not(n.test, True)
        e_ = eq_const(tt_) if isinstance(tt_, ast.Compare) else None
        if e_ is not None and isinstance(e_[1], str):
            s = e_[1]
            for r in (n.body if e_[2] == pol_ else n.orelse):
                if isinstance(r, ast.Return) and isinstance(r.value, ast.BinOp) and isinstance(r.value.op, ast.Mod) and isinstance(r.value.left, ast.Constant):
                    handled[s] = fmt_slots(r.value.left.value)
    obs.append(Ob("D3", clause, fmt, fmt.node, set(styles) == set(handled),
                  "potential styles returned by angle_params %s = styles formatted by angle2lammpsdat %s" % (sorted(styles), sorted(handled)),
                  construct="def angle2lammpsdat", slot="style-sets"))
    # arity: assign_angle_types appends one label string to the parameter tuple
    aat = repo.fn("assign_angle_types")
    extra = None
    for n in aat.own_nodes():
        if isinstance(n, ast.ListComp) and isinstance(n.elt, ast.Tuple) and any(isinstance(e, ast.Starred) and isinstance(e.value, ast.Call) and call_name(e.value) == "angle_params" for e in n.elt.elts):
            extra = len([e for e in n.elt.elts if not isinstance(e, ast.Starred)])
    if extra is None:
        raise AnalysisError("D3: parameter tuple construction not found in assign_angle_types")
    for s in sorted(set(styles) & set(handled)):
        lens = styles[s]
        ok = lens == {handled[s] - extra}
        obs.append(Ob("D3", clause, fmt, fmt.node, ok,
                      "style %s: angle_params returns %s values, assign_angle_types adds %d, format string has %d slots" % (s, sorted(lens), extra, handled[s]),
                      construct="'%s' format" % s, slot="style-arity:%s" % s))
    return obs


def _starred_len(repo, fn, e, kind_hint=None):
    """Length contributed by a starred element of a format tuple, or None if unknown."""
    v = e.value
    if isinstance(v, ast.Call):
        callee = repo.maybe_fn(call_name(v) or "")
        if callee is not None:
            from verif_sa.pe import decision_list as dl_
            try:
                dl = dl_(callee.node, {p: P(p) for p in callee.params})
            except AnalysisError:
                return None
            lens = {len(res[1]) - 1 for c, res in dl if res[0] == "ret" and res[1][0] == "list"}
            nonlist = [res for c, res in dl if res[0] == "ret" and res[1][0] != "list" and res[1] != ("const", None)]
            if len(lens) == 1 and not nonlist:
                return lens.pop()
        if call_name(v) == "tuple" and v.args:
            return _starred_len(repo, fn, ast.Starred(value=v.args[0]), kind_hint)
        return None
    if isinstance(v, ast.BinOp) and kind_hint is not None:
        # *(np.array(tup) + 1) inside a per-kind block
        return ARITY.get(kind_hint)
    if isinstance(v, ast.Name):
        ev = expand(fn, v)
        if isinstance(ev, (ast.List, ast.Tuple)) and not any(isinstance(x, ast.Starred) for x in ev.elts):
            return len(ev.elts)
    return None


def D3_format_arity(repo, clause, modules=None):
    """%-format slot count = argument arity at every format site with a visible argument tuple."""
    obs = []
    total_sites = 0
    for fn in repo.all_fns():
        if modules is not None and fn.module.name not in modules:
            continue
        for n in fn.own_nodes():
            if isinstance(n, ast.BinOp) and isinstance(n.op, ast.Mod) and isinstance(n.left, ast.Constant) and isinstance(n.left.value, str):
                total_sites += 1
                slots = fmt_slots(n.left.value)
                right = n.right
                if isinstance(right, ast.Tuple):
                    cnt = 0
                    unknown = False
                    # kind hint from enclosing If test / the format text
                    hint = kind_of(n.left.value) or None
                    if hint is None:
                        for a in fn.ancestors(n):
                            if isinstance(a, ast.If):
                                hint = kind_of(ast.unparse(a.test))
                                if hint:
                                    break
                    for e in right.elts:
                        if isinstance(e, ast.Starred):
                            L = _starred_len(repo, fn, e, hint)
                            if L is None:
                                unknown = True
                            else:
                                cnt += L
                        else:
                            cnt += 1
                    if unknown:
                        continue
                    ok = cnt == slots
                    obs.append(Ob("D3f", clause, fn, n, ok, "format string has %d slots, argument tuple supplies %d values" % (slots, cnt),
                                  slot="fmt:%s" % re.sub(r"\s+", " ", n.left.value)[:50]))
                elif slots == 1 and not isinstance(right, (ast.Tuple, ast.Dict)):
                    if isinstance(right, ast.Name):
                        ev = expand(fn, right)
                        if isinstance(ev, ast.Tuple) and not any(isinstance(x, ast.Starred) for x in ev.elts):
                            ok = len(ev.elts) == slots
                            obs.append(Ob("D3f", clause, fn, n, ok, "format string has 1 slot, argument resolves to a %d-tuple" % len(ev.elts),
                                          slot="fmt:%s" % re.sub(r"\s+", " ", n.left.value)[:50]))
                elif isinstance(right, ast.Name):
                    ev = expand(fn, right)
                    if isinstance(ev, ast.Tuple) and not any(isinstance(x, ast.Starred) for x in ev.elts):
                        ok = len(ev.elts) == slots
                        obs.append(Ob("D3f", clause, fn, n, ok, "format string has %d slots, argument resolves to a %d-tuple" % (slots, len(ev.elts)),
                                      slot="fmt:%s" % re.sub(r"\s+", " ", n.left.value)[:50]))
    return obs


# ---- D4: window bounds ----------------------------------------------------------------------------

def affine(e, fn=None):
    """Linear form {term text: coefficient}; a constant term is keyed ''. None if not affine."""
    if isinstance(e, ast.Constant) and isinstance(e.value, (int, float)) and not isinstance(e.value, bool):
        return {"": e.value} if e.value != 0 else {}
    if isinstance(e, ast.UnaryOp) and isinstance(e.op, ast.USub):
        a = affine(e.operand, fn)
        return None if a is None else {k: -v for k, v in a.items()}
    if isinstance(e, ast.UnaryOp) and isinstance(e.op, ast.UAdd):
        return affine(e.operand, fn)
    if isinstance(e, ast.BinOp) and isinstance(e.op, (ast.Add, ast.Sub)):
        a, b = affine(e.left, fn), affine(e.right, fn)
        if a is None or b is None:
            return None
        out = dict(a)
        sgn = 1 if isinstance(e.op, ast.Add) else -1
        for k, v in b.items():
            out[k] = out.get(k, 0) + sgn * v
        return {k: v for k, v in out.items() if v != 0}
    if isinstance(e, ast.BinOp) and isinstance(e.op, ast.Mult):
        cl, cr = const_value(e.left), const_value(e.right)
        if cl is not None and isinstance(cl, (int, float)):
            a = affine(e.right, fn)
            return None if a is None else {k: v * cl for k, v in a.items()}
        if cr is not None and isinstance(cr, (int, float)):
            a = affine(e.left, fn)
            return None if a is None else {k: v * cr for k, v in a.items()}
    if isinstance(e, ast.BinOp) and isinstance(e.op, ast.Div):
        cr = const_value(e.right)
        if cr:
            a = affine(e.left, fn)
            return None if a is None else {k: v / cr for k, v in a.items()}
    return {ast.unparse(e): 1}


def _cmp_pairs(test):
    """Flatten a conjunction (and / & / chained comparisons) into binary comparisons (left, op, right)."""
    out = []

    def rec(t):
        if isinstance(t, ast.BoolOp) and isinstance(t.op, ast.And):
            for v in t.values:
                rec(v)
        elif isinstance(t, ast.BinOp) and isinstance(t.op, ast.BitAnd):
            rec(t.left)
            rec(t.right)
        elif isinstance(t, ast.Compare):
            left = t.left
            for op, right in zip(t.ops, t.comparators):
                out.append((left, op, right))
                left = right
        else:
            out.append((t, None, None))
    rec(test)
    return out


def _bound(left, op, right, is_coord):
    """Classify a comparison as ('lower'|'upper', coord expr, bound expr, strict)."""
    if op is None:
        return None
    lc, rc = is_coord(left), is_coord(right)
    if lc == rc:
        return None
    if lc:
        x, b = left, right
        if isinstance(op, (ast.GtE, ast.Gt)):
            return ("lower", x, b, isinstance(op, ast.Gt))
        if isinstance(op, (ast.LtE, ast.Lt)):
            return ("upper", x, b, isinstance(op, ast.Lt))
    else:
        x, b = right, left
        if isinstance(op, (ast.LtE, ast.Lt)):
            return ("lower", x, b, isinstance(op, ast.Lt))
        if isinstance(op, (ast.GtE, ast.Gt)):
            return ("upper", x, b, isinstance(op, ast.Gt))
    return None


def D4_windows(repo, clause):
    obs = []
    find = repo.fn("find_pattern_in_structure")
    win = repo.fn("_get_positions_from_all_adjacent_unit_cells")
    # --- search radius
    call = calls_named(find, "_get_positions_from_all_adjacent_unit_cells")
    if len(call) != 1:
        raise AnalysisError("D4: call of _get_positions_from_all_adjacent_unit_cells not found")
    gn = repo.nested(find, "get_nearby_atoms") if repo.maybe_fn("find_pattern_in_structure.get_nearby_atoms") else None
    if gn is None:
        raise AnalysisError("D4: per-start-atom cube filter (nested helper get_nearby_atoms) not found")
    gcalls = calls_named(find, "get_nearby_atoms")
    consumers = [("image window", call[0], get_arg(call[0], win.params, win.params[1]))]
    for gc in gcalls:
        consumers.append(("cube filter", gc, get_arg(gc, gn.params, gn.params[2]) if len(gn.params) > 2 else None))
    if len(consumers) < 2:
        raise AnalysisError("D4: expected the image window and the cube filter as consumers of the search radius")

    def radius_form(arg):
        """(base term text, its coefficient, atol coefficient, constant, recognised base?) of the fully expanded radius argument"""
        mats_ = [n.targets[0].id for n in find.own_nodes() if isinstance(n, ast.Assign) and isinstance(n.targets[0], ast.Name)
                 and isinstance(n.value, ast.Call) and call_name(n.value) == "cdist"]
        e = expand(find, arg, stop_names=mats_) if arg is not None else None
        aff = affine(e) if e is not None else None
        if aff is None:
            return None
        atol_c = aff.get("atol", 0)
        base = [k for k in aff if k not in ("atol", "")]
        return e, aff, atol_c, base

    def base_is_diameter(base_txt):
        m = re.match(r"^(\w+)\.max\(\) \*\* 0\.5$", base_txt) or re.match(r"^(?:np\.|math\.)?sqrt\((\w+)\.max\(\)\)$", base_txt)
        metric_need = "sqeuclidean"
        if not m:
            m = re.match(r"^(\w+)\.max\(\)$", base_txt)
            metric_need = "euclidean"
        if not m:
            return False
        mat = m.group(1)
        mdef = [n for n in find.own_nodes() if isinstance(n, ast.Assign) and isinstance(n.targets[0], ast.Name) and n.targets[0].id == mat]
        if len(mdef) == 1 and isinstance(mdef[0].value, ast.Call) and call_name(mdef[0].value) == "cdist":
            c = mdef[0].value
            a0, a1 = ast.unparse(c.args[0]), ast.unparse(c.args[1])
            metric = const_value(c.args[2]) if len(c.args) > 2 else "euclidean"
            return a0 == a1 and a0.endswith(".positions") and a0.split(".")[0] == find.params[1] and metric == metric_need
        return False

    forms = []
    for what, c, arg in consumers:
        rf = radius_form(arg)
        if rf is None:
            obs.append(Ob("D4", clause, find, c, False, "%s: search radius argument is not an affine expression" % what, slot="radius:%s" % what))
            continue
        e, aff, atol_c, base = rf
        base_txt = base[0] if len(base) == 1 else None
        recog = base_txt is not None and aff[base_txt] == 1 and base_is_diameter(base_txt)
        sub_max = base_txt is not None and re.search(r"\w+\[[^\]]+\]\.max\(\)", base_txt) is not None
        ok = recog and atol_c >= 1 and aff.get("", 0) >= 0
        forms.append(nf(e))
        obs.append(Ob("D4", clause, find, c, ok,
                      "%s: search radius = %s = 1 x (largest pattern distance%s) + %s x atol (required: the whole pattern diameter, tolerance coefficient >= 1)" % (
                          what, ast.unparse(e)[:60], "" if recog else (": only the maximum of ONE ROW of the distance matrix" if sub_max else ": NOT RECOGNISED"), atol_c),
                      slot="radius:%s" % what, positive=(recog and atol_c < 1) or sub_max))
    obs.append(Ob("D4", clause, find, call[0], len(set(map(repr, forms))) == 1 and len(forms) == len(consumers),
                  "both spatial filters receive the same radius value", slot="radius-shared", positive=len(forms) == len(consumers)))
    # --- windows in _get_positions_from_all_adjacent_unit_cells
    D = win.params[1]
    loops = [n for n in win.own_nodes() if isinstance(n, ast.For) and isinstance(n.iter, ast.Call) and call_name(n.iter) == "enumerate"]
    if len(loops) != 2:
        raise AnalysisError("D4: expected two window loops (triclinic, orthorhombic), found %d" % len(loops))
    nb = 0
    for lp in loops:
        posname = lp.target.elts[1].id
        tests = [s for s in lp.body if isinstance(s, ast.If)]
        if len(tests) != 1:
            raise AnalysisError("D4: window loop without a single filter test")
        from .common import strip_not
        wtest, wpol = strip_not(tests[0].test, True)
        skip_form = len(tests[0].body) == 1 and isinstance(tests[0].body[0], ast.Continue) and not tests[0].orelse
        if wpol == skip_form:
            # `if not inside: <keep>` or `if inside: continue` would invert the window
            obs.append(Ob("D4", clause, win, tests[0], False, "window test has inverted polarity: atoms INSIDE the window are skipped", slot="polarity"))
        gs = norm_guards(win, lp)
        is_tri = any("cell_is_orthorhombic" in ast.unparse(t) and not pol for t, pol, k in gs)
        which = "triclinic" if is_tri else "orthorhombic"
        slab = _centred_slab(win, wtest, posname, D) if is_tri else None
        if slab is not None:
            # vectorised centre-symmetric form: |unit normals . (pos - cell centre)| <= H for the three axes at once; the asymmetric window [-w - r, r] measured from the
            # origin face is the slab of half width w/2 + r around the cell centre
            recognised, hform, why = slab
            if not recognised:
                obs.append(Ob("D4", clause, win, tests[0], False, "triclinic window in centred-slab form, but %s" % why, slot="triclinic:slab-unrecognised", undecided=True))
            else:
                pc = sum(v for k, v in hform.items() if k not in (D, "") and "planedists" in k or re.match(r"^\w*(dist|width)\w*$", k or "") and k != D)
                rc = hform.get(D, 0)
                other = [k for k in hform if k not in (D, "") and not ("planedists" in k or re.match(r"^\w*(dist|width)\w*$", k))]
                if other:
                    obs.append(Ob("D4", clause, win, tests[0], False, "triclinic slab half width has unrecognised terms %s" % other, slot="triclinic:slab-unrecognised", undecided=True))
                else:
                    for ax in (0, 1, 2):
                        for side in ("lower", "upper"):
                            nb += 1
                            obs.append(Ob("D4", clause, win, tests[0], rc >= 1 and pc >= 0.5 and hform.get("", 0) >= 0,
                                          "triclinic window, axis %s, %s bound in centred-slab form: half width %s must be at least planewidth/2 + r (the window [-w - r, r] seen from the "
                                          "cell centre); found %s x planewidth + %s x r" % (ax, side, hform, pc, rc),
                                          construct="slab half width", slot="triclinic:axis%s:%s" % (ax, side), positive="robust"))
                    obs.append(Ob("D4", clause, win, tests[0], True, "triclinic window (centred slabs) bounds all three axes on both sides", construct="if <window test>", slot="triclinic:coverage"))
            continue
        pairs = _cmp_pairs(wtest)

        def is_coord(e, posname=posname):
            return any(isinstance(x, ast.Name) and x.id == posname for x in ast.walk(e))
        axes = {}
        for l, op, r in pairs:
            b = _bound(l, op, r, is_coord)
            if b is None:
                obs.append(Ob("D4", clause, win, tests[0], False, "%s window: conjunct `%s` is not a bound on a coordinate" % (which, ast.unparse(l)), slot="%s:unrecognised" % which))
                continue
            side, x, bexpr, strict = b
            ax = _axis_of(x, posname)
            a = affine(bexpr)
            rc = (a or {}).get(D, 0)
            others = {k: v for k, v in (a or {}).items() if k != D}
            if side == "lower":
                if is_tri:
                    ok = a is not None and rc <= -1 and len(others) == 1 and list(others.values())[0] == -1 and _idx_of(list(others)[0]) == ax
                    want = "<= -planewidth[%s] - r" % ax
                else:
                    ok = a is not None and rc <= -1 and not others
                    want = "<= -r"
            else:
                if is_tri:
                    ok = a is not None and rc >= 1 and not others
                    want = ">= r"
                else:
                    ok = a is not None and rc >= 1 and len(others) == 1 and list(others.values())[0] == 1 and _idx_of(list(others)[0]) == ax
                    want = ">= cell[%s] + r" % ax
            axes.setdefault(ax, set()).add(side)
            nb += 1
            obs.append(Ob("D4", clause, win, tests[0], ok and ax is not None,
                          "%s window, axis %s, %s bound `%s` must be %s (affine form %s)" % (which, ax, side, ast.unparse(bexpr), want, a),
                          construct="%s %s" % (ast.unparse(x)[:50], ast.unparse(bexpr)), slot="%s:axis%s:%s" % (which, ax, side)))
            if is_tri:
                # the tested coordinate is the signed plane distance nmults[k] * dot(nvs[k], pos) / nvnorms[k]
                idxs = {_idx_of(ast.unparse(s)) for s in ast.walk(x) if isinstance(s, ast.Subscript) and isinstance(s.value, ast.Name) and s.value.id != posname}
                obs.append(Ob("D4", clause, win, tests[0], idxs == {ax},
                              "triclinic axis %s: normal vector, its norm and the orientation sign use the same index %s" % (ax, sorted(map(str, idxs))),
                              construct=ast.unparse(x)[:80], slot="triclinic:axis%s:%s:same-index" % (ax, side)))
        cover = set(axes) == {0, 1, 2} and all(v == {"lower", "upper"} for v in axes.values())
        obs.append(Ob("D4", clause, win, tests[0], cover, "%s window bounds all three axes on both sides: %s" % (which, {k: sorted(v) for k, v in axes.items()}),
                      construct="if <window test>", slot="%s:coverage" % which))
        if is_tri and cover:
            # a ONE-SIDED window ([-w - r, r] or [-r, w + r] measured from the face through the origin along a plane normal) is right only if the normal is known to point
            # inwards (resp. outwards).  Cross products of the lattice vectors point inwards for a right-handed cell and outwards for a left-handed one, whatever order they
            # are taken in: the coordinate must carry an orientation factor computed from the cell (sign of the centre's distance, sign of the determinant)
            def _has_orientation(x_):
                xe = expand(win, x_)
                for y in ast.walk(xe):
                    if isinstance(y, ast.Call) and call_name(y) in ("sign", "copysign"):
                        return True
                    if isinstance(y, ast.BinOp) and isinstance(y.op, ast.Div) and isinstance(y.right, ast.Call) and call_name(y.right) in ("abs", "absolute", "fabs") and y.right.args:
                        num = y.left.operand if isinstance(y.left, ast.UnaryOp) else y.left
                        if nf(num) == nf(y.right.args[0]):
                            return True
                return False
            coords = [x for l, op, r in pairs for b in [_bound(l, op, r, is_coord)] if b is not None for x in [b[1]]]
            plain = [x for x in coords if not _has_orientation(x)]
            if coords and plain and any(isinstance(c_, ast.Call) and call_name(c_) == "cross" for x in plain for c_ in ast.walk(expand(win, x))):
                obs.append(Ob("D4", clause, win, tests[0], False,
                              "triclinic window: the signed plane distance `%s` is tested against a ONE-SIDED window, but the normal is a bare cross product of lattice vectors - it points into the "
                              "cell only for a right-handed set of cell vectors (det(cell) > 0); for a left-handed cell the window selects the mirror region, so no image atoms are found "
                              "(an orientation factor computed from the cell - sign of the centre's distance - is missing)" % ast.unparse(plain[0])[:60],
                              slot="triclinic:orientation-factor", positive="robust"))
    # --- cube filter in get_nearby_atoms
    gp = gn.params
    Rg = gp[2] if len(gp) >= 3 else None
    axes = {}
    for n in gn.own_nodes():
        if isinstance(n, ast.Subscript) and isinstance(n.slice, (ast.BinOp, ast.Compare)):
            for l, op, r in _cmp_pairs(n.slice):
                def is_coord2(e):
                    return isinstance(e, ast.Subscript) and isinstance(e.slice, ast.Tuple) and isinstance(e.slice.elts[0], ast.Slice)
                b = _bound(l, op, r, is_coord2)
                if b is None:
                    continue
                side, x, bexpr, strict = b
                ax = const_value(x.slice.elts[1])
                a = affine(bexpr)
                rc = (a or {}).get(Rg, 0)
                others = {k: v for k, v in (a or {}).items() if k != Rg}
                center_ok = len(others) == 1 and list(others.values())[0] == 1 and list(others)[0].endswith("[%s]" % ax)
                ok = a is not None and center_ok and ((side == "lower" and rc <= -1) or (side == "upper" and rc >= 1)) and not strict
                axes.setdefault(ax, set()).add(side)
                nb += 1
                obs.append(Ob("D4", clause, gn, n, ok, "cube filter, axis %s, %s bound `%s`: centre coordinate of the same axis %s r, inclusive" % (
                    ax, side, ast.unparse(bexpr), "-" if side == "lower" else "+"), construct=ast.unparse(bexpr), slot="cube:axis%s:%s" % (ax, side)))
    cover = set(axes) == {0, 1, 2} and all(v == {"lower", "upper"} for v in axes.values())
    obs.append(Ob("D4", clause, gn, gn.node, cover, "cube filter bounds all three axes on both sides: %s" % {k: sorted(v) for k, v in axes.items()},
                  construct="def get_nearby_atoms", slot="cube:coverage"))
    floor("D4", "window bounds", nb, 18)
    # the filtered array's rows are the results of the previous axis' filter (p -> p1 -> p2)
    return obs


def _centred_slab(win, wtest, posname, D):
    """Recognise `(np.abs(np.dot(U, pos - C)) <= H).all()` / np.all(...) with U = unit plane normals (nvs / their norms, row-wise) and C = the cell centre.
    Returns None when the test is not of that form at all, else (recognised?, affine form of H, reason)."""
    t = wtest
    if isinstance(t, ast.Call) and call_name(t) == "all":
        if isinstance(t.func, ast.Attribute) and isinstance(t.func.value, ast.Compare):
            t = t.func.value
        elif t.args and isinstance(t.args[0], ast.Compare):
            t = t.args[0]
    if not (isinstance(t, ast.Compare) and len(t.ops) == 1 and isinstance(t.ops[0], (ast.LtE, ast.Lt, ast.GtE, ast.Gt))):
        return None
    l, r = (t.left, t.comparators[0]) if isinstance(t.ops[0], (ast.LtE, ast.Lt)) else (t.comparators[0], t.left)
    if not (isinstance(l, ast.Call) and call_name(l) in ("abs", "absolute", "fabs") and l.args):
        return None
    d = l.args[0]
    if not (isinstance(d, ast.Call) and call_name(d) == "dot" and len(d.args) == 2) and not (isinstance(d, ast.BinOp) and isinstance(d.op, ast.MatMult)):
        return None
    a0, a1 = (d.args if isinstance(d, ast.Call) else (d.left, d.right))
    uexp, vexp = (a0, a1) if any(isinstance(x, ast.Name) and x.id == posname for x in ast.walk(a1)) else (a1, a0)
    if not (isinstance(vexp, ast.BinOp) and isinstance(vexp.op, ast.Sub) and isinstance(vexp.left, ast.Name) and vexp.left.id == posname):
        return (False, None, "the projected vector `%s` is not pos - centre" % ast.unparse(vexp))
    cen = re.sub(r"\s+", "", ast.unparse(expand(win, vexp.right))).replace(win.params[0] + ".cell", "cell")
    if cen not in ("cell.sum(axis=0)/2", "cell.sum(0)/2", "0.5*cell.sum(axis=0)", "cell.sum(axis=0)*0.5", "(cell[0]+cell[1]+cell[2])/2", "np.sum(cell,axis=0)/2"):
        return (False, None, "the slab centre `%s` is not recognised as the cell centre" % cen[:40])
    un = re.sub(r"\s+", "", ast.unparse(expand(win, uexp)))
    un = un.replace("None", "np.newaxis").replace(win.params[0] + ".cell", "cell")
    nv = r"(np\.array\(\[np\.cross\(cell\[0\],cell\[1\]\),np\.cross\(cell\[0\],cell\[2\]\),np\.cross\(cell\[1\],cell\[2\]\)\]\)|nvs)"
    if not (re.fullmatch(nv + r"/(np\.linalg\.norm\(" + nv + r",axis=1\)|nvnorms)\[:,np\.newaxis\]", un)
            or re.fullmatch(nv + r"/(np\.linalg\.norm\(" + nv + r",axis=1,keepdims=True\))", un)
            or re.fullmatch(r"\(" + nv + r"\.T/(np\.linalg\.norm\(" + nv + r",axis=1\)|nvnorms)\)\.T", un)):
        return (False, None, "the projection directions `%s` are not recognised as the unit plane normals" % un[:50])
    h = affine(expand(win, r, stop_names=["planedists"]))
    if h is None:
        return (False, None, "the half width `%s` is not affine" % ast.unparse(r)[:40])
    return (True, h, "")


def _axis_of(x, posname):
    for s in ast.walk(x):
        if isinstance(s, ast.Subscript) and isinstance(s.value, ast.Name) and s.value.id == posname:
            return const_value(s.slice)
    # dot(nvs[k], pos): axis = index of the normal
    for s in ast.walk(x):
        if isinstance(s, ast.Call) and call_name(s) == "dot":
            for a in s.args:
                if isinstance(a, ast.Subscript):
                    return const_value(a.slice)
    return None


def _idx_of(text):
    m = re.search(r"\[(\d+)\]$", text)
    return int(m.group(1)) if m else None
