"""Breaking variants: one small source edit each, with the properties whose check must report it.
Each entry: (id, relpath, old text, new text, [property ids]).  Edits are applied to a scratch copy of the
CURRENT tree; an entry whose old text no longer occurs exactly once is skipped (and counted as skipped)."""

M = "mofun/mofun.py"
A = "mofun/atoms.py"
H = "mofun/helpers.py"
U = "mofun/rough_uff.py"
D = "mofun/detect_bonds.py"
C = "mofun/cli/mofun_cli.py"
T = "mofun/uff4mof.py"

MUTANTS = [
    # ---- ownership (A1, A2)
    ("a1-structure-not-copied", M, "new_structure = structure.copy()", "new_structure = structure", ["C04"]),
    ("a1-search-pattern-not-copied", M, "    search_pattern = search_pattern.copy()\n", "", ["C04"]),
    ("a1-find-pattern-not-copied", M, "    pattern = pattern.copy()\n", "", ["C01"]),
    ("a1-replicate-no-copy", A, "        repl_atoms = self.copy()\n", "        repl_atoms = self\n", ["C12", "C09"]),
    ("a2-shallow-copy", A, "return copy.deepcopy(self)", "return copy.copy(self)", ["C01", "C04", "C09", "C12"]),
    # ---- typestate of the inserted fragment (A3)
    ("a3-translate-before-rotate", M,
     "            new_atoms.positions = q.apply(new_atoms.positions)\n            new_atoms.translate(atom_positions[0])\n",
     "            new_atoms.translate(atom_positions[0])\n            new_atoms.positions = q.apply(new_atoms.positions)\n", ["C05", "C04"]),
    ("a3-no-rotation", M, "            new_atoms.positions = q.apply(new_atoms.positions)\n", "", ["C05"]),
    ("a3-extend-types-per-match", M, "new_structure.extend(new_atoms, offsets=offsets)\n", "new_structure.extend(new_atoms)\n", ["C06"]),
    ("a3-delete-inside-loop", M, "                raise AtomsShouldNotBeDeletedTwice()\n\n    del(new_structure[list(to_delete)])",
     "                raise AtomsShouldNotBeDeletedTwice()\n            del(new_structure[list(to_delete)])\n", ["C04"]),
    # ---- same frame (A4)
    ("a4-search-shifted-first", M,
     "    replace_pattern.translate(-search_pattern.positions[0])\n    search_pattern.translate(-search_pattern.positions[0])\n",
     "    search_pattern.translate(-search_pattern.positions[0])\n    replace_pattern.translate(-search_pattern.positions[0])\n", ["C05", "C08"]),
    ("a4-different-shift", M, "    replace_pattern.translate(-search_pattern.positions[0])\n", "    replace_pattern.translate(-replace_pattern.positions[0])\n", ["C05", "C08"]),
    ("a4-anchor-mismatch", M, "new_atoms.translate(atom_positions[0])", "new_atoms.translate(atom_positions[1])", ["C05"]),
    # ---- overlap guard (A5)
    ("a5-and-instead-of-or", M, "to_delete.isdisjoint(to_delete_linker) or ignore_atoms_should_not_be_deleted_twice",
     "to_delete.isdisjoint(to_delete_linker) and ignore_atoms_should_not_be_deleted_twice", ["C07"]),
    ("a5-raise-removed", M, "            else:\n                raise AtomsShouldNotBeDeletedTwice()\n", "", ["C07"]),
    ("a5-retained-not-excluded", M, "to_delete_linker = set(match_indices[m_i]) - set(structure_index_map.values())", "to_delete_linker = set(match_indices[m_i])", ["C07", "C04", "C08"]),
    ("a5-update-unguarded", M, "            if (to_delete.isdisjoint(to_delete_linker) or ignore_atoms_should_not_be_deleted_twice):\n                to_delete |= set(to_delete_linker)\n",
     "            to_delete |= set(to_delete_linker)\n            if (to_delete.isdisjoint(to_delete_linker) or ignore_atoms_should_not_be_deleted_twice):\n                pass\n", ["C07"]),
    # ---- rotation gate (A6)
    ("a6-accept-unconditionally", M, "            if np.allclose(atom_positions, chk_pattern.positions, atol=atol):\n                good_indices.append(i)\n",
     "            np.allclose(atom_positions, chk_pattern.positions, atol=atol)\n            good_indices.append(i)\n", ["C01"]),
    ("a6-check-translate-before-rotate", M,
     "            chk_pattern.positions = q.apply(chk_pattern.positions)\n            chk_pattern.translate(atom_positions[axisp1_idx])\n",
     "            chk_pattern.translate(atom_positions[axisp1_idx])\n            chk_pattern.positions = q.apply(chk_pattern.positions)\n", ["C01"]),
    ("a6-wrong-anchor", M, "chk_pattern.translate(atom_positions[axisp1_idx])", "chk_pattern.translate(atom_positions[axisp2_idx])", ["C01"]),
    ("a6-result-not-from-accepted", M, "good_match_index_tuples.append(match_tuples[good_indices[0]])", "good_match_index_tuples.append(match_tuples[0])", ["C01"]),
    ("a6-quats-conditional", M, "            quats.append(q)\n            chk_pattern = pattern.copy()",
     "            if len(atom_positions) > 1:\n                quats.append(q)\n            chk_pattern = pattern.copy()", ["C01"]),
    # ---- tolerance (A7)
    ("a7-doubled-tolerance", M, "abs_tol=atol)", "abs_tol=2 * atol)", ["C01", "C02"]),
    ("a7-atol-not-forwarded", M, "find_pattern_in_structure(structure, search_pattern, atol=atol,\n", "find_pattern_in_structure(structure, search_pattern,\n", ["C05", "C20"]),
    # ---- containers (A8-A13)
    ("a8-assert-dropped-delitem", A, "            self.extra_improper_fields = np.delete(self.extra_improper_fields, arr_idx_to_delete, axis=0)\n\n        self.assert_arrays_are_consistent_sizes()",
     "            self.extra_improper_fields = np.delete(self.extra_improper_fields, arr_idx_to_delete, axis=0)\n", ["C09", "C10"]),
    ("a9-stale-index-list", A, "self.angle_types = np.delete(self.angle_types, existing_angle_indices)", "self.angle_types = np.delete(self.angle_types, existing_bond_indices)", ["C06", "C09", "C11"]),
    ("a10-ascending", A, "sorted_indices = sorted(indices, reverse=True)", "sorted_indices = sorted(indices)", ["C10", "C09"]),
    ("a10-all-instead-of-any", A, "if np.any([a in sorted_deleted_indices for a in atom_idx_tuple]):", "if np.all([a in sorted_deleted_indices for a in atom_idx_tuple]):", ["C10"]),
    ("a10-non-strict", A, "where=updated_arr>i)", "where=updated_arr>=i)", ["C10"]),
    ("a11-pop-raw-index", A, "del self[[range(len(self))[pos]]]", "del self[[pos]]", ["C10"]),
    ("a12-offset-after-append", A, [("        atom_idx_offset = len(self.positions)\n        if offsets is None:", "        if offsets is None:"),
                                    ("        # update structure index map\n", "        atom_idx_offset = len(self.positions)\n")], None, ["C11"]),
    ("a12-charges-other-selector", A, "other.charges[atoms_to_add]", "other.charges", ["C11", "C04"]),
    ("a12-map-without-offset", A, "{a:i + atom_idx_offset for i,a in enumerate(atoms_to_add)}", "{a:i for i,a in enumerate(atoms_to_add)}", ["C11", "C06"]),
    ("a12-identity-swapped", A, "self.atom_types[self_index] = other.atom_types[other_index] + offsets[0]", "self.atom_types[other_index] = other.atom_types[self_index] + offsets[0]", ["C11"]),
    ("a13-groups-not-deleted", A, "        self.groups = np.delete(self.groups, indices, axis=0)\n", "", ["C10", "C09", "C04"]),
    ("a13-getitem-drops-labels", A, "                     atom_type_labels=self.atom_type_labels,\n", "", ["C09"]),
    # ---- randomness, hints (A14, A15)
    ("a14-new-random-site", M, "    grouped_tuples2 = []\n", "    random.shuffle(all_match_index_tuples)\n", ["C03"]),
    ("a15-truthiness", M, "if len(pattern) > 2 and opoint_idx is None:", "if len(pattern) > 2 and not opoint_idx:", ["C03"]),
    # ---- CLI (A18, A19)
    ("a18-fraction-not-wired", C, ", replace_fraction=replace_fraction)", ")", ["C20"]),
    ("a18-hint-not-wired", C, "axisp1_idx=axisp1_idx, axisp2_idx=axisp2_idx, opoint_idx=opoint_idx", "axisp1_idx=axisp1_idx, axisp2_idx=axisp2_idx", ["C20", "C03"]),
    ("a18-unknown-suffix", C, "if inputpath.suffix in ['.lmpdat', '.cml', '.cif']:", "if inputpath.suffix in ['.lmpdat', '.cml', '.cif', '.xyz']:", ["C20"]),
    ("a18-option-without-parameter", C, "@click.option('--mic', type=float,", "@click.option('--mic-cutoff', type=float,", ["C20"]),
    ("a19-unknown-attribute", C, "assert len(charges) == len(atoms.positions)", "assert len(charges) == len(atoms.position)", ["C20"]),
    ("a20-missing-cif-api", A, "        if len(self.bonds) > 0:\n            block.AddLoopItem(([", "        if len(self.bonds) > 0:\n            block.AddCifItem(([", ["C15"]),
    # ---- siblings (B1, B4)
    ("b1-wrong-arity-reshape", A, "np.append(self.angles, new_angles).reshape((-1,3))", "np.append(self.angles, new_angles).reshape((-1,2))", ["C11", "C06"]),
    ("b1-count-line-wrong-kind", A, "f.write('%d angles\\n' % len(self.angle_types))", "f.write('%d angles\\n' % len(self.bond_types))", ["C13", "C09"]),
    ("b1-missing-plus-one", A, "self.dihedral_types[i] + 1, *(np.array(tup) + 1)", "self.dihedral_types[i], *(np.array(tup) + 1)", ["C13"]),
    ("b4-replicate-four-offsets", A, "offsets=(0,0,0,0,0)", "offsets=(0,0,0,0)", ["C12"]),
    ("b4-wrong-slot", A, "other.angle_types + offsets[2]", "other.angle_types + offsets[1]", ["C11", "C06", "C09"]),
    # ---- index spaces (C-idx)
    ("c-idx-position-by-candidate", M, "atom_positions = np.array([all_positions[near_indices[m]] for m in match_tuple])", "atom_positions = np.array([all_positions[m] for m in match_tuple])", ["C01"]),
    ("c-idx-fold-without-image-index", M, "match_index_tuples_in_uc = [tuple([near_indices[m] % len(structure) for m in match]) for match in good_match_index_tuples]",
     "match_index_tuples_in_uc = [tuple([m % len(structure) for m in match]) for match in good_match_index_tuples]", ["C01"]),
    ("c-idx-element-by-local-index", M, "if near_types[atom_idx] == pattern_elements[i]:", "if near_types[ss_idx] == pattern_elements[i]:", ["C01"]),
    ("c-idx-distance-by-global-index", M, "s_ss[idx2ssidx[match[j]], ss_idx]", "s_ss[match[j], ss_idx]", ["C01"]),
    ("c-idx-pairs-swapped", M, "find_unchanged_atom_pairs(replace_pattern, search_pattern)", "find_unchanged_atom_pairs(search_pattern, replace_pattern)", ["C07", "C08", "C04"]),
    ("c-idx-start-atoms-from-all-images", M, "atoms_of_type(near_types[0: len(structure)], pattern.elements[0])", "atoms_of_type(near_types, pattern.elements[0])", ["C02"]),
    # ---- axis roles
    ("c-axis-offset-contraction", M, "np.matmul(uc_vectors.T, mult[0])", "np.matmul(uc_vectors, mult[0])", ["C02", "C17"]),
    ("c-axis-plane-width-wrong-row", M, "np.dot(cell[2], nvs[0]) / nvnorms[0]", "np.dot(cell[1], nvs[0]) / nvnorms[0]", ["C02"]),
    ("c-axis-two-images", M, "np.meshgrid([-1, 0, 1],[-1, 0, 1],[-1, 0, 1])", "np.meshgrid([0, 1],[-1, 0, 1],[-1, 0, 1])", ["C02", "C17"]),
    ("c-axis-image-translation", A, "np.matmul(transatoms.cell.T, ucmult)", "np.matmul(transatoms.cell, ucmult)", ["C12"]),
    ("c-axis-wrap-unguarded", M, "            if new_structure.cell_is_orthorhombic():\n                new_atoms.positions %= np.diag(new_structure.cell)\n            else:",
     "            new_atoms.positions %= np.diag(new_structure.cell)\n            if False:\n                pass\n            else:", ["C05"]),
    # ---- windows (D4)
    ("d4-radius-without-tolerance", M, "pattern_length = p_ss.max() ** 0.5 + 2 * atol", "pattern_length = p_ss.max() ** 0.5", ["C02"]),
    ("d4-ortho-lower-bound", M, "if (pos[0] >= -distance and", "if (pos[0] >= 0 and", ["C02"]),
    ("d4-cube-half-radius", M, "(p1[:, 1] >= near_pos[a][1] - pattern_length)", "(p1[:, 1] >= near_pos[a][1] - pattern_length / 2)", ["C02"]),
    ("d4-triclinic-upper", M, "nmults[1] * np.dot(nvs[1], pos) / nvnorms[1] <= distance", "nmults[1] * np.dot(nvs[1], pos) / nvnorms[1] <= 0", ["C02"]),
    # ---- decision lists (D1, D3)
    ("d1-bond-asymmetric", U, "kij = 664.12 * zi * zj / (rij**3)", "kij = 664.12 * zi * zi / (rij**3)", ["C18", "C19"]),
    ("d1-angle-asymmetric", U, "zk = UFF4MOF[a3][5]", "zk = UFF4MOF[a2][5]", ["C18"]),
    ("d1-dihedral-asymmetric", U, "if {h[0], h[1]} <= {'2'} or {h[2], h[3]} <= {'2'}:", "if {h[0], h[1]} <= {'2'}:", ["C18", "C19"]),
    ("d1-typekey-not-canonical", H, "    if tuple(rev) <= tuple(tup):\n        return tuple(rev)\n    return tuple(tup)", "    return tuple(tup)", ["C19"]),
    ("d3-angle-arm-missing", U, "        elif theta0deg == 90.:\n            n = 4\n            b = 1\n", "", ["C18"]),
    ("d3-style-unformatted", U, "return ('fourier', kijk, c0, c1, c2)", "return ('fourier/simple', kijk, c0, c1, c2)", ["C18"]),
    ("d3-format-arity", U, "'%s %10.6f %d %d # %s' % params", "'%s %10.6f %d # %s' % params", ["C18"]),
    # ---- LAMMPS writer/reader (E1)
    ("e1-type-not-one-based", A, "(i + 1, self.groups[i] + 1, self.atom_types[i] + 1, self.charges[i], x, y, z,", "(i + 1, self.groups[i] + 1, self.atom_types[i], self.charges[i], x, y, z,", ["C13"]),
    ("e1-reader-wrong-column", A, "charges = np.array(atoms[:, 3], dtype=float)", "charges = np.array(atoms[:, 4], dtype=float)", ["C13"]),
    ("e1-tilt-transposed", A, "(self.cell[1,0], self.cell[2,0], self.cell[2,1])", "(self.cell[1,0], self.cell[2,1], self.cell[2,0])", ["C13"]),
    ("e1-section-not-parsed", A, 'f.write("\\nImpropers\\n\\n")', 'f.write("\\nImproper Terms\\n\\n")', ["C13"]),
    ("e1-comment-separator", A, 'comment_string ="   # " + comment', 'comment_string =" # " + comment', ["C13"]),
    ("e1-term-reader-offset", A, "tups = arr[:, 2:] - 1", "tups = arr[:, 2:]", ["C13"]),
    # ---- CIF (E2, E6)
    ("e2-tag-renamed", A, '"_atom_site_charge",\n                *self.extra_atom_labels,', '"_atom_site_partial_charge",\n                *self.extra_atom_labels,', ["C15"]),
    ("e2-wrap-after-product", A, "                positions %= 1.0\n                positions = positions.dot(cell)\n", "                positions = positions.dot(cell)\n                positions %= 1.0\n", ["C15"]),
    ("e2-raw-float", A, "a, b, c, alpha, beta, gamma = [tofloat(block[tag]) for tag in cell_tags]", "a, b, c, alpha, beta, gamma = [float(block[tag]) for tag in cell_tags]", ["C15"]),
    ("e6-counter-after-use", A, "            d[e] += 1\n            atom_labels.append(\"%s%d\" % (e, d[e]))\n", "            atom_labels.append(\"%s%d\" % (e, d[e]))\n            d[e] += 1\n", ["C15"]),
    # ---- CML, bonds, tables
    ("e4-ids-parsed-as-numbers", A, "bonds = [(id_to_idx[b1], id_to_idx[b2]) for (b1,b2) in bonds_by_ids]", "bonds = [(int(b1[1:]) - 1, int(b2[1:]) - 1) for (b1,b2) in bonds_by_ids]", ["C16"]),
    ("e7-non-strict", D, "if np.any(ss < max_bond_length(elements[idx1], elements[idx2])):", "if np.any(ss <= max_bond_length(elements[idx1], elements[idx2])):", ["C17"]),
    ("e7-pairs-twice", D, "enumerate(structure.positions[idx1+1:]):", "enumerate(structure.positions[idx1:]):", ["C17"]),
    ("e7-same-element-twice", D, "max_bond_length(elements[idx1], elements[idx2])", "max_bond_length(elements[idx1], elements[idx1])", ["C17"]),
    ("e7-allowance-and", D, "if el1 in NON_METALS or el2 in NON_METALS:", "if el1 in NON_METALS and el2 in NON_METALS:", ["C17"]),
    ("e3-negative-radius", D, "'Li': 1.28,", "'Li': -1.28,", ["C17"]),
    ("e3-uff-row-short", T, '"H_":    (0.354, 180.00, 2.886, 0.044, 12, 0.712, 0, 0, 4.528, 6.9452, 0.371),', '"H_":    (0.354, 180.00, 2.886, 0.044, 12, 0.712, 0, 0, 4.528, 6.9452),', ["C18"]),
    ("e3-uff-zero-charge", T, '"H_b":   (0.460, 83.50, 2.886, 0.044, 12, 0.712,', '"H_b":   (0.460, 83.50, 2.886, 0.044, 12, 0.0,', ["C18"]),
    # ---- term typing
    ("b3-threshold", U, "if exclude is not None and len(exclude) >= 3:", "if exclude is not None and len(exclude) >= 2:", ["C19"]),
    ("b3-params-of-all-terms", U, "for (a1, a2) in unique_bond_types]", "for (a1, a2) in bond_types]", ["C19"]),
    ("e9-ids-from-unsorted", U, "    atoms.atom_types = [unique_types.index(s) for s in new_types]", "    atoms.atom_types = [list(set(new_types)).index(s) for s in new_types]", ["C19"]),
    ("e10-centre-first", U, "angles += [(a, n, b) for (a,b) in itertools.combinations(g.neighbors(n), 2)]", "angles += [(n, a, b) for (a,b) in itertools.combinations(g.neighbors(n), 2)]", ["C19"]),
    ("e10-neighbour-not-removed", U, "        b_neighbors.remove(a)\n", "", ["C19"]),
    ("e11-forward-only", A, "return forward_dir + reverse_dir", "return forward_dir", ["C11", "C06"]),
    ("e12-pad-before-label-merge", A,
     "        self.extra_bond_labels |= other.extra_bond_labels\n", "", ["C11"]),
    # ---- quaternion construction
    ("q-different-half-angles", H, "return R.from_quat([*(axis*np.sin(angle / 2)), np.cos(angle/2)])", "return R.from_quat([*(axis*np.sin(angle / 2)), np.cos(angle)])", ["C01", "C05"]),
    ("q-scalar-first", H, "return R.from_quat([*(axis*np.sin(-angle / 2)), np.cos(-angle/2)])", "return R.from_quat([np.cos(-angle/2), *(axis*np.sin(-angle / 2))])", ["C01", "C05"]),
    ("q-farthest-wrong-columns", H, "ss = (ratoms[:,1:3] ** 2).sum(axis=1)", "ss = (ratoms[:,0:2] ** 2).sum(axis=1)", ["C01"]),
    ("a21-mutable-default-written", U, "    rij = bond_params(a1, a2, bond_order=bond_orders[0], bond_order_rules=bond_order_rules)[1]",
     "    bond_orders[0] = bond_orders[0] or guess_bond_order(a1, a2, bond_order_rules)\n    rij = bond_params(a1, a2, bond_order=bond_orders[0], bond_order_rules=bond_order_rules)[1]", ["C18", "C19"]),
    ("a22-module-memo", H, "def guess_elements_from_masses(masses, max_delta=1e-1):\n", "_GUESS_MEMO = {}\n\ndef guess_elements_from_masses(masses, max_delta=1e-1):\n    if tuple(masses) in _GUESS_MEMO:\n        return _GUESS_MEMO[tuple(masses)]\n    _GUESS_MEMO[tuple(masses)] = None\n", ["C14"]),
    ("e1-negative-tilt-ignored", A, "if cellxy != 0.0 or cellxz != 0.0 or cellyz != 0: # triclinic", "if cellxy > 0.0 or cellxz > 0.0 or cellyz > 0: # triclinic", ["C13"]),
    ("e2-gamma-wrong-norm", A, "np.rad2deg(np.arccos(np.dot(c[0], c[1]) / (norm(c[0]) * norm(c[1])))),", "np.rad2deg(np.arccos(np.dot(c[0], c[1]) / (norm(c[0]) * norm(c[2])))),", ["C15"]),
    ("a18-cli-edits-pattern", C, "        if replace_path is not None:\n            replace_pattern = Atoms.load(replace_path)\n", "        if replace_path is not None:\n            replace_pattern = Atoms.load(replace_path)\n            search_pattern.translate(-search_pattern.positions[0])\n", ["C20"]),
    ("e5-wrong-mode", A, "            with use_or_open(fd, path, mode='w') as fh:\n                return self.save_p1_cif(fh, **kwargs)", "            with use_or_open(fd, path) as fh:\n                return self.save_p1_cif(fh, **kwargs)", ["C13"]),
]


# one-node mutants that survived the pinned tests AND the checks in the systematic sweep (tools/mutation_sweep.py) and drove new rules;
# stored as whole-line replacements in selftest/sweep_mutants.json
def _load_sweep():
    import json
    import os
    p = os.path.join(os.path.dirname(os.path.abspath(__file__)), "sweep_mutants.json")
    try:
        with open(p) as f:
            return [tuple(x) for x in json.load(f)]
    except OSError:
        return []


MUTANTS.extend(_load_sweep())
