"""Command-line driver: decide one property with its static rules and write evidence."""
import argparse
import json
import os
import sys
import traceback

from .core import (AnalysisError, Timer, VERIF_ROOT, finding_matches, load_known_findings, write_evidence, classify)
from .facts import Repo


def run_rules(repo, prop, tier):
    from rules.registry import PROPERTIES
    spec = PROPERTIES[prop]
    obs = []
    errors = []
    entries = list(spec["rules"]) + (list(spec.get("thorough_rules", [])) if tier == "thorough" else [])
    for entry in entries:
        rule, clause = entry[0], entry[1]
        kwargs = entry[2] if len(entry) > 2 else {}
        try:
            from .core import call_rule
            got = call_rule(rule, repo, clause, **kwargs)
            if not got:
                raise AnalysisError("rule %s produced no obligation for %s (vacuous pass refused)" % (rule.__name__, prop))
            obs.extend(got)
        except AnalysisError as e:
            # one rule that cannot decide does not silence the violations other rules can report
            errors.append("%s: %s" % (rule.__name__, e))
        except Exception as e:
            import traceback as _tb
            errors.append("%s: internal error %s: %s | %s" % (rule.__name__, type(e).__name__, e, _tb.format_exc().strip().splitlines()[-3:]))
    classify(obs)
    seen_u = set()
    for o in obs:
        if o.status == "undecided" and o.key not in seen_u:
            seen_u.add(o.key)
            errors.append("UNDECIDED %s %s:%d %s :: %s -- the construct is not in a shape this rule can judge (%s)" % (
                o.rule, o.file, o.line, o.func, o.construct[:80], o.detail[:160]))
    return spec, obs, errors


def main(argv=None):
    ap = argparse.ArgumentParser(prog="check")
    ap.add_argument("property")
    ap.add_argument("--tier", default=os.environ.get("VERIF_TIER", "quick"), choices=["quick", "thorough"])
    ap.add_argument("--replay", default=None)
    ap.add_argument("--quiet", action="store_true")
    ap.add_argument("--no-evidence", action="store_true", help="do not write evidence/replay files (used by the self-test on scratch copies)")
    ap.add_argument("--json", action="store_true", help="print violated obligation keys as JSON (self-test)")
    args = ap.parse_args(argv)
    prop = args.property
    seed = int(os.environ.get("VERIF_SEED", "0") or 0)
    timer = Timer()
    sys.path.insert(0, VERIF_ROOT)
    try:
        from rules.registry import PROPERTIES
        if prop not in PROPERTIES:
            print("ANALYSIS-ERROR unknown property %s" % prop)
            return 2
        repo = Repo()
        spec, obs, rule_errors = run_rules(repo, prop, args.tier)
        selftest_info = None
        if args.tier == "thorough" and not args.replay and not args.no_evidence:
            _kf = load_known_findings()
            bad_now = [o for o in obs if o.status == "violated" and not any(finding_matches(f, prop, o) for f in _kf)]
            from selftest.corpus import run_corpus
            selftest_info = run_corpus(prop, skip=bool(bad_now) or bool(rule_errors), seed=seed)
    except AnalysisError as e:
        print("ANALYSIS-ERROR property=%s %s" % (prop, e))
        return 2
    except Exception:
        traceback.print_exc()
        print("ANALYSIS-ERROR property=%s internal error in the checker (see traceback)" % prop)
        return 2

    if args.replay:
        try:
            with open(args.replay) as f:
                rp = json.load(f)
        except Exception as e:
            print("ANALYSIS-ERROR cannot read replay file %s: %s" % (args.replay, e))
            return 2
        hits = [o for o in obs if o.key == rp.get("key")]
        if not hits:
            print("REPLAY property=%s key=%s: obligation no longer enumerated on the current tree" % (prop, rp.get("key")))
            return 2
        rc = 0
        for o in hits:
            print(o.line_text())
            if not o.ok:
                rc = 1
        if rc:
            print("VIOLATION property=%s replay=%s" % (prop, args.replay))
        return rc

    if rule_errors and not any(o.status == "violated" for o in obs):
        for e in rule_errors:
            print("ANALYSIS-ERROR property=%s %s" % (prop, e))
        return 2
    for e in rule_errors:
        print("NOTE property=%s a rule could not decide (reported because other rules found violations): %s" % (prop, e))
    findings = load_known_findings()
    violated = [o for o in obs if o.status == "violated"]
    known, new = [], []
    for o in violated:
        f = next((f for f in findings if finding_matches(f, prop, o)), None)
        (known if f else new).append((o, f))

    st = repo.stats()
    if not args.quiet:
        print("property %s  tier %s  repo %s" % (prop, args.tier, repo.root))
        print("analysed: %(modules)d modules, %(functions)d functions, %(call_sites)d call sites, %(subscripts)d subscripts" % st)
        for o in obs:
            print("  " + o.line_text())
        print("obligations: %d enumerated, %d discharged, %d violated (%d known findings)" % (
            len(obs), len(obs) - len(violated), len(violated), len(known)))

    if args.json:
        print("JSON " + json.dumps({"violated": sorted({o.key for o in violated}), "n": len(obs)}))

    seen = set()
    for o, f in known:
        if o.key in seen:
            continue
        seen.add(o.key)
        print("KNOWN-FINDING: property=%s %s [%s %s %s:%d] %s" % (prop, f.get("what", ""), o.rule, o.func, o.file, o.line, o.detail))

    rc = 0
    replay_dir = os.path.join(VERIF_ROOT, "evidence", "replay")
    k = 0
    seen = set()
    for o, _ in new:
        if o.key in seen:
            continue
        seen.add(o.key)
        k += 1
        rc = 1
        path = os.path.join(replay_dir, "%s-%d.json" % (prop, k))
        if not args.no_evidence:
            os.makedirs(replay_dir, exist_ok=True)
            with open(path, "w") as f:
                json.dump({"property": prop, "key": o.key, "obligation": o.as_dict()}, f, indent=1)
        print("VIOLATION property=%s replay=%s" % (prop, path))
        print("   " + o.line_text())

    if not args.no_evidence:
        extra = {"analysed": st, "clauses_decided": spec["decided"], "not_decided": spec["not_decided"]}
        folded = sorted({"%s:%s (%s)" % (m.relpath, q, how) for m in repo.modules.values() for q, how, _ln in getattr(m, "inlined", [])})
        extra["new_helpers_folded_into_callers"] = folded
        if selftest_info is not None:
            extra["both_ways_selftest"] = selftest_info
        write_evidence(prop, args.tier, seed, obs, timer.elapsed(), spec["explanation"], spec["assumptions"],
                       extra=extra, violations=len(seen), known=len(known))
    return rc


if __name__ == "__main__":
    sys.exit(main())
