"""Family C: index spaces and matrix-axis roles."""
import ast
import re

from .common import (Ob, AnalysisError, call_name, dotted, kwarg, get_arg, names_in, expand, nf, nf_expanded, same,
                     contains_nf, calls_in, calls_named, method_calls_on, floor, norm_guards, const_value, KINDS, ARITY,
                     kind_of, is_self_attr, loop_paths)
from verif_sa import isa
from verif_sa.isa import Idx, Seq, VEC, ROT, NUM, BOOL
from verif_sa.core import FileObj


def _collect(repo, W, clause, rule, only_funcs=None):
    obs = []
    seen = set()
    for qual, node, what, ok, detail in W.obl:
        if only_funcs is not None and qual.split(".")[0] not in only_funcs and qual not in only_funcs:
            continue
        key = (qual, what, re.sub(r"\s+", " ", ast.unparse(node))[:120], ok)
        if key in seen:
            continue
        seen.add(key)
        fn = repo.maybe_fn(qual)
        if fn is None:
            # nested helper: report against the outer function
            outer = qual
            while fn is None and "." in outer:
                outer = outer.rsplit(".", 1)[0]
                fn = repo.maybe_fn(outer)
        if fn is None:
            fn = FileObj("?", qual)
        # a clash between two NAMED index spaces (structure atoms, pattern atoms, replacement atoms ...) is a contradiction inside the analysed code, whatever shape the
        # function has; a clash that involves an inferred anonymous space (filter / sorted / loop spaces, marked #) may be an artefact of the inference
        spaces = re.findall(r"\[([^\]]*)\]", detail)
        named = bool(spaces) and all(("#" not in sp and "?" not in sp and "None" not in sp) for sp in spaces)
        sample_case = False
        # a random.sample(...) selection is a definite re-numbering, not an artefact of the inference: positions in the selected list are not positions in the full list.
        # A clash between a named space and (a join with) a selection of it stays a contradiction whatever shape the function has.
        if not named and spaces and all("?" not in sp and "None" not in sp for sp in spaces) and any("#" not in sp for sp in spaces):
            anon = [a for sp in spaces for a in re.findall(r"(\w+)#\d+", sp)]
            named = sample_case = bool(anon) and all(a == "sample" for a in anon)
        obs.append(Ob(rule, clause, fn, node, ok, "%s: %s" % (what, detail),
                      slot="%s:%s" % (what, re.sub(r"\s+", " ", ast.unparse(node))[:100]),
                      positive="robust" if (not ok and named and (what in ("membership", "compare-idx", "map-lookup", "set-op", "extend-map-key", "extend-map-value")
                                                                   or (sample_case and what == "subscript"))) else True))
    return obs


def _find_seed(fn_, args, kw):
    """Documented return shape of find_pattern_in_structure(structure, pattern, ...)."""
    s = args[0] if len(args) > 0 else kw.get("structure")
    p = args[1] if len(args) > 1 else kw.get("pattern")
    if not (isa.is_(s, "atoms") and isa.is_(p, "atoms")):
        return None
    M = "MATCH"
    return ("tup", [Seq(M, Seq(p[1], Idx(s[1]))), Seq(M, Seq(p[1], VEC)), Seq(M, ROT)])


def C_idx_find(repo, clause):
    S, Pp = "S", "P"
    env = {"structure": ("atoms", S), "pattern": ("atoms", Pp), "axisp1_idx": Idx(Pp), "axisp2_idx": Idx(Pp), "opoint_idx": Idx(Pp),
           "atol": NUM, "return_positions_and_quats": BOOL}
    fnobj = repo.fn("find_pattern_in_structure")
    for p in ("structure", "pattern", "axisp1_idx", "axisp2_idx", "opoint_idx"):
        if p not in fnobj.params:
            raise AnalysisError("C-idx: find_pattern_in_structure lost parameter %s" % p)
    W, f = isa.analyse(repo, "find_pattern_in_structure", env)
    obs = _collect(repo, W, clause, "Cidx")
    kinds = {}
    for o in obs:
        k = o.slot.split(":")[0]
        kinds[k] = kinds.get(k, 0) + 1
    # start atoms must come from the home-cell block of the image-major lists
    if kinds.get("home-block", 0) < 1:
        st = [c for c in calls_in(fnobj) if call_name(c) == "atoms_of_type"]
        obs.append(Ob("Cidx", clause, fnobj, st[0] if st else fnobj.node, False,
                      "start atoms are not restricted to the home-cell block [0:len(structure)] of the image lists: every periodic occurrence is then generated once per image",
                      slot="home-block:missing",
                      positive=bool(st) and bool(st[0].args) and not any(isinstance(x, ast.Subscript) for x in ast.walk(expand(fnobj, st[0].args[0])))))
    if not any(not o.ok for o in obs):
        floor("Cidx", "typed index obligations in the search", len(obs), 10)
        # floors at about two thirds of the counts confirmed on the reference tree: an equivalent rewrite legitimately removes a few indexed accesses (zip instead of
        # an index, a hoisted lookup), losing MOST of them means the inference no longer follows the function
        for need, n in (("fold idx%len", 1), ("subscript", 8), ("mat-subscript", 2), ("map-lookup", 1), ("home-block", 1)):
            if kinds.get(need, 0) < n:
                from verif_sa.core import note_floor
                note_floor("C-idx: only %d `%s` obligations typed in the search (floor %d): coverage lost" % (kinds.get(need, 0), need, n))
    # returned shape
    rt = f.ret
    ok = isa.is_(rt, "tup") and len(rt[1]) == 3 and all(isa.is_(x, "seq") for x in rt[1]) and \
        W.same(rt[1][0][1], rt[1][1][1]) and W.same(rt[1][0][1], rt[1][2][1]) and \
        isa.is_(rt[1][0][2], "seq") and isa.is_(rt[1][0][2][2], "idx") and W.same(rt[1][0][2][2][1], S)
    obs.append(Ob("Cidx", clause, fnobj, fnobj.node, ok,
                  "the three results (index tuples, positions, rotations) are enumerated by the same match space and the indices are unit-cell atom indices: %s" % (str(rt)[:160]),
                  construct="return (indices, positions, rotations)", slot="return-shape",
                  positive=isa.is_(rt, "tup") and len(rt[1]) == 3 and all(isa.is_(x, "seq") and x[1] for x in rt[1]) and not _ret_unknown(rt),
                  undecided=not ok and _ret_unknown(rt)))
    # same fold expression in result, positions and grouping key
    obs.extend(_fold_agreement(repo, fnobj, clause))
    return obs


def _fold_agreement(repo, fn, clause):
    obs = []
    allp = None
    for n in fn.own_nodes():
        if isinstance(n, ast.Assign) and isinstance(n.value, ast.Call) and call_name(n.value) == "_get_positions_from_all_adjacent_unit_cells":
            t = n.targets[0]
            if isinstance(t, ast.Tuple) and len(t.elts) == 4:
                near_idx, allp = t.elts[2].id, t.elts[3].id
    if allp is None:
        raise AnalysisError("C-idx: unpacking of the four image lists not found")
    folds = []
    len_alias = {}
    for n in fn.all_nodes():
        if isinstance(n, ast.Assign) and len(n.targets) == 1 and isinstance(n.targets[0], ast.Name) and isinstance(n.value, ast.Call) and call_name(n.value) == "len":
            len_alias[n.targets[0].id] = n.value
    for n in fn.all_nodes():
        if isinstance(n, ast.BinOp) and isinstance(n.op, ast.Mod) and isinstance(n.right, ast.Call) and call_name(n.right) == "len":
            folds.append(n)
        elif isinstance(n, ast.BinOp) and isinstance(n.op, ast.Mod) and isinstance(n.right, ast.Name) and n.right.id in len_alias:
            import copy as _copy
            n2 = _copy.copy(n)
            n2.right = len_alias[n.right.id]
            folds.append(n2)
    poss = [n for n in fn.all_nodes() if isinstance(n, ast.Subscript) and isinstance(n.value, ast.Name) and n.value.id == allp]

    def shape(e):
        # near_indices[<var>] with the bound variable abstracted
        if isinstance(e, ast.Subscript) and isinstance(e.value, ast.Name) and isinstance(e.slice, ast.Name):
            return (e.value.id, "VAR")
        return ast.unparse(e)
    fshapes = {shape(n.left) for n in folds}
    pshapes = {shape(n.slice) for n in poss}
    lens = {ast.unparse(n.right) for n in folds}
    ok = len(folds) >= 2 and len(fshapes) == 1 and fshapes == pshapes and next(iter(fshapes))[0] == near_idx and \
        lens == {"len(%s)" % fn.params[0]}
    obs.append(Ob("Cidx", clause, fn, folds[0] if folds else fn.node, ok,
                  "returned index, returned position and the duplicate-grouping key all go through the same image index %s[<candidate atom>] "
                  "(%d folds %s, %d position lookups %s) and fold with the structure's atom count %s" % (near_idx, len(folds), sorted(map(str, fshapes)), len(poss), sorted(map(str, pshapes)), sorted(lens)),
                  slot="fold-agreement",
                  positive=(not ok) and len(folds) >= 2 and (len(fshapes) > 1 or (len(fshapes) == 1 and fshapes != pshapes and len(pshapes) == 1) or lens != {"len(%s)" % fn.params[0]}),
                  undecided=(not ok) and not (len(folds) >= 2 and (len(fshapes) > 1 or (len(fshapes) == 1 and fshapes != pshapes and len(pshapes) == 1) or lens != {"len(%s)" % fn.params[0]}))))
    # grouping key is order-free
    gk = [c for c in calls_in(fn) if call_name(c) == "group_duplicates"]
    ok = len(gk) == 1 and kwarg(gk[0], "key") is not None and isinstance(kwarg(gk[0], "key"), ast.Lambda) and \
        any(isinstance(c, ast.Call) and call_name(c) == "sorted" for c in ast.walk(kwarg(gk[0], "key")))
    # an order-free key must still keep MULTIPLICITY: a match may contain an atom and its own periodic image (folded to the same index twice); a set / frozenset
    # key merges {A, A, B} with {A, B, B}, the sorted tuple does not
    setkey = None
    if len(gk) == 1 and kwarg(gk[0], "key") is not None:
        kx = expand(fn, kwarg(gk[0], "key"))
        body = kx.body if isinstance(kx, ast.Lambda) else None
        if body is not None and isinstance(body, ast.Call) and isinstance(body.func, ast.Name) and body.func.id in ("frozenset", "set") \
                and not any(isinstance(c, ast.Call) and call_name(c) in ("sorted", "Counter") for c in ast.walk(body)):
            setkey = body
    if setkey is not None:
        obs.append(Ob("Cidx", clause, fn, gk[0], False,
                      "duplicate grouping key `%s` is a SET of folded atom indices: it is order-free but also drops multiplicity - two different occurrences that use the same atoms a "
                      "different number of times (an atom together with its own periodic image: {A, A, B} and {A, B, B}) are merged into one" % ast.unparse(setkey)[:60],
                      slot="group-key-sorted", positive="robust"))
    else:
        obs.append(Ob("Cidx", clause, fn, gk[0] if gk else fn.node, ok, "duplicate grouping key is the sorted tuple of folded atom indices (order-free)", slot="group-key-sorted"))
    gd = repo.fn("group_duplicates")
    appends = [c for c in calls_in(gd) if isinstance(c.func, ast.Attribute) and c.func.attr == "append"]
    stores = [n for n in gd.own_nodes() if isinstance(n, ast.Assign) and isinstance(n.targets[0], ast.Subscript)]
    ok = len(appends) == 1 and len(stores) == 1 and isinstance(stores[0].value, ast.List) and len(stores[0].value.elts) == 1
    obs.append(Ob("Cidx", clause, gd, gd.node, ok, "group_duplicates keeps every candidate under its key (first creates the list, later ones append)", construct="def group_duplicates", slot="group-all-kept"))
    return obs


def C_idx_replace(repo, clause):
    S, Pp, Rp = "S", "P", "Rp"
    env = {"structure": ("atoms", S), "search_pattern": ("atoms", Pp), "replace_pattern": ("atoms", Rp), "atol": NUM,
           "axisp1_idx": Idx(Pp), "axisp2_idx": Idx(Pp), "opoint_idx": Idx(Pp)}
    fnobj = repo.fn("replace_pattern_in_structure")
    W, f = isa.analyse(repo, "replace_pattern_in_structure", env, seeds={"find_pattern_in_structure": _find_seed})
    obs = _collect(repo, W, clause, "Cidx")
    kinds = {}
    for o in obs:
        k = o.slot.split(":")[0]
        kinds[k] = kinds.get(k, 0) + 1
    if not any(not o.ok for o in obs):
        floor("Cidx", "typed index obligations in the replacement", len(obs), 6)
    for need, n in (("extend-map-key", 1), ("extend-map-value", 1), ("set-op", 1), ("delete-index", 1), ("subscript", 3)):
        if kinds.get(need, 0) < n and not any(not o.ok for o in obs):
            from verif_sa.core import note_floor
            note_floor("C-idx: only %d `%s` obligations typed in the replacement (floor %d): coverage lost" % (kinds.get(need, 0), need, n))
    # reported count = length of the filtered index list
    rets = [n for n in fnobj.own_nodes() if isinstance(n, ast.Return) and isinstance(n.value, ast.Tuple)]
    ok = False
    if len(rets) == 1:
        c = rets[0].value.elts[1]
        fc = calls_named(fnobj, "find_pattern_in_structure")
        tgt = fnobj.stmt_of(fc[0]).targets[0] if fc else None
        stale = None
        if isinstance(c, ast.Name):
            # a count held in a local: it must have been taken from the list as it is at the return (after the sub-sampling), not before
            from verif_sa.dataflow import stale_names
            uv = fnobj.rd.unique_value(c)
            if uv is not None:
                st_names = stale_names(fnobj, uv[0], rets[0], uv[1])
                if st_names:
                    stale = (c.id, ast.unparse(uv[1]), st_names)
                else:
                    c = uv[1]
        ok = stale is None and isinstance(c, ast.Call) and call_name(c) == "len" and isinstance(c.args[0], ast.Name) and isinstance(tgt, ast.Tuple) \
            and c.args[0].id in [e.id for e in tgt.elts]
    else:
        stale = None
    obs.append(Ob("Cidx", clause, fnobj, rets[0] if rets else fnobj.node, ok,
                  "reported match count is the length of the (filtered) match list" if stale is None else
                  "reported match count `%s = %s` was taken BEFORE `%s` is re-assigned (the sub-sampling by replace_fraction): the number of matches FOUND is reported, not the number replaced" % (
                      stale[0], stale[1], ", ".join(stale[2])), slot="reported-count", positive=stale is not None))
    return obs


def _ret_unknown(rt):
    """are the components the return-shape judgement reads unknown (the inference lost track, e.g. through a helper it cannot type) rather than conflicting?"""
    try:
        if not (isinstance(rt, tuple) and rt[0] == "tup" and len(rt[1]) == 3):
            return True
        comps = [rt[1][0][1], rt[1][1][1], rt[1][2][1], rt[1][0][2]]
        if rt[1][0][2] is not None:
            comps.append(rt[1][0][2][2])
        return any(c is None for c in comps)
    except Exception:
        return True


def _unknown_inside(t):
    """does an inferred type contain an unknown (None) component?  Then the inference lost track (e.g. through a helper it cannot type), it did not find a conflict"""
    if t is None:
        return True
    if isinstance(t, (tuple, list)):
        return any(_unknown_inside(x) for x in t[1:]) if t and isinstance(t[0], str) else any(_unknown_inside(x) for x in t)
    return False


def C_find_gates(repo, clause):
    fn = repo.fn("find_pattern_in_structure")
    obs = []
    # candidate-extension append: <list>.append(match + [atom])
    ext = [c for c in calls_in(fn) if isinstance(c.func, ast.Attribute) and c.func.attr == "append" and c.args
           and isinstance(c.args[0], ast.BinOp) and isinstance(c.args[0].op, ast.Add) and isinstance(c.args[0].right, ast.List)]
    if len(ext) != 1:
        raise AnalysisError("C01: candidate extension append not found uniquely (%d)" % len(ext))
    app = ext[0]
    new_atom = app.args[0].right.elts[0]
    prefix = app.args[0].left
    loops = [a for a in fn.ancestors(app) if isinstance(a, ast.For)]
    # loops: [candidate atom loop, partial-match loop, pattern-position loop, start-atom loop]
    if len(loops) < 3:
        raise AnalysisError("C01: extension append is not nested in (pattern position, partial match, candidate atom) loops")
    pos_loop = next((l for l in loops if isinstance(l.iter, ast.Call) and call_name(l.iter) == "range"), None)
    if pos_loop is None:
        raise AnalysisError("C01: loop over pattern positions (range) not found")
    ivar = pos_loop.target.id
    r = pos_loop.iter
    lo = const_value(r.args[0]) if len(r.args) == 2 else 0
    hi = r.args[-1]
    ok = lo == 1 and isinstance(hi, ast.Call) and call_name(hi) == "len" and ast.unparse(hi.args[0]) == fn.params[1]
    obs.append(Ob("Cgate", clause, fn, pos_loop, ok, "pattern positions 1 .. len(pattern)-1 are each extended in turn (position 0 is the start atom)", slot="position-loop"))
    start = [n for n in fn.own_nodes() if isinstance(n, ast.Call) and call_name(n) == "atoms_of_type"]
    ok = len(start) == 1 and len(start[0].args) == 2 and re.sub(r"\s", "", ast.unparse(expand(fn, start[0].args[1]))) == "%s.elements[0]" % fn.params[1]
    obs.append(Ob("Cgate", clause, fn, start[0] if start else fn.node, ok, "start atoms are the atoms with the element of pattern position 0", slot="start-element"))
    # element gate
    gs = norm_guards(fn, app, stop=pos_loop)
    el = None
    for t, pol, k in gs:
        if isinstance(t, ast.Compare) and len(t.ops) == 1 and ((pol and isinstance(t.ops[0], ast.Eq)) or (not pol and isinstance(t.ops[0], ast.NotEq))):
            sides = [t.left, t.comparators[0]]
            subs = [s for s in sides if isinstance(s, ast.Subscript)]
            if len(subs) == 2:
                idxs = [ast.unparse(s.slice) for s in subs]
                if ivar in idxs and ast.unparse(new_atom) in idxs:
                    el = (t, subs)
    ok = el is not None
    detail = "a candidate is appended only when the structure atom's element equals the element of the pattern position being extended"
    if ok:
        t, subs = el
        pat_side = [s for s in subs if ast.unparse(s.slice) == ivar][0]
        src = expand(fn, pat_side.value)
        ok = ast.unparse(src) == "%s.elements" % fn.params[1]
        detail += " (%s; pattern side resolves to %s)" % (ast.unparse(t), ast.unparse(src))
    obs.append(Ob("Cgate", clause, fn, el[0] if el else app, ok, detail, slot="element-gate"))
    # distance gate through a flag or directly
    flag = None
    for t, pol, k in gs:
        if pol and isinstance(t, ast.Name) and any(
                isinstance(n_, ast.Assign) and any(isinstance(tg_, ast.Name) and tg_.id == t.id for tg_ in n_.targets) and isinstance(const_value(n_.value), bool)
                for n_ in fn.own_nodes()):
            flag = t.id      # a boolean flag (assigned True / False somewhere), not the truth value of a list that guards the round
    closeness = [c for c in calls_in(fn) if call_name(c) == "isclose" and pos_loop in list(fn.ancestors(c))]
    if len(closeness) != 1:
        raise AnalysisError("C01: distance comparison (isclose) not found uniquely in the extension loop")
    cl = closeness[0]
    comp = next((a for a in fn.ancestors(cl) if isinstance(a, (ast.GeneratorExp, ast.ListComp))), None)
    quant = None
    if comp is not None and len(comp.generators) == 1 and not comp.generators[0].ifs:
        par = fn.parents.get(comp)
        if isinstance(par, ast.Call) and call_name(par) in ("all", "any"):
            quant = par
    if quant is not None:
        dl = comp
        jvar = comp.generators[0].target.id if isinstance(comp.generators[0].target, ast.Name) else None
        rr = comp.generators[0].iter
    else:
        dloops = [a for a in fn.ancestors(cl) if isinstance(a, ast.For)]
        dl = dloops[0]
        jvar = dl.target.id if isinstance(dl.target, ast.Name) else None
        rr = dl.iter
    full = isinstance(rr, ast.Call) and call_name(rr) == "range" and ((len(rr.args) == 1 and ast.unparse(rr.args[0]) == ivar) or
                                                                      (len(rr.args) == 2 and const_value(rr.args[0]) == 0 and ast.unparse(rr.args[1]) == ivar))
    obs.append(Ob("Cgate", clause, fn, dl, full, "the distance check ranges over ALL earlier pattern positions 0 .. i-1 (%s)" % ast.unparse(rr), slot="full-prefix"))
    a0, a1 = cl.args[0], cl.args[1]

    def unpow(e):
        if isinstance(e, ast.BinOp) and isinstance(e.op, ast.Pow):
            return e.left, const_value(e.right)
        if isinstance(e, ast.Call) and call_name(e) == "sqrt":
            return e.args[0], 0.5
        return e, 1
    b0, p0 = unpow(a0)
    b1, p1 = unpow(a1)
    def mat_of(b):
        return b.value.id if isinstance(b, ast.Subscript) and isinstance(b.value, ast.Name) else None
    mats = {}
    for n in fn.own_nodes():
        if isinstance(n, ast.Assign) and isinstance(n.value, ast.Call) and call_name(n.value) == "cdist" and isinstance(n.targets[0], ast.Name):
            mats[n.targets[0].id] = n.value
    m0, m1 = mat_of(b0), mat_of(b1)
    ok = p0 == p1 and m0 in mats and m1 in mats and m0 != m1
    if ok:
        metrics = {const_value(mats[m].args[2]) if len(mats[m].args) > 2 else "euclidean" for m in (m0, m1)}
        ok = len(metrics) == 1
        pat_m = [m for m in (m0, m1) if ast.unparse(mats[m].args[0]).startswith(fn.params[1] + ".")]
        ok = ok and len(pat_m) == 1
        if ok:
            pb = b0 if m0 == pat_m[0] else b1
            sb = b1 if m0 == pat_m[0] else b0
            pidx = [ast.unparse(x) for x in pb.slice.elts] if isinstance(pb.slice, ast.Tuple) else []
            ok = sorted(pidx) == sorted([ivar, jvar])
            # structure side: [map[prefix[j]], current candidate]
            sidx = sb.slice.elts if isinstance(sb.slice, ast.Tuple) else []
            txt = [ast.unparse(x) for x in sidx]
            ok = ok and len(txt) == 2 and any("%s[%s]" % (ast.unparse(prefix), jvar) in t for t in txt)
    obs.append(Ob("Cgate", clause, fn, cl, ok,
                  "pattern distance (i, j) is compared with the structure distance (atom matched to j, candidate), same metric and same power on both sides: %s" % ast.unparse(cl)[:110],
                  slot="distance-operands"))
    # gating: a quantified test, or a flag whose False-definitions are guarded by (not isclose), reset per candidate
    if quant is not None:
        direct = call_name(quant) == "all" and any(pol and any(x is quant for x in ast.walk(t)) for t, pol, k in gs)
        obs.append(Ob("Cgate", clause, fn, app, direct, "extension is control-dependent on ALL earlier distances being within tolerance (%s)" % ast.unparse(quant)[:60], slot="distance-gate"))
    elif flag is not None:
        defs = [n for n in fn.own_nodes() if isinstance(n, ast.Assign) and any(isinstance(t, ast.Name) and t.id == flag for t in n.targets)]
        tdefs = [d for d in defs if const_value(d.value) is True]
        fdefs = [d for d in defs if const_value(d.value) is False]
        ok_false = bool(fdefs) and all(any((not pol) and any(x is cl for x in ast.walk(t)) for t, pol, k in norm_guards(fn, d)) for d in fdefs)
        cand_loop = loops[0]
        ok_true = len(tdefs) == 1 and cand_loop in list(fn.ancestors(tdefs[0])) and dl not in list(fn.ancestors(tdefs[0])) and \
            fn.cfg.dominates(tdefs[0], dl)
        other = [d for d in defs if d not in tdefs and d not in fdefs]
        ok = ok_false and ok_true and not other
        obs.append(Ob("Cgate", clause, fn, app, ok,
                      "extension is control-dependent on flag `%s`: reset to True per candidate before the distance loop=%s, set False exactly when a distance is not within tolerance=%s"
                      % (flag, ok_true, ok_false), slot="distance-gate"))
    else:
        direct = any(pol and any(x is cl for x in ast.walk(t)) for t, pol, k in gs)
        obs.append(Ob("Cgate", clause, fn, app, direct, "extension is directly control-dependent on the distance comparison", slot="distance-gate"))
    # survivors replace the candidates: the list extended in round i is what round i+1 iterates
    return obs


def C_unchanged_pairs(repo, clause):
    fn = repo.fn("find_unchanged_atom_pairs")
    obs = []
    app = [c for c in calls_in(fn) if isinstance(c.func, ast.Attribute) and c.func.attr == "append"]
    if len(app) != 1:
        raise AnalysisError("C08: pair append not found")
    a = app[0]
    loops = [l for l in fn.ancestors(a) if isinstance(l, ast.For)]
    if len(loops) != 2:
        raise AnalysisError("C08: pair loops not found")
    inner, outer = loops
    def enum_info(l):
        if isinstance(l.iter, ast.Call) and call_name(l.iter) == "enumerate" and isinstance(l.target, ast.Tuple):
            src = l.iter.args[0]
            if isinstance(src, ast.Attribute) and src.attr == "positions" and isinstance(src.value, ast.Name):
                return l.target.elts[0].id, l.target.elts[1].id, src.value.id
        return None
    io, ii = enum_info(outer), enum_info(inner)
    if io is None or ii is None:
        # a scan that does not restart: `for j in range(start, n)` with a start that is advanced inside the loops examines only the pairs (i, j) with j beyond the
        # previous hit - two patterns that list their common atoms in different orders then lose pairs
        for l in (inner, outer):
            if isinstance(l.iter, ast.Call) and call_name(l.iter) == "range" and len(l.iter.args) >= 2 and isinstance(l.iter.args[0], ast.Name):
                lo = l.iter.args[0].id
                moved = [x for x in ast.walk(outer) if isinstance(x, (ast.Assign, ast.AugAssign)) and any(isinstance(t, ast.Name) and t.id == lo for t in (x.targets if isinstance(x, ast.Assign) else [x.target]))]
                if moved:
                    obs.append(Ob("Cpair", clause, fn, l, False,
                                  "`%s` starts at `%s`, which is advanced inside the scan (`%s`): after a hit the candidates before it are never examined again, so the pairing depends on the two "
                                  "structures listing their common atoms in the same ORDER - common atoms listed in another order are reported as changed" % (
                                      ast.unparse(l).split("\n")[0][:70], lo, ast.unparse(moved[0])[:40]), slot="pair-scan-restarts", positive="robust"))
                    obs.append(Ob("Cpair", clause, fn, a, False, "pair condition: loops are not enumerate over <structure>.positions", slot="pair-condition", undecided=True))
                    return obs
        raise AnalysisError("C08: loops are not enumerate over <structure>.positions")
    gs = norm_guards(fn, a)
    dist_ok = el_ok = False
    dist_unrecognised = False

    def _is_distance(e):
        """norm(d), sqrt(dot(d, d)), sqrt(sum(d ** 2)), (...) ** 0.5 of such a sum: the Euclidean length of d"""
        if isinstance(e, ast.Call) and call_name(e) == "norm" and e.args and not e.keywords:
            return True
        inner = None
        if isinstance(e, ast.Call) and call_name(e) == "sqrt" and len(e.args) == 1:
            inner = e.args[0]
        elif isinstance(e, ast.BinOp) and isinstance(e.op, ast.Pow) and const_value(e.right) == 0.5:
            inner = e.left
        if inner is None:
            return False
        return _is_squared_distance(inner)

    def _is_squared_distance(inner):
        """dot(d, d), d @ d, sum(d ** 2), sum(d * d): the SQUARED Euclidean length of d"""
        if isinstance(inner, ast.Call) and call_name(inner) in ("dot", "vdot", "inner") and len(inner.args) == 2 and nf(inner.args[0]) == nf(inner.args[1]):
            return True
        if isinstance(inner, ast.BinOp) and isinstance(inner.op, ast.MatMult) and nf(inner.left) == nf(inner.right):
            return True
        if isinstance(inner, ast.Call) and call_name(inner) == "sum" and len(inner.args) + (1 if isinstance(inner.func, ast.Attribute) and call_name(inner) == "sum" and not inner.args else 0) == 1:
            sq = inner.args[0] if inner.args else inner.func.value
            if isinstance(sq, ast.BinOp) and ((isinstance(sq.op, ast.Pow) and const_value(sq.right) == 2) or (isinstance(sq.op, ast.Mult) and nf(sq.left) == nf(sq.right))):
                return True
        return False

    def _tol_degree(e):
        """1 for the bare tolerance parameter, 2 for its square, None otherwise"""
        e = expand(fn, e)
        if isinstance(e, ast.Name) and e.id in fn.params:
            return 1
        if isinstance(e, ast.BinOp) and isinstance(e.op, ast.Pow) and isinstance(e.left, ast.Name) and e.left.id in fn.params and const_value(e.right) == 2:
            return 2
        if isinstance(e, ast.BinOp) and isinstance(e.op, ast.Mult) and isinstance(e.left, ast.Name) and isinstance(e.right, ast.Name) and e.left.id == e.right.id and e.left.id in fn.params:
            return 2
        return None
    dim_clash = None
    def _positive_parts(t, pol):
        """the comparisons that HOLD when guard t is taken with polarity pol (conjunctions split; a negated comparison / disjunction turned around)"""
        if isinstance(t, ast.UnaryOp) and isinstance(t.op, ast.Not):
            return _positive_parts(t.operand, not pol)
        if pol:
            if isinstance(t, ast.BoolOp) and isinstance(t.op, ast.And):
                return [q for v in t.values for q in _positive_parts(v, True)]
            return [t]
        if isinstance(t, ast.BoolOp) and isinstance(t.op, ast.Or):
            return [q for v in t.values for q in _positive_parts(v, False)]
        if isinstance(t, ast.Compare) and len(t.ops) == 1:
            neg = {ast.Eq: ast.NotEq, ast.NotEq: ast.Eq, ast.Lt: ast.GtE, ast.LtE: ast.Gt, ast.Gt: ast.LtE, ast.GtE: ast.Lt}.get(type(t.ops[0]))
            if neg is not None and not isinstance(t.ops[0], (ast.Lt, ast.LtE, ast.Gt, ast.GtE)):
                return [ast.copy_location(ast.Compare(left=t.left, ops=[neg()], comparators=t.comparators), t)]
            # an ordered comparison is NOT negated by flipping the operator when NaN may occur; `not (d < tol)` taken negatively is `d < tol` again
        return []
    for t, pol, k in gs:
        # `if not d < tol: continue` arrives as (d < tol, True) after normalisation; `if a != b: continue` as (a != b, False)
        parts = _positive_parts(t, pol)
        for p in parts:
            if isinstance(p, ast.Compare) and len(p.ops) == 1:
                pl = expand(fn, p.left)
                td = _tol_degree(p.comparators[0]) if isinstance(p.ops[0], (ast.Lt, ast.LtE)) else None
                if td is not None:
                    names = names_in(pl)
                    if _is_distance(pl) and td == 1:
                        dist_ok = io[1] in names and ii[1] in names
                    elif _is_squared_distance(pl) and td == 2:
                        dist_ok = io[1] in names and ii[1] in names
                    elif (_is_squared_distance(pl) and td == 1) or (_is_distance(pl) and td == 2):
                        dim_clash = "`%s` compares %s with %s" % (ast.unparse(p)[:70], "the SQUARED distance" if td == 1 else "the distance", "the tolerance itself" if td == 1 else "the SQUARED tolerance")
                    elif io[1] in names and ii[1] in names:
                        dist_unrecognised = True
                if isinstance(p.ops[0], ast.Eq):
                    txt = {re.sub(r"\s", "", ast.unparse(p.left)), re.sub(r"\s", "", ast.unparse(p.comparators[0]))}
                    el_ok = txt == {"%s.elements[%s]" % (io[2], io[0]), "%s.elements[%s]" % (ii[2], ii[0])}
    obs.append(Ob("Cpair", clause, fn, a, dist_ok and el_ok,
                  "atoms are paired only under (distance of the two positions < max_delta)=%s AND (equal element of exactly these two atoms)=%s" % (dist_ok, el_ok),
                  slot="pair-condition", undecided=dist_unrecognised and not dist_ok and el_ok and not dim_clash))
    if dim_clash:
        obs.append(Ob("Cpair", clause, fn, a, False, dim_clash + ": a length and a squared length are compared, so the effective tolerance is the square root (or the square) of the documented one - "
                      "atoms that moved by much more than max_delta count as unchanged (or identical atoms as changed)", slot="pair-tolerance-dimension", positive="robust"))
    v = a.args[0]
    ok = isinstance(v, ast.Tuple) and [ast.unparse(e) for e in v.elts] == [io[0], ii[0]] and io[2] == fn.params[0] and ii[2] == fn.params[1]
    obs.append(Ob("Cpair", clause, fn, a, ok, "pair = (index in the first argument, index in the second argument)", slot="pair-order"))
    # replace: called as (replacement, search), used as {replacement idx: search idx}
    rp = repo.fn("replace_pattern_in_structure")
    cs = calls_named(rp, "find_unchanged_atom_pairs")
    if len(cs) != 1:
        raise AnalysisError("C08: call of find_unchanged_atom_pairs not found in replace")
    c = cs[0]
    from .fam_a import ReplaceLoop
    RL = ReplaceLoop(repo)
    fparams = repo.fn("find_pattern_in_structure").params
    sp = get_arg(RL.find_call, fparams, "pattern")
    args = [ast.unparse(x) for x in c.args]
    # the replacement variable is the one copied into the inserted fragment
    crt = None
    for n in rp.own_nodes():
        if isinstance(n, ast.Assign) and any(isinstance(t, ast.Name) and t.id == RL.fragment for t in n.targets) and isinstance(n.value, ast.Call) \
                and call_name(n.value) == "copy":
            crt = n.value.func.value.id
    ok = len(args) == 2 and args[0] == crt and args[1] == ast.unparse(sp)
    obs.append(Ob("Cpair", clause, rp, c, ok, "shared atoms are looked up as (replacement pattern, search pattern), both already in the common frame", slot="call-order"))
    # the shared-atom tolerance is the callee's own small default (same coordinates), not a matching tolerance
    callee = repo.fn("find_unchanged_atom_pairs")
    tol_param = [p for p in callee.params if p not in callee.params[:2]]
    widened = None
    for p in tol_param:
        a = get_arg(c, callee.params, p)
        if a is not None:
            d = callee.param_defaults().get(p)
            av = const_value(expand(rp, a))
            dv = const_value(d) if d is not None else None
            if not (av is not None and dv is not None and av <= dv):
                widened = (p, a)
    obs.append(Ob("Cpair", clause, rp, c, widened is None,
                  "atoms count as shared only when their coordinates coincide: the call %s" % (
                      "keeps the callee's tolerance" if widened is None else "overrides %s with %s (a looser tolerance keeps an old atom where the replacement moved it)" % (widened[0], ast.unparse(widened[1]))),
                  slot="shared-atom-tolerance", positive=True))
    # called after both origin shifts
    pre = [x for x in calls_in(rp) if isinstance(x.func, ast.Attribute) and x.func.attr == "translate" and RL.loop not in list(rp.ancestors(x))]
    ok = len(pre) == 2 and all(rp.cfg.dominates(rp.stmt_of(x), rp.stmt_of(c)) for x in pre)
    # both shifts found, both on the two patterns handed to the lookup, and the lookup is NOT after both: the patterns are compared in different frames
    late = [x for x in pre if not rp.cfg.dominates(rp.stmt_of(x), rp.stmt_of(c))]
    recv = {ast.unparse(x.func.value) for x in pre}
    wrong_frame = len(pre) == 2 and bool(late) and recv == set(args) and all(rp.cfg.reaches(rp.stmt_of(c), rp.stmt_of(x)) for x in late)
    obs.append(Ob("Cpair", clause, rp, c, ok,
                  "the lookup happens after both patterns were shifted to the common origin" if not wrong_frame else
                  "the lookup of shared atoms runs BEFORE `%s`: the two patterns are compared in different frames, so unless the search pattern's first atom sits at the origin no atom is recognised "
                  "as unchanged (kept atoms are deleted and re-inserted, overlapping matches raise)" % ast.unparse(late[0])[:50],
                  slot="after-shift", positive="robust" if wrong_frame else False))
    return obs


def C_identity_rotation_single_atom(repo, clause):
    fn = repo.fn("find_pattern_in_structure")
    obs = []
    from .fam_a import A6_rotation_gate  # noqa: F401  (same anchors)
    app = None
    for c in calls_in(fn):
        if isinstance(c.func, ast.Attribute) and c.func.attr == "append" and c.args and isinstance(c.args[0], ast.Name):
            ds = fn.rd.defs_at(fn.stmt_of(c), c.args[0].id)
            vals = [d.value for d in ds if isinstance(d, ast.Assign)]
            if any(isinstance(v, ast.Call) and call_name(v) == "identity" for v in vals):
                app = (c, ds)
    if app is None:
        raise AnalysisError("C08: rotation list append with an identity default not found")
    c, ds = app
    q = c.args[0].id
    for d in ds:
        v = d.value
        if isinstance(v, ast.Call) and call_name(v) == "identity":
            obs.append(Ob("Cid", clause, fn, d, True, "rotation starts as the identity for every candidate", slot="identity-default"))
            continue
        gs = norm_guards(fn, d)
        ok = False
        from .common import implied_min_len
        for t, pol, k in gs:
            ml = implied_min_len(t, pol)
            if ml is not None and ml[1] >= 2:
                ok = True
        obs.append(Ob("Cid", clause, fn, d, ok, "rotation `%s` is reassigned only when the candidate has more than one atom: a one-atom pattern keeps the identity" % q,
                      slot="reassign-guard:%s" % re.sub(r"\s+", " ", ast.unparse(d.value))[:50]))
    floor("Cid", "definitions of the rotation", len(obs), 3)
    return obs


# ---- axis roles ------------------------------------------------------------------------------------

def _is_cell_expr(e):
    t = ast.unparse(e)
    return t.endswith(".cell") or t == "cell" or t.endswith(".cell.T")


from .common import eq_const  # noqa: E402


def _is_diag_matrix(e):
    """diag(diag(cell)) or diag(cell) * identity(3) / eye(3): the diagonal part of the cell matrix"""
    if isinstance(e, ast.Call) and call_name(e) == "diag" and e.args and isinstance(e.args[0], ast.Call) and call_name(e.args[0]) == "diag":
        return True
    if isinstance(e, ast.BinOp) and isinstance(e.op, ast.Mult):
        parts = [e.left, e.right]
        d = [x for x in parts if isinstance(x, ast.Call) and call_name(x) == "diag"]
        i = [x for x in parts if isinstance(x, ast.Call) and call_name(x) in ("identity", "eye")]
        return len(d) == 1 and len(i) == 1
    return False


def C_axis_diag(repo, clause):
    """np.diag(<cell>) only under an orthorhombic guard, inside the orthorhombic test itself, or where the
    LAMMPS lower-triangular validation post-dominates it."""
    obs = []
    n = 0
    # parameters that receive a cell at some call site inside the package are cells too (uc_vectors, ...)
    cell_params = {}
    for f2 in repo.all_fns():
        for call_ in calls_in(f2):
            callee_ = repo.maybe_fn(call_name(call_) or "")
            if callee_ is None:
                continue
            pos_ = [p_ for p_ in callee_.params if p_ not in ("self", "cls")]
            for i_, a_ in enumerate(call_.args):
                if i_ < len(pos_) and _is_cell_expr(expand(f2, a_)):
                    cell_params.setdefault(callee_.qualname, set()).add(pos_[i_])
    for fn in repo.all_fns():
        for c in calls_in(fn):
            if call_name(c) != "diag" or not c.args:
                continue
            e = expand(fn, c.args[0])
            is_param_cell = isinstance(c.args[0], ast.Name) and c.args[0].id in cell_params.get(fn.qualname, ())
            if not (_is_cell_expr(c.args[0]) or _is_cell_expr(e) or is_param_cell):
                continue
            n += 1
            where = fn.qualname
            ok = False
            why = ""
            if fn.qualname == "Atoms.cell_is_orthorhombic":
                ok, why = True, "this is the orthorhombic test itself"
            else:
                gs = norm_guards(fn, c)
                for t, pol, k in gs:
                    te = expand(fn, t)
                    if te is not t:
                        from .common import strip_not
                        te, pol = strip_not(te, pol)      # a flag such as `wrap_fractional = not cell_is_orthorhombic()` taken negatively IS the orthorhombic guard
                    txt = ast.unparse(te)
                    if "cell_is_orthorhombic" in txt and isinstance(te, ast.Call) and pol:
                        ok, why = True, "dominated by the guard %s" % txt
                    elif pol and isinstance(t, ast.Name) and t.id in fn.params:
                        # the guard is a flag parameter: guarded if every caller in the package computes that flag with cell_is_orthorhombic()
                        sites = []
                        pos_ = [p_ for p_ in fn.params if p_ not in ("self", "cls")]
                        for f2 in repo.all_fns():
                            for call_ in [y for y in f2.own_nodes() if isinstance(y, ast.Call) and call_name(y) == fn.name]:
                                arg_ = None
                                if t.id in pos_ and pos_.index(t.id) < len(call_.args):
                                    arg_ = call_.args[pos_.index(t.id)]
                                for k_ in call_.keywords:
                                    if k_.arg == t.id:
                                        arg_ = k_.value
                                sites.append(arg_ is not None and isinstance(expand(f2, arg_), ast.Call) and call_name(expand(f2, arg_)) == "cell_is_orthorhombic")
                        if sites and all(sites):
                            ok, why = True, "guarded by the flag parameter `%s`, which every caller (%d) computes with cell_is_orthorhombic()" % (t.id, len(sites))
                if not ok:
                    # post-validation (LAMMPS orientation): an `if not orthorhombic:` block that raises unless the upper triangle is zero
                    for s in fn.own_nodes():
                        if isinstance(s, ast.If) and "cell_is_orthorhombic" in ast.unparse(s.test) and isinstance(s.test, ast.UnaryOp):
                            inner = [x for x in s.body if isinstance(x, ast.If) and any(isinstance(r, ast.Raise) for r in x.body)]
                            if inner:
                                found = set()
                                for cmp_ in ast.walk(inner[0].test):
                                    e = eq_const(cmp_) if isinstance(cmp_, ast.Compare) else None
                                    if e is not None and not e[2] and e[1] == 0 and isinstance(e[0], ast.Subscript) and _is_cell_expr(e[0].value) \
                                            and isinstance(e[0].slice, ast.Tuple):
                                        found.add(tuple(const_value(x) for x in e[0].slice.elts))
                                ors = isinstance(inner[0].test, ast.BoolOp) and isinstance(inner[0].test.op, ast.Or)
                                upper = ors and found == {(0, 1), (0, 2), (1, 2)}
                                if upper and fn.cfg.postdominates(s, fn.stmt_of(c)):
                                    ok, why = True, "followed on every path by the lower-triangular validation (raise unless cell[0,1], cell[0,2], cell[1,2] are 0)"
            arith = False
            if not ok:
                why = "np.diag(cell) is used as the box lengths with NO orthorhombic guard: for a tilted cell the diagonal is not a lattice vector"
                # recognised wrong use: the diagonal is the modulus / divisor / bound of an arithmetic operation (wrap, count, window)
                par = fn.parents.get(c)
                hops = 0
                while par is not None and hops < 3 and not arith:
                    if isinstance(par, ast.BinOp) and isinstance(par.op, (ast.Mod, ast.Div, ast.FloorDiv)):
                        arith = True
                    elif isinstance(par, ast.AugAssign) and isinstance(par.op, (ast.Mod, ast.Div, ast.FloorDiv)):
                        arith = True
                    elif isinstance(par, ast.Call) and call_name(par) in ("mod", "remainder", "fmod", "divide", "floor_divide"):
                        arith = True
                    par = fn.parents.get(par)
                    hops += 1
                if not arith:
                    # the diagonal is first bound to a local that is then used as modulus / divisor
                    st_ = fn.stmt_of(c)
                    if isinstance(st_, ast.Assign) and len(st_.targets) == 1 and isinstance(st_.targets[0], ast.Name):
                        nm_ = st_.targets[0].id
                        for b_ in fn.own_nodes():
                            if isinstance(b_, (ast.BinOp, ast.AugAssign)) and isinstance(b_.op, (ast.Mod, ast.Div, ast.FloorDiv)):
                                rhs = b_.right if isinstance(b_, ast.BinOp) else b_.value
                                if any(isinstance(x, ast.Name) and x.id == nm_ for x in ast.walk(rhs)):
                                    arith = True
            # a hand-written "no tilt" test in front of the diagonal that examines only SOME of the six off-diagonal entries
            partial = None
            if not ok:
                ents = set()
                for t, pol, k in norm_guards(fn, c):
                    if not pol:
                        continue
                    for cmp_ in [y for y in ast.walk(t) if isinstance(y, ast.Compare)]:
                        e_ = eq_const(cmp_)
                        if e_ is not None and e_[2] and e_[1] == 0 and isinstance(e_[0], ast.Subscript) and _is_cell_expr(e_[0].value) and isinstance(e_[0].slice, ast.Tuple) \
                                and len(e_[0].slice.elts) == 2:
                            ij = tuple(const_value(x_) for x_ in e_[0].slice.elts)
                            if None not in ij and ij[0] != ij[1]:
                                ents.add(ij)
                # np.tril(cell, -1) / np.triu(cell, 1) examine one triangle only
                tri = set()
                for t, pol, k in norm_guards(fn, c):
                    for y in ast.walk(t):
                        if isinstance(y, ast.Call) and call_name(y) in ("tril", "triu") and y.args:
                            tri.add(call_name(y))
                if len(tri) == 1 and not ents:
                    ents = {(1, 0), (2, 0), (2, 1)} if "tril" in tri else {(0, 1), (0, 2), (1, 2)}
                if 0 < len(ents) < 6:
                    partial = sorted(ents)
                    why = ("np.diag(cell) is used as the box under a hand-written test that only checks the off-diagonal entries %s: a cell whose OTHER off-diagonal entries are non-zero "
                           "(an arbitrarily oriented cell with an upper triangle) passes the test, and its diagonal is not its lattice" % partial)
            obs.append(Ob("Caxis", clause, fn, c, ok, why, slot="diag:%s" % re.sub(r"\s+", " ", ast.unparse(fn.stmt_of(c)))[:70], positive="robust" if partial is not None else arith))
    floor("Caxis", "np.diag(cell) sites", n, 6)
    # the orthorhombic test itself: all six off-diagonal entries must be examined
    co = repo.fn("Atoms.cell_is_orthorhombic")
    rets = [r for r in co.own_nodes() if isinstance(r, ast.Return)]
    if len(rets) == 1:
        e = expand(co, rets[0].value)
        txt = re.sub(r"\s", "", ast.unparse(e))
        whole = "count_nonzero(self.cell-np.diag(np.diag(self.cell)))" in txt
        bad_diag = None
        for c_ in ast.walk(e):
            if isinstance(c_, ast.Compare) and len(c_.ops) == 1 and isinstance(c_.ops[0], ast.Eq):
                sides = [ast.unparse(c_.left), ast.unparse(c_.comparators[0])]
                other_ = [x_ for x_ in (c_.left, c_.comparators[0]) if ast.unparse(x_) != "self.cell"]
                if "self.cell" in sides and len(other_) == 1 and _is_diag_matrix(other_[0]):
                    whole = True
                elif "self.cell" in sides and len(other_) == 1 and "np.diag(self.cell)" in ast.unparse(other_[0]):
                    bad_diag = other_[0]
            if isinstance(c_, ast.Call) and call_name(c_) in ("array_equal",) and len(c_.args) >= 2:
                sides = [ast.unparse(a_) for a_ in c_.args[:2]]
                if "self.cell" in sides and any("np.diag(self.cell)" in sd for sd in sides if sd != "self.cell"):
                    whole = True
        entries = set()
        for s_ in ast.walk(e):
            if isinstance(s_, ast.Subscript) and ast.unparse(s_.value) == "self.cell" and isinstance(s_.slice, ast.Tuple) and len(s_.slice.elts) == 2:
                ij = tuple(const_value(x) for x in s_.slice.elts)
                if None not in ij and ij[0] != ij[1]:
                    entries.add(ij)
        ok = whole or len(entries) == 6
        tol = [c_ for c_ in ast.walk(e) if isinstance(c_, ast.Call) and call_name(c_) in ("allclose", "isclose")]
        angles = [c_ for c_ in ast.walk(e) if isinstance(c_, ast.Call) and call_name(c_) in ("cell_abc_alpha_beta_gamma", "arccos", "degrees", "cell_angles")]
        if not angles and not whole and not entries:
            # the angles may arrive through a tuple unpacking, which expand does not look through
            angles = [c_ for c_ in co.own_nodes() if isinstance(c_, ast.Call) and call_name(c_) in ("cell_abc_alpha_beta_gamma", "arccos", "cell_angles")]
        detail = ""
        if tol:
            ok = False
            detail = " -- the test goes through `%s`, which has an implicit tolerance (rtol=1e-5, atol=1e-8): a slightly tilted cell is classed as orthorhombic and every caller then drops the tilt" % ast.unparse(tol[0])[:70]
        elif angles:
            ok = False
            detail = " -- the test looks at the cell ANGLES (`%s`): right angles do not make the matrix diagonal (rotated or permuted frame), but every caller uses np.diag(cell) as the box" % ast.unparse(angles[0])[:60]
        elif not ok and bad_diag is not None:
            detail = " -- the cell is compared with `%s`, which is NOT the diagonal part of the matrix (diag(cell) * identity): off-diagonal entries become inf/nan and no cell ever passes" % ast.unparse(bad_diag)[:60]
        elif not ok:
            detail = " -- only the off-diagonal entries %s are examined: a cell with other non-zero off-diagonal entries is classed as orthorhombic" % sorted(entries)
        obs.append(Ob("Caxis", clause, co, rets[0], ok,
                      "orthorhombic test compares the whole cell matrix exactly with its diagonal part%s" % detail,
                      slot="orthorhombic-test", positive="robust" if (tol or angles) else ((bool(entries) and len(entries) < 6) or (not ok and bad_diag is not None))))
    return obs


def _scale_axis(e, cellname):
    """Which axis of the 3x3 cell (rows = lattice vectors) does expression e scale by a 3-vector?
    Returns 'rows', 'cols' or None (unrecognised)."""
    def is_cell(x):
        return ast.unparse(x) == cellname
    def is_cellT(x):
        return ast.unparse(x) == cellname + ".T"
    def col_vector(x):
        # v.reshape(3,1) / v.reshape(-1,1) / v[:, None] / v[:, np.newaxis]
        if isinstance(x, ast.Call) and call_name(x) == "reshape":
            args = x.args[0].elts if len(x.args) == 1 and isinstance(x.args[0], ast.Tuple) else x.args
            if isinstance(x.func, ast.Attribute) and isinstance(x.func.value, ast.Name) and x.func.value.id in ("np", "numpy") and len(x.args) == 2:
                # the function form np.reshape(v, shape)
                args = x.args[1].elts if isinstance(x.args[1], ast.Tuple) else [x.args[1]]
            vals = [const_value(a) for a in args]
            if vals[-2:] in ([3, 1], [-1, 1]):
                return True
        if isinstance(x, ast.Subscript) and isinstance(x.slice, ast.Tuple) and len(x.slice.elts) == 2:
            a, b = x.slice.elts
            if isinstance(a, ast.Slice) and (const_value(b) is None and ast.unparse(b) in ("None", "np.newaxis")):
                return True
        return False
    if isinstance(e, ast.BinOp) and isinstance(e.op, ast.Mult):
        for a, b in ((e.left, e.right), (e.right, e.left)):
            if is_cell(a):
                return "rows" if col_vector(b) else "cols"
            if is_cellT(a):
                return "cols_of_T"   # scales rows of cell but result is transposed
    if isinstance(e, ast.Attribute) and e.attr == "T":
        inner = _scale_axis(e.value, cellname)
        if inner == "cols_of_T":
            return "rows"
        if inner == "rows":
            return "cols"
        if inner == "cols":
            return "rows_T"
    if (isinstance(e, ast.Call) and call_name(e) in ("matmul", "dot") and len(e.args) == 2) or (isinstance(e, ast.BinOp) and isinstance(e.op, ast.MatMult)):
        a, b = (e.args[0], e.args[1]) if isinstance(e, ast.Call) else (e.left, e.right)
        if isinstance(e, ast.Call) and isinstance(e.func, ast.Attribute) and call_name(e) == "dot" and not dotted(e.func.value) in ("np", "numpy"):
            a, b = e.func.value, e.args[0]
        def is_diag(x):
            return isinstance(x, ast.Call) and call_name(x) == "diag"
        if is_diag(a) and is_cell(b):
            return "rows"
        if is_cell(a) and is_diag(b):
            return "cols"
    if isinstance(e, ast.Call) and call_name(e) == "array" and e.args and isinstance(e.args[0], ast.ListComp):
        lc = e.args[0]
        g = lc.generators[0]
        if isinstance(g.iter, ast.Call) and call_name(g.iter) == "zip" and any(is_cell(a) for a in g.iter.args) and isinstance(lc.elt, ast.BinOp) \
                and isinstance(lc.elt.op, ast.Mult):
            return "rows"
    return None


def _factors_provably_flat(fn, e):
    """In `cell * v` / `cell @ diag(v)`: is every name in v either the never re-bound replication parameter or a local whose single definition contains no reshape / newaxis / [:, None]
    (so that the judgement 'scales columns' does not rest on an unseen re-shaping)?"""
    rebound = {t.id for st in fn.all_nodes() if isinstance(st, (ast.Assign, ast.AugAssign)) for t in (st.targets if isinstance(st, ast.Assign) else [st.target]) if isinstance(t, ast.Name)}
    counts = {}
    for st in fn.all_nodes():
        if isinstance(st, ast.Assign):
            for t in st.targets:
                if isinstance(t, ast.Name):
                    counts[t.id] = counts.get(t.id, 0) + 1
    for y in ast.walk(e):
        if isinstance(y, ast.Call) and call_name(y) in ("reshape", "expand_dims", "atleast_2d", "vstack", "column_stack"):
            return False
        if isinstance(y, ast.Subscript) and any(ast.unparse(z) in ("None", "np.newaxis") for z in ast.walk(y.slice)):
            return False
        if isinstance(y, ast.Name) and y.id in fn.params and y.id in rebound:
            # a re-bound parameter: its new value must itself be visibly flat
            defs = [st.value for st in fn.all_nodes() if isinstance(st, ast.Assign) and any(isinstance(t, ast.Name) and t.id == y.id for t in st.targets)]
            for d in defs:
                if any(isinstance(z, ast.Call) and call_name(z) in ("reshape", "expand_dims", "atleast_2d") for z in ast.walk(d)) or \
                        any(isinstance(z, ast.Subscript) and any(ast.unparse(w) in ("None", "np.newaxis") for w in ast.walk(z.slice)) for z in ast.walk(d)):
                    return False
        if isinstance(y, ast.Name) and y.id not in fn.params and y.id not in ("np", "numpy", "self") and counts.get(y.id, 0) != 1:
            return False
    return True


def C_axis_replicate(repo, clause):
    fn = repo.fn("Atoms.replicate")
    obs = []
    stores = [n for n in fn.own_nodes() if isinstance(n, ast.Assign) and isinstance(n.targets[0], ast.Attribute) and n.targets[0].attr == "cell"]
    if len(stores) != 1:
        raise AnalysisError("C12: assignment of the replicated cell not found uniquely")
    st = stores[0]
    e = expand(fn, st.value)
    axis = _scale_axis(e, "self.cell")
    if axis is None:
        raise AnalysisError("C12: unrecognised shape of the supercell cell expression `%s`; lattice-axis scaling cannot be decided" % ast.unparse(e))
    ok = axis == "rows"
    obs.append(Ob("Caxis", clause, fn, st, ok,
                  "supercell cell `%s` scales the %s of the cell matrix by the replication factors; lattice vectors are the ROWS (positions.dot(cell), matmul(cell.T, multipliers)), "
                  "so %s" % (ast.unparse(st.value), {"rows": "rows", "cols": "COLUMNS", "cols_of_T": "rows (transposed result)", "rows_T": "rows (transposed)"}.get(axis, axis),
                             "each lattice vector is multiplied by its own factor" if ok else "vector k gets its x/y/z components multiplied by factors a/b/c: wrong for any tilted cell with unequal factors"),
                  slot="cell-scaling", positive="robust" if (axis == "cols" and _factors_provably_flat(fn, e)) else None))
    factors = [n for n in ast.walk(e) if isinstance(n, ast.Name) and n.id == fn.params[1]]
    obs.append(Ob("Caxis", clause, fn, st, bool(factors), "the scaling vector is the replication-factor parameter %s" % fn.params[1], slot="cell-scaling-factors"))
    # image translation: contraction over the lattice axis
    tr = [c for c in calls_in(fn) if isinstance(c.func, ast.Attribute) and c.func.attr == "translate"]
    # a displacement computed from the atoms' own coordinates moves every atom by ITS OWN vector: the copies are then no longer the original atoms at i*A + j*B + k*C
    # (and 1 x 1 x 1 is no longer the identity), whatever lattice arithmetic produced the vectors
    per_atom = []
    for c in tr:
        try:
            av = expand(fn, c.args[0], stop_names=[]) if c.args else None
        except Exception:
            av = c.args[0] if c.args else None
        if av is not None and any(isinstance(y, ast.Attribute) and y.attr == "positions" for y in ast.walk(av)):
            per_atom.append(c)
    per_atom += [st_ for st_ in fn.own_nodes() if isinstance(st_, ast.AugAssign) and isinstance(st_.target, ast.Attribute) and st_.target.attr == "positions" and isinstance(st_.op, ast.Mod)]
    for c in per_atom:
        obs.append(Ob("Caxis", clause, fn, c, False,
                      "`%s` in replicate displaces the atoms by vectors computed from their own coordinates (a wrap): an atom stored outside the cell no longer appears at original + i*A + j*B + k*C, "
                      "1 x 1 x 1 replication is not the identity, and bonded neighbours on either side of a face end up a cell apart" % ast.unparse(c)[:70], slot="per-atom-displacement", positive="robust"))
    tr = [c for c in tr if c not in per_atom]
    if len(tr) != 1:
        if per_atom:
            return obs
        raise AnalysisError("C12: image translation not found")
    a = expand(fn, tr[0].args[0], stop_names=[])
    how = ast.unparse(a)
    from .common import vec_mat_form
    form = vec_mat_form(a, lambda x: ast.unparse(x).endswith(".cell"))
    ok = form == "M"
    obs.append(Ob("Caxis", clause, fn, tr[0], ok, "image offset `%s` = sum over lattice vectors of multiplier_k * row_k (contracts the lattice axis): form %s" % (how, form),
                  slot="image-translation", positive=form is not None))
    # multipliers: range(r) per dimension, zero image removed exactly once
    mg = [c for c in calls_in(fn) if call_name(c) == "meshgrid"]
    ok = False
    if len(mg) == 1 and len(mg[0].args) == 1 and isinstance(mg[0].args[0], ast.Starred) and isinstance(mg[0].args[0].value, ast.ListComp):
        lc = mg[0].args[0].value
        g = lc.generators[0]
        ok = len(lc.generators) == 1 and not g.ifs and isinstance(g.iter, ast.Name) and g.iter.id == fn.params[1] and isinstance(g.target, ast.Name) \
            and isinstance(lc.elt, ast.Call) and call_name(lc.elt) == "range" and len(lc.elt.args) == 1 and ast.unparse(lc.elt.args[0]) == g.target.id
    wrong_range = False
    if not ok and len(mg) == 1 and len(mg[0].args) == 1 and isinstance(mg[0].args[0], ast.Starred):
        sv = mg[0].args[0].value
        if isinstance(sv, ast.Call) and call_name(sv) == "map" and len(sv.args) == 2 and isinstance(sv.args[0], ast.Name) and sv.args[0].id == "range" \
                and isinstance(sv.args[1], ast.Name) and sv.args[1].id == fn.params[1]:
            ok = True                      # map(range, factors)
        elif isinstance(sv, (ast.ListComp, ast.GeneratorExp)) and len(sv.generators) == 1 and isinstance(sv.elt, ast.Call) and call_name(sv.elt) == "range":
            g = sv.generators[0]
            if not g.ifs and isinstance(g.iter, ast.Name) and g.iter.id == fn.params[1] and isinstance(g.target, ast.Name):
                ok = len(sv.elt.args) == 1 and ast.unparse(sv.elt.args[0]) == g.target.id
                wrong_range = not ok       # range(r + 1), range(1, r), ...: the same idiom with other bounds
    obs.append(Ob("Caxis", clause, fn, mg[0] if mg else fn.node, ok, "image multipliers enumerate range(factor) on each of the three axes", slot="multipliers",
                  positive=wrong_range, undecided=not ok and not wrong_range))
    rs = [c for c in calls_in(fn) if call_name(c) == "reshape" and mg and any(x is mg[0] for x in ast.walk(c))]
    ok = len(rs) == 1 and [const_value(a) for a in rs[0].args] == [-1, 3] and ".T.reshape" in ast.unparse(rs[0]).replace(" ", "")
    obs.append(Ob("Caxis", clause, fn, rs[0] if rs else fn.node, ok, "multiplier grid is flattened to rows of three integers (one per lattice axis)", slot="multipliers-shape"))
    # the all-zero multiplier (the copy itself) is removed exactly once: either the rows are selected by "any component non-zero" before the loop,
    # or the loop skips the row whose components are all zero
    def _rowwise(e, M, want):
        """e is the row-wise predicate `any component of M non-zero` (want='any') / `all components zero` (want='all0') -> True; the opposite -> False; else None"""
        neg = False
        while isinstance(e, ast.UnaryOp) and isinstance(e.op, (ast.Invert, ast.Not)):
            e, neg = e.operand, not neg
        if isinstance(e, ast.Call) and call_name(e) in ("flatnonzero",) and len(e.args) == 1 and not neg:
            return _rowwise(e.args[0], M, want)
        if isinstance(e, ast.Subscript) and const_value(e.slice) == 0 and isinstance(e.value, ast.Call) and call_name(e.value) in ("where", "nonzero") and len(e.value.args) == 1 and not neg:
            return _rowwise(e.value.args[0], M, want)
        if not (isinstance(e, ast.Call) and call_name(e) in ("any", "all")):
            return None
        q = call_name(e)
        if isinstance(e.func, ast.Attribute) and not (isinstance(e.func.value, ast.Name) and e.func.value.id in ("np", "numpy")):
            arg, rest = e.func.value, e.args
        else:
            if not e.args:
                return None
            arg, rest = e.args[0], e.args[1:]
        ax = kwarg(e, "axis") if kwarg(e, "axis") is not None else (rest[0] if rest else None)
        if M is not None and const_value(ax) not in (1, -1):
            return None
        if M is None and ax is not None:
            return None
        # the tested array: M, M != 0, M == 0
        base, rel = arg, "truthy"
        ec = eq_const(arg) if isinstance(arg, ast.Compare) else None
        if ec is not None and ec[1] == 0:
            base, rel = ec[0], ("eq0" if ec[2] else "ne0")
        elif isinstance(arg, ast.Compare):
            return None
        if M is not None and ast.unparse(base) != M:
            return None
        if M is None and not isinstance(base, ast.Name):
            return None
        kind = None
        if q == "any" and rel in ("truthy", "ne0"):
            kind = "any"          # some component non-zero
        elif q == "all" and rel == "eq0":
            kind = "all0"         # every component zero
        elif q == "all" and rel in ("truthy", "ne0"):
            kind = "allnz"
        elif q == "any" and rel == "eq0":
            kind = "any0"
        if kind in ("allnz", "any0"):
            return False          # drops / keeps the wrong rows (every image with a zero component)
        if neg:
            kind = "all0" if kind == "any" else "any"
        return kind == want
    img_loops = [l for l in fn.own_nodes() if isinstance(l, ast.For) and any(isinstance(c_, ast.Call) and isinstance(c_.func, ast.Attribute) and c_.func.attr == "translate" for c_ in ast.walk(l))]
    verdict, where_ = None, None
    if len(img_loops) == 1:
        lp_ = img_loops[0]
        it_ = expand(fn, lp_.iter)
        if isinstance(it_, ast.Subscript):
            verdict, where_ = _rowwise(expand(fn, it_.slice), ast.unparse(it_.value), "any"), lp_
            if verdict is None:
                # the selection was stored back into the same name: ucmults = ucmults[mask]
                pass
        if verdict is None and isinstance(lp_.iter, ast.Name):
            sel = [n for n in fn.own_nodes() if isinstance(n, ast.Assign) and len(n.targets) == 1 and isinstance(n.targets[0], ast.Name) and n.targets[0].id == lp_.iter.id
                   and isinstance(n.value, ast.Subscript) and isinstance(n.value.value, ast.Name) and fn.cfg.dominates(n, lp_)]
            if len(sel) == 1:
                verdict, where_ = _rowwise(sel[0].value.slice, sel[0].value.value.id, "any"), sel[0]
                if verdict is None:
                    verdict = _rowwise(expand(fn, sel[0].value.slice, stop_names=[sel[0].value.value.id]), sel[0].value.value.id, "any")
        if verdict is None and isinstance(lp_.target, ast.Name) and lp_.body and isinstance(lp_.body[0], ast.If) and not lp_.body[0].orelse \
                and len(lp_.body[0].body) == 1 and isinstance(lp_.body[0].body[0], ast.Continue):
            t_ = lp_.body[0].test
            r_ = _rowwise(t_, None, "all0")
            if r_ is not None and any(isinstance(x, ast.Name) and x.id == lp_.target.id for x in ast.walk(t_)):
                verdict, where_ = r_, lp_.body[0]
    tol_based = None
    if verdict is None and len(img_loops) == 1:
        # the untranslated image identified through a TOLERANCE test on float translations instead of the exact integer multipliers
        it0 = expand(fn, img_loops[0].iter)
        for y in ast.walk(it0):
            if isinstance(y, ast.Call) and call_name(y) in ("isclose", "allclose"):
                tol_based = y
    if tol_based is not None:
        obs.append(Ob("Caxis", clause, fn, img_loops[0], False,
                      "the image that is already present as the copy is identified by `%s` - a tolerance test on translation vectors, not the exact test on the integer multipliers: "
                      "for a cell whose lattice vectors are numerically small (lengths in metres) EVERY image counts as untranslated and is dropped" % ast.unparse(tol_based)[:50],
                      slot="zero-image-removed", positive="robust"))
    else:
        obs.append(Ob("Caxis", clause, fn, where_ if where_ is not None else fn.node, verdict is True,
                  "exactly the all-zero multiplier (already present as the copy) is removed%s" % (
                          "" if verdict is not False else ": the test drops every image that has a ZERO component on some axis (or keeps the zero image)"),
                      slot="zero-image-removed", positive=verdict is False, undecided=verdict is None))
    # the accumulator starts as a copy of self; every image is a copy of self
    cps = [n for n in fn.own_nodes() if isinstance(n, ast.Assign) and isinstance(n.value, ast.Call) and call_name(n.value) == "copy" and ast.unparse(n.value.func.value) == "self"]
    obs.append(Ob("Caxis", clause, fn, cps[0] if cps else fn.node, len(cps) == 2, "accumulator and each image start as copies of self (%d)" % len(cps), slot="copies"))
    return obs


def C_axis_windows(repo, clause, only_images=False):
    obs = []
    uo = repo.fn("uc_neighbor_offsets")
    mg = [c for c in calls_in(uo) if call_name(c) == "meshgrid"]
    margs = [expand(uo, a) for a in mg[0].args] if len(mg) == 1 else []
    lits = [sorted(const_value(x) for x in a.elts) if isinstance(a, (ast.List, ast.Tuple)) and all(const_value(x) is not None for x in a.elts) else None for a in margs]
    ok = len(margs) == 3 and all(l == [-1, 0, 1] for l in lits)
    obs.append(Ob("Caxis", clause, uo, mg[0] if mg else uo.node, ok, "image multipliers are {-1, 0, 1} on each of three axes (27 images): %s" % lits, slot="27-images",
                  positive=len(margs) == 3 and all(l is not None for l in lits) or (len(mg) == 1 and len(margs) != 3 and not any(isinstance(a, ast.Starred) for a in mg[0].args))))
    # the grid reaches the product unrestricted: a re-binding `m = m[...]` (slice, mask, index list) hands back a SUBSET of the 27 images.  Under an option of the helper
    # this matters at the call sites that switch the option on: every consumer (search windows, bond detection, replication of start atoms) relies on all 27
    if len(mg) == 1:
        mstmt = uo.stmt_of(mg[0])
        mname = mstmt.targets[0].id if isinstance(mstmt, ast.Assign) and len(mstmt.targets) == 1 and isinstance(mstmt.targets[0], ast.Name) else None
        restr = [x for x in uo.own_nodes() if mname and isinstance(x, ast.Assign) and len(x.targets) == 1 and isinstance(x.targets[0], ast.Name) and x.targets[0].id == mname
                 and x is not mstmt and isinstance(x.value, ast.Subscript) and isinstance(x.value.value, ast.Name) and x.value.value.id == mname
                 and not (isinstance(x.value.slice, ast.Slice) and x.value.slice.lower is None and x.value.slice.upper is None and x.value.slice.step is None)]
        for x in restr:
            flags = [t.id for t, pol, k in norm_guards(uo, x) if pol and isinstance(t, ast.Name) and t.id in uo.params]
            if not flags:
                obs.append(Ob("Caxis", clause, uo, x, False, "`%s` keeps only a subset of the 27 image multipliers: every consumer of the offsets misses the images that are dropped" % ast.unparse(x)[:60],
                              slot="27-images-unrestricted", positive="robust"))
                continue
            flag = flags[0]
            pos = uo.params.index(flag)
            users = []
            for f_ in repo.all_fns():
                for c_ in [y for y in f_.own_nodes() if isinstance(y, ast.Call) and call_name(y) == uo.name]:
                    v_ = kwarg(c_, flag) if kwarg(c_, flag) is not None else (c_.args[pos] if len(c_.args) > pos else None)
                    if v_ is not None and const_value(v_) not in (False, 0) :
                        users.append((f_, c_))
            for f_, c_ in users:
                obs.append(Ob("Caxis", clause, f_, c_, False,
                              "`%s` in %s switches on `%s`, under which %s hands back only a subset of the 27 image offsets (`%s`): with a subset, a pair whose closest image lies on the "
                              "dropped side - the lower-index atom near the high face of the cell - is never brought together" % (ast.unparse(c_)[:60], f_.qualname, flag, uo.name, ast.unparse(x)[:50]),
                              slot="27-images-unrestricted:%s" % f_.qualname, positive="robust"))
            if not users:
                obs.append(Ob("Caxis", clause, uo, x, True, "an option `%s` restricts the images, no call site in the package switches it on" % flag, slot="27-images-unrestricted"))
    from .common import vec_mat_form
    forms = []
    for n_ in uo.own_nodes():
        if isinstance(n_, (ast.Call, ast.BinOp)):
            f_ = vec_mat_form(expand(uo, n_), lambda x: ast.unparse(x) == uo.params[0])
            if f_ is not None:
                forms.append((n_, f_))
    ok = len(forms) == 1 and forms[0][1] == "M"
    obs.append(Ob("Caxis", clause, uo, forms[0][0] if forms else uo.node, ok,
                  "offset = sum of multiplier_k * lattice ROW k (cell.T @ m, or m @ cell): %s" % [f for _, f in forms], slot="offset-contraction",
                  positive=len(forms) == 1))
    rs = [c for c in calls_in(uo) if call_name(c) == "reshape"]
    shp = [const_value(a) for a in rs[0].args] if len(rs) == 1 else []
    ok = len(rs) == 1 and len(shp) >= 2 and shp[0] == -1 and shp[-1] == 3
    obs.append(Ob("Caxis", clause, uo, rs[0] if rs else uo.node, ok, "multiplier grid is flattened to rows of three integers (%s)" % shp, slot="multiplier-shape",
                  positive=len(rs) == 1 and None not in shp and len(shp) >= 2))
    if only_images:
        return obs
    win = repo.fn("_get_positions_from_all_adjacent_unit_cells")
    # home cell moved to block 0: two stores, in this order
    stores = [n for n in win.own_nodes() if isinstance(n, ast.Assign) and isinstance(n.targets[0], ast.Subscript) and isinstance(n.targets[0].value, ast.Name)
              and "offset" in n.targets[0].value.id]
    ok = False
    if len(stores) == 2:
        s1, s2 = sorted(stores, key=lambda n: n.lineno)
        sl1 = ast.unparse(expand(win, s1.targets[0].slice))
        # index of the all-zero row: np.where(np.all(offsets == (0,0,0), axis=1))[0][0] / np.flatnonzero(...)[0] / np.nonzero(...)[0][0] / np.argmax(np.all(...))
        finds_zero_row = any(k_ in sl1 for k_ in ("np.where", "np.flatnonzero", "np.nonzero", "np.argmax")) and "(0, 0, 0)" in sl1 and "all(" in sl1
        z1 = finds_zero_row and isinstance(s1.value, ast.Subscript) and const_value(s1.value.slice) == 0
        z2 = const_value(s2.targets[0].slice) == 0 and isinstance(s2.value, (ast.Tuple, ast.List)) and all(const_value(x) == 0 for x in s2.value.elts)
        ok = z1 and z2 and win.cfg.dominates(s1, s2)
    obs.append(Ob("Caxis", clause, win, stores[0] if stores else win.node, ok,
                  "the zero offset is swapped to index 0 (old first offset moved to the zero slot first, then slot 0 zeroed): the home cell is image block 0", slot="home-cell-first",
                  undecided=len(stores) == 2 and not ok and not ("(0, 0, 0)" in sl1)))
    # image-major layout
    ap = [n for n in win.own_nodes() if isinstance(n, ast.Assign) and isinstance(n.value, ast.ListComp) and "positions" in ast.unparse(n.value.elt)
          and isinstance(n.value.elt, ast.BinOp)]
    fl = [n for n in win.own_nodes() if isinstance(n, ast.Assign) and isinstance(n.value, ast.Call) and call_name(n.value) == "array" and n.value.args
          and isinstance(n.value.args[0], ast.ListComp) and len(n.value.args[0].generators) == 2]
    ok = len(ap) == 1 and len(fl) == 1
    if ok:
        g0, g1 = fl[0].value.args[0].generators
        ok = isinstance(g1.iter, ast.Name) and isinstance(g0.target, ast.Name) and g1.iter.id == g0.target.id and ast.unparse(fl[0].value.args[0].elt) == g1.target.id
    obs.append(Ob("Caxis", clause, win, fl[0] if fl else win.node, ok, "all image positions are laid out image-major (outer: image, inner: atom), so index %% atom-count is the atom", slot="image-major"))
    # triclinic normals paired with the remaining row
    nv = [n for n in win.own_nodes() if isinstance(n, ast.Assign) and isinstance(n.value, ast.Call) and call_name(n.value) == "array" and n.value.args
          and isinstance(n.value.args[0], ast.List) and all(isinstance(x, ast.Call) and call_name(x) == "cross" for x in n.value.args[0].elts)]
    if len(nv) != 1:
        raise AnalysisError("C02: plane-normal construction not found")
    pairs = []
    for x in nv[0].value.args[0].elts:
        pairs.append(tuple(const_value(a.slice) if isinstance(a, ast.Subscript) else None for a in x.args))
    nvname = nv[0].targets[0].id
    pd = [n for n in win.own_nodes() if isinstance(n, ast.Assign) and "abs" in ast.unparse(n.value)[:10] and nvname in ast.unparse(n.value)]
    if len(pd) != 1:
        raise AnalysisError("C02: plane distance computation not found")
    dots = [c for c in ast.walk(pd[0].value) if isinstance(c, ast.Call) and call_name(c) == "dot"]
    for k, d in enumerate(sorted(dots, key=lambda c: (c.lineno, c.col_offset))):
        row = None
        nk = None
        for a in d.args:
            if isinstance(a, ast.Subscript) and isinstance(a.value, ast.Name):
                if a.value.id == nvname:
                    nk = const_value(a.slice)
                else:
                    row = const_value(a.slice)
        par = win.parents.get(d)
        norm_idx = None
        if isinstance(par, ast.BinOp) and isinstance(par.op, ast.Div) and isinstance(par.right, ast.Subscript):
            norm_idx = const_value(par.right.slice)
        ok = nk == k and norm_idx == k and nk is not None and nk < len(pairs) and row is not None and set(pairs[nk]) | {row} == {0, 1, 2}
        obs.append(Ob("Caxis", clause, win, d, ok,
                      "plane %s: normal = cross(rows %s), width measured along the remaining row %s, normalised by the norm of the same normal (%s)" % (k, pairs[nk] if nk is not None and nk < len(pairs) else "?", row, norm_idx),
                      slot="plane-width:%d" % k))
    floor("Caxis", "plane widths", len(dots), 3)
    ok = sorted(map(lambda p: tuple(sorted(p)), pairs)) == [(0, 1), (0, 2), (1, 2)]
    obs.append(Ob("Caxis", clause, win, nv[0], ok, "the three normals are the cross products of the three distinct row pairs %s" % pairs, slot="normals"))
    # the normals are the ROWS of the stacked array: their lengths are norms along axis 1
    nn = [n for n in win.own_nodes() if isinstance(n, ast.Assign) and isinstance(n.value, ast.Call) and call_name(n.value) == "norm"
          and n.value.args and isinstance(n.value.args[0], ast.Name) and n.value.args[0].id == nvname]
    if nn:
        ax = kwarg(nn[0].value, "axis")
        axv = const_value(ax) if ax is not None else None
        obs.append(Ob("Caxis", clause, win, nn[0], axv in (1, -1),
                      "lengths of the plane normals are taken per ROW (axis=1) of the stacked normals (found axis=%s)" % axv, slot="normal-norms-axis",
                      positive=ax is not None and axv is not None))
    # inward sign of each plane: the stacked normals (a matrix whose ROWS are the normals) times the cell centre - matrix first
    for n_ in win.own_nodes():
        if isinstance(n_, ast.Assign) and isinstance(n_.value, ast.Call) and call_name(n_.value) in ("dot", "matmul") and len(n_.value.args) == 2:
            a0, a1 = n_.value.args
            if isinstance(a0, ast.Name) and isinstance(a1, ast.Name) and nvname in (a0.id, a1.id):
                other = a1 if a0.id == nvname else a0
                oe = expand(win, other)
                is_vec = isinstance(oe, ast.BinOp) and any(isinstance(y, ast.Call) and call_name(y) == "sum" for y in ast.walk(oe))
                if not is_vec:
                    continue
                ok_ = a0.id == nvname
                obs.append(Ob("Caxis", clause, win, n_, ok_,
                              "signed distance of the cell centre from the three planes = (rows of the normal matrix) . centre: %s" % (
                                  "np.dot(%s, %s)" % (a0.id, a1.id) if ok_ else
                                  "np.dot(%s, %s) multiplies the centre with the COLUMNS of the normal matrix - the three numbers are not the plane distances and the inward signs come out wrong for strongly tilted cells" % (a0.id, a1.id)),
                              slot="centre-distance-order", positive=not ok_))
        elif isinstance(n_, ast.Assign) and isinstance(n_.value, ast.BinOp) and isinstance(n_.value.op, ast.MatMult):
            a0, a1 = n_.value.left, n_.value.right
            if isinstance(a0, ast.Name) and isinstance(a1, ast.Name) and nvname in (a0.id, a1.id) and a1.id == nvname:
                obs.append(Ob("Caxis", clause, win, n_, False, "`%s @ %s` multiplies the centre with the columns of the normal matrix" % (a0.id, a1.id), slot="centre-distance-order", positive=True))
    # start atoms from the home block
    return obs


TAINT_SANITIZERS = {"cdist", "len", "shape"}
ALLOWED_SINKS = {
    # (function, kind of sink) -> reason
    ("_get_positions_from_all_adjacent_unit_cells", "window"): "shift-covariant window filters around the unit cell (bounds decided by D4)",
    ("find_pattern_in_structure.get_nearby_atoms", "window"): "cube filter around a start atom (both sides move with the structure)",
    ("find_pattern_in_structure", "allclose"): "re-check against the pattern copy translated to the candidate's own anchor atom (relative)",
    ("find_pattern_in_structure", "sorted"): "orders the candidate enumeration only; the set of atom groups does not depend on it",
}


def C_taint_absolute_coords(repo, clause):
    """Absolute coordinates (values derived from structure.positions) reach no comparison other than the allowed sinks."""
    obs = []
    win = repo.fn("_get_positions_from_all_adjacent_unit_cells")
    find = repo.fn("find_pattern_in_structure")
    gn = repo.nested(find, "get_nearby_atoms")

    def tainted_names(fn, seeds, src_param):
        t = set(seeds)
        changed = True

        def expr_tainted(e, t):
            if e is None:
                return False
            if isinstance(e, ast.Call) and call_name(e) in TAINT_SANITIZERS:
                return False
            if isinstance(e, ast.BinOp) and isinstance(e.op, ast.Sub) and expr_tainted(e.left, t) and expr_tainted(e.right, t):
                return False   # difference of two absolute positions is translation invariant
            if isinstance(e, ast.Attribute) and e.attr == "positions" and isinstance(e.value, ast.Name) and e.value.id == src_param:
                return True
            if isinstance(e, ast.Name):
                return e.id in t
            if isinstance(e, ast.Subscript):
                # a looked-up value carries absolute coordinates iff the container does (index flow is not value flow)
                return expr_tainted(e.value, t)
            if isinstance(e, (ast.ListComp, ast.GeneratorExp, ast.SetComp)):
                inner = set(t)
                for g in e.generators:
                    if expr_tainted(g.iter, inner):
                        for x in ast.walk(g.target):
                            if isinstance(x, ast.Name):
                                # enumerate index is not tainted
                                inner.add(x.id)
                        if isinstance(g.iter, ast.Call) and call_name(g.iter) == "enumerate" and isinstance(g.target, ast.Tuple):
                            inner.discard(g.target.elts[0].id) if isinstance(g.target.elts[0], ast.Name) else None
                return expr_tainted(e.elt, inner)
            return any(expr_tainted(c, t) for c in ast.iter_child_nodes(e) if isinstance(c, ast.expr) or isinstance(c, ast.Starred))
        while changed:
            changed = False
            for n in fn.own_nodes():
                targets = []
                val = None
                if isinstance(n, ast.Assign):
                    targets, val = n.targets, n.value
                elif isinstance(n, ast.AugAssign):
                    targets, val = [n.target], n.value
                elif isinstance(n, ast.For):
                    targets, val = [n.target], n.iter
                    if isinstance(n.iter, ast.Call) and call_name(n.iter) == "enumerate" and isinstance(n.target, ast.Tuple):
                        if expr_tainted(n.iter.args[0], t):
                            for x in ast.walk(n.target.elts[1]):
                                if isinstance(x, ast.Name) and x.id not in t:
                                    t.add(x.id)
                                    changed = True
                        continue
                if val is not None and expr_tainted(val, t):
                    # tuple-unpack of a call result: per-element taint is handled by the caller (seeds)
                    for tg in targets:
                        for x in ast.walk(tg):
                            if isinstance(x, ast.Name) and isinstance(x.ctx, ast.Store) and x.id not in t:
                                t.add(x.id)
                                changed = True
                elif isinstance(n, ast.Call) and isinstance(n.func, ast.Attribute) and n.func.attr == "append" and isinstance(n.func.value, ast.Name) \
                        and n.args and expr_tainted(n.args[0], t) and n.func.value.id not in t:
                    t.add(n.func.value.id)
                    changed = True
        return t, expr_tainted

    # 1. window function
    tw, et = tainted_names(win, set(), win.params[0])
    rets = [n for n in win.own_nodes() if isinstance(n, ast.Return)]
    if len(rets) != 1 or not isinstance(rets[0].value, ast.Tuple):
        raise AnalysisError("C03: return tuple of the image-list builder not found")
    ret_taint = [et(e, tw) for e in rets[0].value.elts]
    # 2. search function: seeds = tainted results of the call
    seeds = set()
    for n in find.own_nodes():
        if isinstance(n, ast.Assign) and isinstance(n.value, ast.Call) and call_name(n.value) == win.name and isinstance(n.targets[0], ast.Tuple):
            for te, flag in zip(n.targets[0].elts, ret_taint):
                if flag and isinstance(te, ast.Name):
                    seeds.add(te.id)
    tf, etf = tainted_names(find, seeds, find.params[0])
    # 3. nested cube filter: parameters bound to tainted arguments
    gseeds = set()
    for c in calls_named(find, gn.name):
        for p, a in zip(gn.params, c.args):
            if etf(a, tf):
                gseeds.add(p)
    tg, etg = tainted_names(gn, gseeds, "<none>")

    def sinks(fn, t, et_):
        out = []
        for n in fn.own_nodes():
            if isinstance(n, ast.Compare):
                if any(et_(x, t) for x in [n.left] + n.comparators):
                    out.append(("compare", n))
            elif isinstance(n, ast.Call):
                nm = call_name(n)
                if nm in ("isclose", "allclose", "array_equal") and any(et_(a, t) for a in n.args):
                    out.append(("allclose", n))
                elif nm in ("sorted", "sort", "argsort", "lexsort", "min", "max", "argmin", "argmax") and (
                        any(et_(a, t) for a in n.args) or (isinstance(n.func, ast.Attribute) and et_(n.func.value, t))):
                    out.append(("sorted", n))
        return out

    total = 0
    for fn, t, et_ in ((win, tw, et), (find, tf, etf), (gn, tg, etg)):
        for kind, node in sinks(fn, t, et_):
            total += 1
            k = kind
            if kind == "compare":
                # comparison inside a window test?
                k = "window" if fn is not find else "compare"
            reason = ALLOWED_SINKS.get((fn.qualname, k))
            ok = reason is not None
            obs.append(Ob("Ctaint", clause, fn, node, ok,
                          ("absolute coordinates reach this %s: allowed, %s" % (kind, reason)) if ok else
                          ("absolute coordinates (derived from structure.positions) reach a %s outside the shift-covariant windows: the result can depend on where the structure sits in the cell" % kind),
                          slot="%s:%s" % (k, re.sub(r"\s+", " ", ast.unparse(node))[:70])))
    floor("Ctaint", "comparison sinks reached by absolute coordinates", total, 8)
    lost = len(ret_taint) == 4 and not ret_taint[0] and not ret_taint[3]      # the positions themselves are not seen as coordinates: the taint tracking lost them
    obs.append(Ob("Ctaint", clause, win, rets[0], ret_taint == [True, False, False, True],
                  "of the four image lists only the positions carry absolute coordinates (types and indices do not): %s" % ret_taint, slot="return-taint",
                  positive=len(ret_taint) == 4 and not lost and (ret_taint[1] or ret_taint[2]), undecided=lost))
    return obs


def C_idx_extend(repo, clause):
    """Index spaces inside Atoms.extend: `other` indices on the right, `self` indices on the left."""
    fnobj = repo.fn("Atoms.extend")
    for p in ("self", "other", "structure_index_map"):
        if p not in fnobj.params:
            raise AnalysisError("C-idx: Atoms.extend lost parameter %s" % p)
    env = {"self": ("atoms", "S"), "other": ("atoms", "O"), "structure_index_map": ("map", Idx("O"), Idx("S")), "offsets": None}
    W, f = isa.analyse(repo, "Atoms.extend", env)
    obs = _collect(repo, W, clause, "Cidx")
    if not any(not o.ok for o in obs):
        floor("Cidx", "typed index obligations in Atoms.extend", len(obs), 9)
    return obs


def _angle_coefficients(fn, e, depth=5):
    """The set of constant factors with which the arccos angle enters the expression e (through products / quotients with constants, negation and
    local copies); None when e is not of that form."""
    from verif_sa.dataflow import _assigned_value, PARAM
    if depth < 0:
        return None
    if isinstance(e, ast.Call) and call_name(e) == "arccos":
        return {1.0}
    if isinstance(e, ast.UnaryOp) and isinstance(e.op, ast.USub):
        r = _angle_coefficients(fn, e.operand, depth)
        return None if r is None else {-k for k in r}
    if isinstance(e, ast.BinOp) and isinstance(e.op, (ast.Mult, ast.Div)):
        cl, cr = const_value(e.left), const_value(e.right)
        if isinstance(cr, (int, float)) and not isinstance(cr, bool) and cr != 0:
            r = _angle_coefficients(fn, e.left, depth)
            return None if r is None else {(k * cr if isinstance(e.op, ast.Mult) else k / cr) for k in r}
        if isinstance(cl, (int, float)) and not isinstance(cl, bool) and isinstance(e.op, ast.Mult):
            r = _angle_coefficients(fn, e.right, depth)
            return None if r is None else {k * cl for k in r}
        return None
    if isinstance(e, ast.Name):
        defs = [n for n in fn.own_nodes() if isinstance(n, (ast.Assign, ast.AugAssign)) and any(
            isinstance(t, ast.Name) and t.id == e.id for t in (n.targets if isinstance(n, ast.Assign) else [n.target]))]
        if not defs or e.id in fn.params:
            return None
        out = set()
        base = set()
        for d in defs:
            if isinstance(d, ast.Assign):
                av = _assigned_value(d, e.id)
                if av is None:
                    return None
                if any(isinstance(x, ast.Name) and x.id == e.id for x in ast.walk(av[1])):
                    continue   # x = -x: handled below as a factor on the other definitions
                r = _angle_coefficients(fn, av[1], depth - 1)
                if r is None:
                    return None
                base |= r
        out |= base
        for d in defs:
            if isinstance(d, ast.AugAssign):
                c_ = const_value(d.value)
                if not isinstance(d.op, (ast.Mult, ast.Div)) or not isinstance(c_, (int, float)) or isinstance(c_, bool) or c_ == 0:
                    return None
                out |= {(k * c_ if isinstance(d.op, ast.Mult) else k / c_) for k in base}
            elif isinstance(d, ast.Assign):
                av = _assigned_value(d, e.id)
                if any(isinstance(x, ast.Name) and x.id == e.id for x in ast.walk(av[1])):
                    # self-referential re-definition: evaluate with the name standing for each base coefficient
                    for k in list(base):
                        sub = _SubstName(e.id, k).visit(__import__("copy").deepcopy(av[1]))
                        r = _angle_coefficients(fn, sub, depth - 1)
                        if r is None:
                            return None
                        out |= r
        return out or None
    if isinstance(e, ast.Constant) and isinstance(e.value, tuple) and len(e.value) == 2 and e.value[0] == "__coef__":
        return {e.value[1]}
    return None


class _SubstName(ast.NodeTransformer):
    def __init__(self, name, k):
        self.name, self.k = name, k

    def visit_Name(self, n):
        if n.id == self.name:
            return ast.copy_location(ast.Constant(("__coef__", self.k)), n)
        return n


def C_quaternion_layout(repo, clause):
    """Rotation construction: SciPy's Rotation.from_quat takes (x, y, z, w) - vector part first, scalar last - and a
    rotation by `angle` about a unit axis is (axis*sin(angle/2), cos(angle/2)).  Both helpers must build exactly that,
    with the SAME half angle in both components, from a normalised axis."""
    obs = []
    for q in ("quaternion_from_two_vectors", "quaternion_from_two_vectors_around_axis"):
        fn = repo.fn(q)
        calls = [c for c in calls_in(fn) if call_name(c) == "from_quat"]
        if len(calls) != 1:
            raise AnalysisError("Cquat: %s has %d from_quat calls" % (q, len(calls)))
        c = calls[0]
        arg = expand(fn, c.args[0]) if c.args else None
        recognised = isinstance(arg, (ast.List, ast.Tuple)) and len(arg.elts) == 2
        ok = False
        detail = "argument of from_quat is not a [*vector, scalar] literal"
        positive = False
        if recognised:
            v, s_ = arg.elts
            if isinstance(v, ast.Starred) and not isinstance(s_, ast.Starred):
                ve = v.value
                sin_part = [x for x in ast.walk(ve) if isinstance(x, ast.Call) and call_name(x) in ("sin", "cos")]
                cos_part = s_ if isinstance(s_, ast.Call) and call_name(s_) in ("sin", "cos") else None
                if len(sin_part) == 1 and cos_part is not None:
                    same_angle = nf(sin_part[0].args[0]) == nf(cos_part.args[0])
                    right_fn = call_name(sin_part[0]) == "sin" and call_name(cos_part) == "cos"
                    coefs = _angle_coefficients(fn, cos_part.args[0])
                    half = coefs is not None and all(abs(k_) == 0.5 for k_ in coefs)
                    ok = same_angle and right_fn and half
                    positive = coefs is not None or not (same_angle and right_fn)
                    detail = "quaternion = [*(axis * sin(%s)), cos(%s)]: vector part uses sin=%s, scalar part uses cos=%s, same half angle=%s, half angle=%s" % (
                        ast.unparse(sin_part[0].args[0]), ast.unparse(cos_part.args[0]), call_name(sin_part[0]) == "sin", call_name(cos_part) == "cos", same_angle, half)
            elif isinstance(s_, ast.Starred):
                positive = True
                detail = "scalar part comes FIRST: SciPy's from_quat expects (x, y, z, w)"
        obs.append(Ob("Cquat", clause, fn, c, ok, detail, slot="layout:%s" % q, positive=positive, undecided=not positive and recognised))
        # the axis is normalised before it is used
        norms = [n for n in fn.own_nodes() if isinstance(n, ast.AugAssign) and isinstance(n.op, ast.Div) and isinstance(n.target, ast.Name)
                 and isinstance(n.value, ast.Call) and call_name(n.value) == "norm" and ast.unparse(n.value.args[0]) == n.target.id]
        ok_n = len(norms) == 1 and fn.cfg.reaches(norms[0], fn.stmt_of(c))
        obs.append(Ob("Cquat", clause, fn, norms[0] if norms else fn.node, ok_n, "the rotation axis is divided by its norm before the quaternion is built", slot="axis-normalised:%s" % q))
        # the angle comes from a clipped dot product of unit vectors
        acs = [x for x in calls_in(fn) if call_name(x) == "arccos"]
        ok_a = len(acs) == 1 and any(isinstance(y, ast.Call) and call_name(y) == "max" for y in ast.walk(acs[0])) and any(isinstance(y, ast.Call) and call_name(y) == "min" for y in ast.walk(acs[0]))
        clip = len(acs) == 1 and any(isinstance(y, ast.Call) and call_name(y) == "clip" for y in ast.walk(acs[0]))
        obs.append(Ob("Cquat", clause, fn, acs[0] if acs else fn.node, ok_a or clip, "the angle is arccos of the dot product clipped to [-1, 1] (rounding cannot produce NaN)", slot="angle-clipped:%s" % q))
    # farthest-from-axis: align the axis with a coordinate axis k and measure in the two OTHER coordinates
    fn = repo.fn("position_index_farthest_from_axis")
    qc = [c for c in calls_in(fn) if call_name(c) == "quaternion_from_two_vectors"]
    ok = False
    detail = "alignment call not found"
    positive = False
    if len(qc) == 1 and len(qc[0].args) == 2 and isinstance(qc[0].args[1], (ast.List, ast.Tuple)):
        tgt = [const_value(x) for x in qc[0].args[1].elts]
        k = [i for i, v in enumerate(tgt) if v]
        sl = [s_ for s_ in fn.own_nodes() if isinstance(s_, ast.Subscript) and isinstance(s_.slice, ast.Tuple) and len(s_.slice.elts) == 2 and isinstance(s_.slice.elts[1], ast.Slice)]
        cols = None
        if len(k) == 1 and len(sl) == 1:
            lo, hi = const_value(sl[0].slice.elts[1].lower), const_value(sl[0].slice.elts[1].upper)
            lo = 0 if lo is None else lo
            cols = set(range(lo, 3 if hi is None else hi))
        elif len(k) == 1 and not sl:
            # single columns: ratoms[:, 1], ratoms[:, 2] (read anywhere in the function)
            single = [s_ for s_ in fn.own_nodes() if isinstance(s_, ast.Subscript) and isinstance(s_.slice, ast.Tuple) and len(s_.slice.elts) == 2
                      and isinstance(s_.slice.elts[0], ast.Slice) and isinstance(const_value(s_.slice.elts[1]), int)]
            if single:
                cols = {const_value(s_.slice.elts[1]) for s_ in single}
        if cols is not None:
            ok = cols == {0, 1, 2} - {k[0]}
            positive = True
            detail = "axis is rotated onto coordinate %d; distance from the axis is measured in coordinates %s" % (k[0], sorted(cols))
    obs.append(Ob("Cquat", clause, fn, qc[0] if qc else fn.node, ok, detail, slot="farthest-from-axis-columns", positive=positive, undecided=not positive and bool(qc)))
    obs.extend(_roll_sign(repo, clause))
    return obs


def _roll_sense_by_terms(fn):
    """(ok, detail) from the PE term of the quaternion's sine argument, or None when the term is not a phi of signed multiples of the angle."""
    from verif_sa.pe import P, Normalizer, decision_list
    try:
        dl = decision_list(fn.node, {p: P(p) for p in fn.params}, Normalizer({}))
    except Exception:
        return None
    rets = [leaf for conds, leaf in dl if isinstance(leaf, tuple) and leaf and leaf[0] == "ret"]
    if len(rets) != 1:
        return None

    def find(t, pred):
        if isinstance(t, tuple):
            if pred(t):
                return t
            for x in t:
                r = find(x, pred)
                if r is not None:
                    return r
        return None
    sin = find(rets[0], lambda t: len(t) >= 4 and t[0] == "mcall" and t[2] == "sin")
    if sin is None:
        return None
    arg = sin[3][1] if len(sin[3]) > 1 else None

    def mentions(t, name):
        return find(t, lambda x: len(x) >= 3 and x[0] in ("mcall",) and x[2] == name) is not None or find(t, lambda x: len(x) >= 2 and x[0] == "call" and x[1] == name) is not None

    def coef(t):
        """{(condition-or-None, coefficient)}: signed multiples of the arccos angle, split at phi nodes"""
        if not isinstance(t, tuple):
            return None
        if t[0] == "mcall" and t[2] == "arccos":
            return [((), 1.0)]
        if t[0] == "neg":
            r = coef(t[1])
            return None if r is None else [(c, -k) for c, k in r]
        if t[0] in ("mul", "div") and len(t) == 3:
            a, b = t[1], t[2]
            if isinstance(b, tuple) and b[0] == "const" and isinstance(b[1], (int, float)) and b[1] != 0:
                r = coef(a)
                return None if r is None else [(c, k * b[1] if t[0] == "mul" else k / b[1]) for c, k in r]
            if isinstance(a, tuple) and a[0] == "const" and isinstance(a[1], (int, float)) and t[0] == "mul":
                r = coef(b)
                return None if r is None else [(c, k * a[1]) for c, k in r]
            return None
        if t[0] == "phi" and len(t) == 4:
            ra, rb = coef(t[2]), coef(t[3])
            if ra is None or rb is None:
                return None
            return [(c + ((t[1], True),), k) for c, k in ra] + [(c + ((t[1], False),), k) for c, k in rb]
        return None
    cs = coef(arg)
    if cs is None:
        return None
    par, anti = [], []

    def gen_eval(c, pval):
        """truth of a branch condition in the generic case (the angle is neither 0 nor pi) when the parallel test has the value pval; None = cannot tell"""
        if not isinstance(c, tuple) or not c:
            return None
        op = c[0]
        if op == "not":
            v = gen_eval(c[1], pval)
            return None if v is None else not v
        if op in ("and", "or"):
            vals = [gen_eval(x, pval) for x in c[1:]]
            if any(v is None for v in vals):
                return None
            return all(vals) if op == "and" else any(vals)
        if mentions(c, "cross") and (mentions(c, "isclose") or mentions(c, "allclose")):
            return pval
        if op in ("eq", "in", "ne", "notin") and len(c) == 3 and find(c, lambda x: len(x) >= 3 and x[0] == "mcall" and x[2] == "arccos") is not None:
            return op in ("ne", "notin")
        return None
    for conds, k in cs:
        if not conds:
            return None
        for pval, bucket in ((True, par), (False, anti)):
            vals = [gen_eval(c, pval) for c, pol in conds]
            if any(v is None for v in vals):
                return None
            if all(v == pol for v, (c, pol) in zip(vals, conds)):
                bucket.append(k)
    if not par or not anti:
        return None
    ok = all(k == 0.5 for k in par) and all(k == -0.5 for k in anti)
    return ok, ("the sine argument is %s x theta where cross(v1, v2) is parallel to the axis and %s x theta otherwise%s" % (
        sorted(set(par)), sorted(set(anti)), "" if ok else ": a right-handed roll needs +theta/2 on the parallel branch and -theta/2 on the other - the orientation point is rolled the WRONG way"))


def _roll_sign(repo, clause):
    """Sense of the roll about a given axis n: with theta = arccos(v1.v2) in [0, pi], the rotation taking v1 to v2 is +theta about n
    when cross(v1, v2) is parallel to n and -theta when it is antiparallel.  The helper builds its quaternion from s_q*theta and
    multiplies theta by s_b on the branch where cross(v1, v2) matches n: s_q*s_b must be +1 there and s_q must be -1 elsewhere."""
    fn = repo.fn("quaternion_from_two_vectors_around_axis")
    obs = []
    fq = [c for c in calls_in(fn) if call_name(c) == "from_quat"]
    if len(fq) != 1 or not fq[0].args:
        return obs
    trig = [x for x in ast.walk(fq[0].args[0]) if isinstance(x, ast.Call) and call_name(x) in ("sin",) and x.args]
    if len(trig) != 1:
        return obs

    def sign_of(e, name):
        """sign with which `name` enters the product/quotient expression e (None if not of that form)"""
        if isinstance(e, ast.Name):
            return 1 if e.id == name else None
        if isinstance(e, ast.UnaryOp) and isinstance(e.op, ast.USub):
            s_ = sign_of(e.operand, name)
            return -s_ if s_ is not None else None
        if isinstance(e, ast.BinOp) and isinstance(e.op, (ast.Mult, ast.Div)):
            l, r_ = sign_of(e.left, name), sign_of(e.right, name)
            cl, cr = const_value(e.left), const_value(e.right)
            if l is not None and cr is not None and cr != 0:
                return l * (1 if cr > 0 else -1)
            if r_ is not None and cl is not None and cl != 0 and isinstance(e.op, ast.Mult):
                return r_ * (1 if cl > 0 else -1)
        return None
    # the angle variable
    acs = [n for n in fn.own_nodes() if isinstance(n, ast.Assign) and isinstance(n.value, ast.Call) and call_name(n.value) == "arccos"
           and len(n.targets) == 1 and isinstance(n.targets[0], ast.Name)]
    if len(acs) != 1:
        return obs
    ang = acs[0].targets[0].id
    s_q = sign_of(trig[0].args[0], ang)
    flips = [n for n in fn.own_nodes() if isinstance(n, ast.AugAssign) and isinstance(n.target, ast.Name) and n.target.id == ang and isinstance(n.op, ast.Mult)
             and const_value(n.value) is not None] + \
            [n for n in fn.own_nodes() if isinstance(n, ast.Assign) and len(n.targets) == 1 and isinstance(n.targets[0], ast.Name) and n.targets[0].id == ang
             and n is not acs[0] and sign_of(n.value, ang) is not None]
    s_b = 1
    flip_node = None
    par_guard = False
    for f_ in flips:
        flip_node = f_
        s_b = (1 if const_value(f_.value) > 0 else -1) if isinstance(f_, ast.AugAssign) else sign_of(f_.value, ang)
        for t, pol, k in norm_guards(fn, f_):
            t = _inline_cross_temps(fn, t)       # the normal may sit in a temporary
            if pol and any(isinstance(x, ast.Call) and call_name(x) == "cross" for x in ast.walk(t)) and any(isinstance(x, ast.Call) and call_name(x) in ("isclose", "allclose") for x in ast.walk(t)):
                par_guard = True
    if s_q is None:
        # other spellings (half angle in a local, negated on one branch): decide on the partial evaluator's term for the sine argument - a phi over the
        # parallel test whose two sides are constant multiples of the arccos angle
        verdict = _roll_sense_by_terms(fn)
        if verdict is not None:
            ok_, detail_ = verdict
            obs.append(Ob("Cquat", clause, fn, fq[0], ok_, detail_, slot="roll-sense", positive=not ok_))
        else:
            obs.append(Ob("Cquat", clause, fn, fq[0], False, "roll sense: the angle does not enter the quaternion as a signed multiple of the arccos result", slot="roll-sense", undecided=True))
        return obs
    ok = (s_q == -1 and flip_node is not None and par_guard and s_b == -1) or (s_q == 1 and flip_node is not None and not par_guard and False)
    if s_q == -1:
        detail = "quaternion uses -theta; on the branch where cross(v1, v2) is parallel to the axis theta is multiplied by %s%s" % (
            "%+d" % s_b if flip_node is not None else "+1 (NO sign flip)", "" if ok else
            ": the product of the two signs must be +1 there (right-handed rotation by +theta about the axis) - as written the orientation point is rolled the WRONG way for half of the poses and the pose check then rejects the match")
    else:
        detail = "quaternion uses +theta: the antiparallel branch (cross(v1, v2) opposite to the axis) must then flip the sign; not recognised"
    obs.append(Ob("Cquat", clause, fn, flip_node if flip_node is not None else fq[0], ok, detail, slot="roll-sense",
                  positive=(s_q == -1 and (flip_node is None or (par_guard and s_b != -1))), undecided=not (s_q == -1)))
    # the branch test itself: isclose(axis, cross(v1, v2) / norm(cross(v1, v2))) with v1 from the FIRST point and v2 from the SECOND
    if flip_node is not None and par_guard:
        p1, p2 = fn.params[0], fn.params[1]

        def origin(nm):
            seen, work, hit = set(), [nm], set()
            while work:
                x = work.pop()
                if x in seen:
                    continue
                seen.add(x)
                if x in (p1, p2):
                    hit.add(x)
                for d in fn.own_nodes():
                    if isinstance(d, ast.Assign) and any(isinstance(t, ast.Name) and t.id == x for t in d.targets):
                        for y in ast.walk(d.value):
                            if isinstance(y, ast.Name) and y.id != x:
                                work.append(y.id)
                            elif isinstance(y, ast.Name) and y.id in (p1, p2):
                                hit.add(y.id)
            return hit
        for t, pol, k in norm_guards(fn, flip_node):
            t = _inline_cross_temps(fn, t)
            # the other conjunct may only exclude the two angles at which the sense is undefined (exactly 0 and exactly pi)
            conj_ = t.values if isinstance(t, ast.BoolOp) and isinstance(t.op, ast.And) else [t]
            for cj in conj_:
                if any(isinstance(y, ast.Call) and call_name(y) == "cross" for y in ast.walk(cj)):
                    continue
                if not any(isinstance(y, ast.Name) and y.id == ang for y in ast.walk(cj)):
                    continue
                tol_ = [y for y in ast.walk(cj) if isinstance(y, ast.Call) and call_name(y) in ("isclose", "allclose")]
                exact = isinstance(cj, ast.Compare) and len(cj.ops) == 1 and isinstance(cj.ops[0], (ast.NotIn, ast.NotEq))
                obs.append(Ob("Cquat", clause, fn, cj, exact and not tol_,
                              "the sense test is skipped only for %s" % ("angles exactly 0 or pi (`%s`)" % ast.unparse(cj) if exact and not tol_ else (
                                  "angles WITHIN A TOLERANCE of 0 or pi (`%s`): a small twist of that size is rolled the wrong way in one of its two senses, so exact copies are missed at tight atol" % ast.unparse(cj)[:70]
                                  if tol_ else "`%s` (not recognised)" % ast.unparse(cj)[:60])),
                              slot="roll-sense-exclusion", positive="robust" if tol_ else False, undecided=not tol_ and not exact))
            for c in [x for x in ast.walk(t) if isinstance(x, ast.Call) and call_name(x) in ("isclose", "allclose") and len(x.args) >= 2]:
                other = [a for a in c.args[:2] if any(isinstance(y, ast.Call) and call_name(y) == "cross" for y in ast.walk(a))]
                if len(other) != 1:
                    continue
                e = other[0]
                crosses = [y for y in ast.walk(e) if isinstance(y, ast.Call) and call_name(y) == "cross" and len(y.args) == 2]
                unit = isinstance(e, ast.BinOp) and isinstance(e.op, ast.Div) and isinstance(e.left, ast.Call) and call_name(e.left) == "cross" \
                    and isinstance(e.right, ast.Call) and call_name(e.right) == "norm" and e.right.args and isinstance(e.right.args[0], ast.Call) and call_name(e.right.args[0]) == "cross" \
                    and sorted(ast.unparse(z) for z in e.right.args[0].args) == sorted(ast.unparse(z) for z in e.left.args)
                top = e.left if isinstance(e, ast.BinOp) and isinstance(e.left, ast.Call) and call_name(e.left) == "cross" else crosses[0]
                a_, b_ = top.args
                oa = origin(a_.id) if isinstance(a_, ast.Name) else set()
                ob_ = origin(b_.id) if isinstance(b_, ast.Name) else set()
                order_ok = oa == {p1} and ob_ == {p2}
                swapped = oa == {p2} and ob_ == {p1}
                obs.append(Ob("Cquat", clause, fn, c, unit and order_ok,
                              "roll branch test compares the unit axis with %s" % (
                                  "cross(v1, v2) / |cross(v1, v2)| (v1 from the first point, v2 from the second)" if unit and order_ok else (
                                      "`%s`: %s" % (ast.unparse(e)[:70],
                                                    "the cross product is taken in the OPPOSITE order, so the two senses of rotation are exchanged" if swapped else
                                                    ("NOT the unit normal (cross product divided by its own norm): the comparison with the unit axis fails for every pose and the sign is never flipped" if not unit else
                                                     "operands of the cross product are not recognisably derived from the two points")))),
                              slot="roll-branch-test", positive=swapped or (not unit and order_ok), undecided=not (swapped or (not unit and order_ok))))
    return obs


def _inline_cross_temps(fn, t):
    """Replace, in a copy of the test, every local that is bound exactly once to an expression containing a cross product by that expression (normal = np.cross(v1, v2))."""
    import copy
    defs = {}
    for d in fn.own_nodes():
        if isinstance(d, ast.Assign) and len(d.targets) == 1 and isinstance(d.targets[0], ast.Name):
            defs.setdefault(d.targets[0].id, []).append(d.value)
    sub = {k: v[0] for k, v in defs.items() if len(v) == 1 and any(isinstance(y, ast.Call) and call_name(y) == "cross" for y in ast.walk(v[0]))}
    if not sub or not any(isinstance(y, ast.Name) and y.id in sub for y in ast.walk(t)):
        return t

    class _S(ast.NodeTransformer):
        def visit_Name(self, node):
            if isinstance(node.ctx, ast.Load) and node.id in sub:
                return copy.deepcopy(sub[node.id])
            return node
    return ast.fix_missing_locations(_S().visit(copy.deepcopy(t)))


def C_roll_every_return(repo, clause):
    """quaternion_from_two_vectors_around_axis hands back the roll that brings the orientation point into place.  Every normal return must be that rotation
    (R.from_quat built from the measured angle).  A shortcut that returns the identity when a point is "on the axis" within a tolerance (projected length below a
    constant) skips the roll for points that are merely CLOSE to the axis: the pattern is then found in one pose and not after a turn about its own axis."""
    fn = repo.fn("quaternion_from_two_vectors_around_axis")
    obs = []
    rets = [r for r in fn.own_nodes() if isinstance(r, ast.Return)]
    n_full = 0
    for r in rets:
        v = r.value
        try:
            ve = expand(fn, v) if v is not None else None
        except Exception:
            ve = v
        full = ve is not None and any(isinstance(c, ast.Call) and call_name(c) == "from_quat" for c in ast.walk(ve))
        if full:
            n_full += 1
            continue
        gs = norm_guards(fn, r)
        tol = [c for t, pol, k in gs for c in ast.walk(t) if isinstance(c, ast.Constant) and isinstance(c.value, float) and c.value > 1e-12]
        obs.append(Ob("Cquat", clause, fn, r, False,
                      "`%s` under `%s`: this return is not the rotation built from the measured roll angle%s" % (
                          ast.unparse(r)[:40], " and ".join(ast.unparse(t)[:40] for t, pol, k in gs)[:90] or "no condition",
                          "; the condition is a THRESHOLD (%s) on a length, so an orientation point that is only close to the axis (a slightly bent chain) gets no roll at all and the "
                          "pose check then rejects - or accepts - the match depending on how the pattern happens to be turned" % ", ".join(repr(c.value) for c in tol[:2]) if tol else ""),
                      slot="roll-every-return", positive="robust" if tol else False, undecided=not tol))
    obs.append(Ob("Cquat", clause, fn, fn.node, n_full >= 1, "%d return(s) hand back the rotation built from the roll angle" % n_full, construct="def %s" % fn.name, slot="roll-return-count"))
    return obs


def C_roll_gate(repo, clause):
    """In the pose loop of the search, the second rotation (the roll about the matched axis that brings the orientation
    point into place) is applied whenever the match has more than two atoms.  Rolling is never harmful (the pose is
    re-checked afterwards); NOT rolling is only harmless for an exactly collinear pattern.  A condition other than the
    atom count in front of the roll therefore places every off-axis atom of the replacement at an arbitrary roll angle
    for the patterns it excludes."""
    fn = repo.fn("find_pattern_in_structure")
    calls = [c for c in calls_in(fn) if call_name(c) == "quaternion_from_two_vectors_around_axis"]
    if len(calls) != 1:
        raise AnalysisError("Croll: the roll about the matched axis (quaternion_from_two_vectors_around_axis) is not called exactly once in the search")
    c = calls[0]
    loops = [a for a in fn.ancestors(c) if isinstance(a, ast.For)]
    if not loops:
        raise AnalysisError("Croll: the roll is not inside the pose loop")
    extra = []
    counts = []
    for t, pol, k in norm_guards(fn, c, stop=loops[0]):
        te = expand(fn, t)
        names = {x.id for x in ast.walk(te) if isinstance(x, ast.Name)} - {"len", "np"}
        is_len = isinstance(te, ast.Compare) and all(isinstance(x, ast.Call) and call_name(x) == "len" or const_value(x) is not None for x in [te.left] + te.comparators)
        if is_len:
            counts.append(t)
        else:
            extra.append((t, pol, te))
    obs = []
    obs.append(Ob("Croll", clause, fn, c, bool(counts), "the roll about the matched axis is applied under the atom-count test%s" % (
        "s " + ", ".join("`%s`" % ast.unparse(x) for x in counts) if counts else ": NO count test found"), slot="roll-count-gate", undecided=True))
    tol = False
    if extra:
        # where does the extra condition come from?
        seen = set()
        work = [extra[0][2]]
        while work and len(seen) < 40:
            e = work.pop()
            for x in ast.walk(e):
                if isinstance(x, ast.Name) and x.id not in seen:
                    seen.add(x.id)
                    for d in fn.own_nodes():
                        if isinstance(d, ast.Assign) and any(isinstance(tg, ast.Name) and tg.id == x.id for tg in d.targets):
                            work.append(d.value)
                if isinstance(x, ast.Constant) and isinstance(x.value, float):
                    tol = True
        tol = tol or "atol" in seen
    obs.append(Ob("Croll", clause, fn, fn.stmt_of(c), not extra,
                  "no other condition stands between a match with more than two atoms and its roll%s" % (
                      "" if not extra else " -- the roll is SKIPPED unless `%s` is %s%s" % (
                          ast.unparse(extra[0][0])[:60], extra[0][1],
                          "; that condition is derived from a tolerance, so a nearly-collinear search pattern gets an arbitrary roll and every off-axis atom of the replacement lands at an arbitrary angle about the axis" if tol else "")),
                  slot="roll-unconditional", positive=bool(extra) and tol, undecided=not (bool(extra) and tol)))
    return obs


def C_return_shape(repo, clause):
    """find_pattern_in_structure has two result shapes selected by return_positions_and_quats (index tuples only / index
    tuples, positions, rotations).  Every return statement must be governed by that flag and have the matching arity,
    and the replacement - which passes the flag as True - unpacks exactly three values."""
    fn = repo.fn("find_pattern_in_structure")
    flag = "return_positions_and_quats"
    if flag not in fn.params:
        raise AnalysisError("Cret: find_pattern_in_structure no longer has the parameter %s" % flag)
    obs = []
    rets = [r for r in fn.own_nodes() if isinstance(r, ast.Return)]
    floor("Cret", "return statements", len(rets), 2)
    for r in sorted(rets, key=lambda n: n.lineno):
        pol_flag = None
        for t, pol, k in norm_guards(fn, r):
            if isinstance(t, ast.Name) and t.id == flag:
                pol_flag = pol
        arity = len(r.value.elts) if isinstance(r.value, ast.Tuple) else 1
        if pol_flag is None and isinstance(r.value, ast.IfExp) and isinstance(r.value.test, ast.Name) and r.value.test.id == flag:
            a3 = len(r.value.body.elts) if isinstance(r.value.body, ast.Tuple) else 1
            a1 = len(r.value.orelse.elts) if isinstance(r.value.orelse, ast.Tuple) else 1
            obs.append(Ob("Cret", clause, fn, r, a3 == 3 and a1 == 1, "conditional return: arity %d with the flag, %d without" % (a3, a1), slot="return-shape:ifexp", positive=True))
            continue
        if pol_flag is None and not isinstance(r.value, (ast.List, ast.Tuple, ast.Constant, ast.Dict, ast.Set)):
            obs.append(Ob("Cret", clause, fn, r, False, "`%s` is not governed by %s and its shape cannot be read off the statement" % (ast.unparse(r)[:50], flag),
                          slot="return-shape:ungoverned", undecided=True))
            continue
        if pol_flag is None:
            ok = False
            d = "`%s` is NOT governed by %s: with the flag set the caller unpacks three values (index tuples, positions, rotations) and gets %s" % (
                ast.unparse(r)[:50], flag, "a single value - a ValueError instead of an empty result" if arity == 1 else "%d values" % arity)
        else:
            ok = (arity == 3) if pol_flag else (arity == 1)
            d = "`%s` under %s=%s has arity %d" % (ast.unparse(r)[:50], flag, pol_flag, arity)
        obs.append(Ob("Cret", clause, fn, r, ok, d, slot="return-shape:%s" % ("3" if pol_flag else ("1" if pol_flag is False else "ungoverned")), positive=True))
    rp = repo.fn("replace_pattern_in_structure")
    for c in calls_named(rp, "find_pattern_in_structure"):
        kv = kwarg(c, flag)
        st = rp.stmt_of(c)
        n_t = len(st.targets[0].elts) if isinstance(st, ast.Assign) and isinstance(st.targets[0], ast.Tuple) else 1
        want = 3 if (kv is not None and const_value(kv) is True) else 1
        obs.append(Ob("Cret", clause, rp, c, n_t == want, "the replacement asks for %s and unpacks %d value(s)" % ("positions and rotations" if want == 3 else "index tuples only", n_t),
                      slot="caller-unpack", positive=True))
    return obs


def C_element_gate_equality(repo, clause):
    """Starting atoms are those whose element EQUALS the first pattern element.  The helper receives one element symbol
    (a str) from the search: a membership test `t in element` on a str is a substring test ('C' in 'Cl')."""
    fn = repo.fn("atoms_of_type")
    obs = []
    if len(fn.params) < 2:
        raise AnalysisError("Cgate: atoms_of_type signature changed")
    el = fn.params[1]
    cmps = [n for n in fn.own_nodes() if isinstance(n, ast.Compare) and any(isinstance(x, ast.Name) and x.id == el for x in ast.walk(n))]
    if len(cmps) != 1:
        raise AnalysisError("Cgate: element test of atoms_of_type not found")
    c = cmps[0]
    # what do the callers pass?
    scalar_callers = []
    for f2 in repo.all_fns():
        for call in calls_named(f2, "atoms_of_type"):
            a = call.args[1] if len(call.args) > 1 else kwarg(call, el)
            if a is None:
                continue
            e = expand(f2, a)
            if isinstance(e, ast.Subscript) and not isinstance(e.slice, ast.Slice) and "elements" in ast.unparse(e.value):
                scalar_callers.append((f2, call))
            elif isinstance(e, ast.Constant) and isinstance(e.value, str):
                scalar_callers.append((f2, call))
    is_eq = len(c.ops) == 1 and isinstance(c.ops[0], ast.Eq)
    is_in = len(c.ops) == 1 and isinstance(c.ops[0], ast.In) and isinstance(c.comparators[0], ast.Name) and c.comparators[0].id == el
    obs.append(Ob("Cgate", clause, fn, c, is_eq,
                  "atoms_of_type selects by `%s`%s" % (ast.unparse(c), "" if is_eq else (
                      ": a membership test against the argument, but %s passes ONE element symbol (a str) - `in` is then a SUBSTRING test, so 'C' qualifies for 'Cl', 'N' for 'Na', 'S' for 'Si' and the element of the first pattern atom is no longer enforced" % (
                          scalar_callers[0][0].qualname if scalar_callers else "no recognised caller") if is_in else ": not an equality test")),
                  slot="element-equality", positive=is_in and bool(scalar_callers), undecided=not (is_in and bool(scalar_callers))))
    return obs


def C_wrap_modulus(repo, clause, modules=("mofun.mofun", "mofun.atoms", "mofun.detect_bonds")):
    """Coordinates are wrapped either by the cell diagonal (rule Caxis) or, in fractional coordinates, by exactly 1: `frac % c` with
    any other constant c is a translation by a non-lattice vector (c < 1) or leaves atoms outside the cell (c > 1)."""
    obs = []
    n = 0
    for fn in repo.all_fns():
        if fn.module.name not in modules:
            continue
        for x in fn.own_nodes():
            left = right = None
            if isinstance(x, ast.BinOp) and isinstance(x.op, ast.Mod):
                left, right = x.left, x.right
            elif isinstance(x, ast.AugAssign) and isinstance(x.op, ast.Mod):
                left, right = x.target, x.value
            if right is None or const_value(right) is None or isinstance(const_value(right), (str, bool)):
                continue
            if isinstance(left, ast.Constant) and isinstance(left.value, str):
                continue
            if isinstance(left, ast.JoinedStr):
                continue
            n += 1
            c = const_value(right)
            obs.append(Ob("Cwrap", clause, fn, x, c == 1,
                          "coordinates wrapped by the constant %r in %s%s" % (c, fn.qualname, "" if c == 1 else
                                                                              ": fractional coordinates are periodic with period 1 - a modulus of %r %s" % (
                                                                                  c, "shifts atoms by a fraction of a lattice vector (not a lattice translation)" if c < 1 else "leaves wrapped atoms outside the unit cell")),
                          slot="wrap-modulus:%s" % fn.qualname, positive=True))
    floor("Cwrap", "constant-modulus wraps", n, 2)
    return obs


def C_fractional_wrap(repo, clause, modules=("mofun.mofun", "mofun.atoms"), min_sites=1):
    """Wrapping through fractional coordinates: with lattice vectors as the ROWS of the cell, fractional = positions . inverse(cell) (or its transpose,
    inverse(cell.T) . positions.T) and back = fractional . cell.  The matrix chain in front of every `% 1` and of the product that restores Cartesian
    coordinates is normalised (dot / matmul / @ / .T / inv / solve) and compared with that form."""
    from .common import linalg_chain
    obs = []
    n_sites = 0

    def normalise(ch, is_pos):
        """transpose the whole product if the positions-like factor appears transposed"""
        if ch is None:
            return None
        pos = [x for x in ch if is_pos(x[0])]
        if len(pos) == 1 and pos[0][1]:
            ch = [(n, not t, i) for (n, t, i) in reversed(ch)]
        return ch

    for fn in repo.all_fns():
        if fn.module.name not in modules:
            continue
        # a triangular solver reads ONE triangle of its matrix: with a cell matrix it silently ignores the entries on the other side of the diagonal, which are
        # zero only for cells in the LAMMPS orientation - the fractional coordinates of a generally oriented (or upper-triangular) cell come out wrong
        for c_ in [x for x in fn.own_nodes() if isinstance(x, ast.Call) and call_name(x) in ("solve_triangular", "cho_solve", "lu_solve_triangular") and x.args]:
            try:
                m_ = expand(fn, c_.args[0])
            except Exception:
                m_ = c_.args[0]
            if any(isinstance(y, ast.Attribute) and y.attr == "cell" for y in ast.walk(m_)) or any(isinstance(y, ast.Name) and y.id == "cell" for y in ast.walk(m_)):
                obs.append(Ob("Cfrac", clause, fn, c_, False,
                              "`%s` in %s solves with ONE triangle of the cell matrix: the entries on the other side of the diagonal are ignored, so for every cell that is not stored in "
                              "that triangular (LAMMPS) orientation the fractional coordinates - and the atoms wrapped through them - are displaced by non-lattice vectors" % (
                                  ast.unparse(c_)[:60], fn.qualname), slot="triangular-solve:%s" % fn.qualname, positive="robust"))
        for n in fn.own_nodes():
            if not (isinstance(n, ast.BinOp) and isinstance(n.op, ast.Mod) and const_value(n.right) == 1):
                continue
            ch = linalg_chain(expand(fn, n.left))
            if ch is None or len(ch) < 2:
                continue
            is_pos = lambda nm: nm.endswith("positions") or nm.endswith(".positions.T")
            is_cell = lambda nm: nm.endswith("cell")
            if not any(is_pos(x[0]) for x in ch) or not any(is_cell(x[0]) for x in ch):
                continue
            n_sites += 1
            chn = normalise(ch, is_pos)
            shape_ok = len(chn) == 2 and is_pos(chn[0][0]) and is_cell(chn[1][0])
            ok = shape_ok and chn[0][1:] == (False, False) and chn[1][1:] == (False, True)
            why = "positions . inverse(cell)" if ok else (
                "the chain normalises to %s - %s" % (
                    " . ".join("%s%s%s" % ("inv(" if i else "", nm + (".T" if t else ""), ")" if i else "") for nm, t, i in chn),
                    "the inverse of the TRANSPOSED cell: that is the column-vector convention, but the lattice vectors are the ROWS of the cell, so atoms are shifted by non-lattice vectors in every sheared cell"
                    if shape_ok and chn[1][1:] == (True, True) else ("the cell is NOT inverted" if shape_ok and not chn[1][2] else "not of the form positions . inverse(cell)")))
            obs.append(Ob("Cfrac", clause, fn, n, ok, "fractional coordinates before `% 1` in " + fn.qualname + ": " + why, slot="cart-to-frac:%s" % fn.qualname, positive=shape_ok and not ok,
                          undecided=not shape_ok))
            # the way back: <fractional> . cell
            st = fn.stmt_of(n)
            if isinstance(st, ast.Assign) and len(st.targets) == 1 and isinstance(st.targets[0], ast.Name):
                fv = st.targets[0].id
                transposed_frac = bool([x for x in ch if is_pos(x[0])][0][1])
                for b in fn.own_nodes():
                    if isinstance(b, ast.Assign) and any(isinstance(y, ast.Name) and y.id == fv for y in ast.walk(b.value)) and b is not st:
                        cb = linalg_chain(b.value)
                        if cb is None or len(cb) != 2 or not any(is_cell(x[0]) for x in cb):
                            continue
                        # fv holds fractional ROWS if the forward product was not transposed, fractional COLUMNS otherwise
                        is_f = lambda nm: nm == fv
                        f_el = [x for x in cb if is_f(x[0])]
                        if len(f_el) != 1:
                            continue
                        eff = [(nm, (t != transposed_frac) if is_f(nm) else t, i) for nm, t, i in cb]
                        if [x for x in eff if is_f(x[0])][0][1]:
                            eff = [(nm, not t, i) for (nm, t, i) in reversed(eff)]
                        ok_b = is_f(eff[0][0]) and is_cell(eff[1][0]) and eff[1][1:] == (False, False)
                        obs.append(Ob("Cfrac", clause, fn, b, ok_b,
                                      "Cartesian coordinates restored as fractional . cell in %s: %s" % (fn.qualname, "yes" if ok_b else
                                                                                                       "NO - `%s` multiplies with the transposed (or inverted) cell" % ast.unparse(b.value)[:60]),
                                      slot="frac-to-cart:%s" % fn.qualname, positive=not ok_b))
    floor("Cfrac", "fractional wraps through a matrix product", n_sites, min_sites)
    if min_sites == 0:
        m0 = repo.module(modules[0])
        obs.append(Ob("Cfrac", clause, FileObj(m0.relpath, modules[0]), m0.tree.body[0], True, "%d wraps through fractional coordinates found in %s (each one judged above)" % (n_sites, ", ".join(modules)),
                      construct="fractional wrap inventory", slot="inventory"))
    return obs
