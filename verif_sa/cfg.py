"""Statement-level control-flow graph for one function, with dominators and path queries.

Nodes are the ``ast.stmt`` objects themselves (a compound statement stands for the evaluation of
its header: the test of ``if``/``while``, the iterator step of ``for``, the context expression of
``with``), plus three synthetic nodes ENTRY, EXIT (normal return / fall off the end) and RAISE
(an exception leaves the function).  Implicit exceptions of ordinary expressions are not modelled,
except inside a ``try`` body, where every statement gets an edge to the handlers."""
import ast

from .core import AnalysisError


class _Syn:
    def __init__(self, name):
        self.name = name
        self.lineno = 0

    def __repr__(self):
        return "<%s>" % self.name


class CFG:
    def __init__(self, fn):
        self.fn = fn
        self.ENTRY = _Syn("ENTRY")
        self.EXIT = _Syn("EXIT")
        self.RAISE = _Syn("RAISE")
        self.succ = {}
        self.pred = {}
        self.labels = {}
        self.nodes = []
        self._dom = None
        self._pdom = None
        ctx = {"break": None, "continue": None, "raise": self.RAISE, "intry": []}
        first = self._seq(fn.node.body, self.EXIT, ctx)
        self._edge(self.ENTRY, first, None)
        for n in (self.ENTRY, self.EXIT, self.RAISE):
            self._touch(n)

    # ---- construction --------------------------------------------------------------------------
    def _touch(self, n):
        if n not in self.succ:
            self.succ[n] = []
            self.pred[n] = []
            self.nodes.append(n)

    def _edge(self, a, b, label):
        self._touch(a)
        self._touch(b)
        if b not in self.succ[a]:
            self.succ[a].append(b)
            self.pred[b].append(a)
        self.labels.setdefault((a, b), set()).add(label)

    def _seq(self, stmts, nxt, ctx):
        entry = nxt
        for st in reversed(stmts):
            entry = self._stmt(st, entry, ctx)
        return entry

    def _stmt(self, st, nxt, ctx):
        for disp in ctx["intry"]:
            self._edge(st, disp, "X")
        if isinstance(st, ast.Return):
            self._edge(st, self.EXIT, None)
        elif isinstance(st, ast.Raise):
            self._edge(st, ctx["raise"], None)
        elif isinstance(st, ast.Break):
            if ctx["break"] is None:
                raise AnalysisError("break outside loop")
            self._edge(st, ctx["break"], None)
        elif isinstance(st, ast.Continue):
            self._edge(st, ctx["continue"], None)
        elif isinstance(st, ast.If):
            t = self._seq(st.body, nxt, ctx)
            f = self._seq(st.orelse, nxt, ctx)
            self._edge(st, t, "T")
            self._edge(st, f, "F")
        elif isinstance(st, (ast.While, ast.For, ast.AsyncFor)):
            after = self._seq(st.orelse, nxt, ctx)
            c2 = dict(ctx)
            c2["break"] = nxt
            c2["continue"] = st
            body = self._seq(st.body, st, c2)
            self._edge(st, body, "T")
            self._edge(st, after, "F")
        elif isinstance(st, (ast.With, ast.AsyncWith)):
            body = self._seq(st.body, nxt, ctx)
            self._edge(st, body, None)
        elif isinstance(st, ast.Try):
            fin = self._seq(st.finalbody, nxt, ctx) if st.finalbody else nxt
            disp = _Syn("DISPATCH@%d" % st.lineno)
            has_bare = False
            for h in st.handlers:
                he = self._seq(h.body, fin, ctx)
                self._edge(disp, he, "H")
                if h.type is None or (isinstance(h.type, ast.Name) and h.type.id in ("Exception", "BaseException")):
                    has_bare = True
            if not has_bare:
                self._edge(disp, ctx["raise"], "H")
            c2 = dict(ctx)
            c2["raise"] = disp if st.handlers else ctx["raise"]
            c2["intry"] = ctx["intry"] + ([disp] if st.handlers else [])
            orelse = self._seq(st.orelse, fin, ctx)
            body = self._seq(st.body, orelse, c2)
            return body
        elif isinstance(st, ast.Match):
            raise AnalysisError("match statement not supported by the CFG builder (%s line %d)" % (self.fn.qualname, st.lineno))
        else:
            # simple statement, nested def/class, assert, etc.
            self._edge(st, nxt, None)
        return st

    # ---- queries -------------------------------------------------------------------------------
    def reachable_from(self, start, avoid=()):
        seen = set()
        stack = [start]
        avoid = set(avoid)
        while stack:
            n = stack.pop()
            if n in seen or n in avoid:
                continue
            seen.add(n)
            stack.extend(self.succ.get(n, []))
        return seen

    def reaches(self, a, b, avoid=()):
        """Is there a path from a to b (of length >= 1) that avoids the given nodes?"""
        avoid = set(avoid)
        seen = set()
        stack = [s for s in self.succ.get(a, []) if s not in avoid or s is b]
        while stack:
            n = stack.pop()
            if n is b:
                return True
            if n in seen or n in avoid:
                continue
            seen.add(n)
            stack.extend(self.succ.get(n, []))
        return False

    def _dominators(self, entry, succ, pred):
        reach = set()
        stack = [entry]
        while stack:
            n = stack.pop()
            if n in reach:
                continue
            reach.add(n)
            stack.extend(succ.get(n, []))
        dom = {n: set(reach) for n in reach}
        dom[entry] = {entry}
        changed = True
        order = [n for n in self.nodes if n in reach]
        while changed:
            changed = False
            for n in order:
                if n is entry:
                    continue
                ps = [p for p in pred.get(n, []) if p in reach]
                if not ps:
                    new = {n}
                else:
                    new = set.intersection(*[dom[p] for p in ps]) | {n}
                if new != dom[n]:
                    dom[n] = new
                    changed = True
        return dom

    @property
    def dom(self):
        if self._dom is None:
            self._dom = self._dominators(self.ENTRY, self.succ, self.pred)
        return self._dom

    @property
    def pdom(self):
        """Post-dominators with respect to the *normal* exit (paths that end in RAISE are ignored)."""
        if self._pdom is None:
            self._pdom = self._dominators(self.EXIT, self.pred, self.succ)
        return self._pdom

    def dominates(self, a, b):
        return b in self.dom and a in self.dom[b]

    def postdominates(self, a, b):
        """Every path from b to the normal exit passes through a (vacuously true if b cannot return)."""
        if b not in self.pdom:
            return True
        return a in self.pdom[b]

    def must_pass(self, start, via, end):
        """Every path start -> end passes through ``via`` (a set of nodes)."""
        via = set(via)
        if start in via or end in via:
            return True
        return not self.reaches(start, end, avoid=via) and True

    def in_loop(self, node, loop):
        """Is ``node`` inside the body of ``loop`` (syntactically)?"""
        for a in self.fn.ancestors(node):
            if a is loop:
                return True
        return False


# ---- syntactic guard (path-condition) extraction --------------------------------------------------
def block_always_exits(stmts):
    """Does every path through this statement list leave the enclosing block
    (return / raise / continue / break)?"""
    for st in stmts:
        if isinstance(st, (ast.Return, ast.Raise, ast.Continue, ast.Break)):
            return True
        if isinstance(st, ast.If) and st.orelse and block_always_exits(st.body) and block_always_exits(st.orelse):
            return True
    return False


def guards(fn, node, stop=None):
    """Conditions known to hold when ``node`` executes, as a list of (test_expr, polarity, kind).

    Sources: enclosing ``if``/``while`` tests, ternaries, comprehension filters, the short-circuit
    operands left of the node in ``and``/``or``, and *earlier sibling* early exits
    (``if c: continue|return|raise|break`` gives ``not c`` for the rest of the block).
    ``stop`` (an ancestor) limits the walk."""
    out = []
    child = node
    anc = node
    while True:
        anc = fn.parents.get(child)
        if anc is None:
            break
        if isinstance(anc, (ast.For, ast.While, ast.AsyncFor)) and _in_list(child, anc.orelse):
            # the `else:` clause of a loop runs only when no `break` of that loop was taken: every break condition was false in every iteration
            for b in _own_breaks(anc):
                bg = guards(fn, b, stop=anc)
                if len(bg) == 1:
                    out.append((bg[0][0], not bg[0][1], "loop-else"))
        if isinstance(anc, ast.If):
            if child in anc.body or _in_list(child, anc.body):
                out.append((anc.test, True, "if"))
            elif _in_list(child, anc.orelse):
                out.append((anc.test, False, "if"))
        elif isinstance(anc, ast.While):
            if _in_list(child, anc.body):
                out.append((anc.test, True, "while"))
        elif isinstance(anc, ast.IfExp):
            if child is anc.body:
                out.append((anc.test, True, "ifexp"))
            elif child is anc.orelse:
                out.append((anc.test, False, "ifexp"))
        elif isinstance(anc, ast.BoolOp):
            idx = [i for i, v in enumerate(anc.values) if v is child]
            if idx:
                for v in anc.values[: idx[0]]:
                    out.append((v, isinstance(anc.op, ast.And), "boolop"))
        elif isinstance(anc, ast.comprehension):
            pass
        elif isinstance(anc, (ast.ListComp, ast.SetComp, ast.GeneratorExp, ast.DictComp)):
            # element expression is guarded by all filters
            if child is getattr(anc, "elt", None) or child is getattr(anc, "key", None) or child is getattr(anc, "value", None):
                for g in anc.generators:
                    for c in g.ifs:
                        out.append((c, True, "compif"))
        # earlier siblings that always exit
        for fld in ("body", "orelse", "finalbody"):
            blk = getattr(anc, fld, None)
            if isinstance(blk, list) and _in_list(child, blk):
                k = _index(child, blk)
                for prev in blk[:k]:
                    if isinstance(prev, ast.If):
                        if block_always_exits(prev.body) and not block_always_exits(prev.orelse):
                            out.append((prev.test, False, "early-exit"))
                        elif prev.orelse and block_always_exits(prev.orelse) and not block_always_exits(prev.body):
                            out.append((prev.test, True, "early-exit"))
        if anc is stop or isinstance(anc, (ast.FunctionDef, ast.Lambda)):
            if anc is fn.node or anc is stop:
                break
        child = anc
    return out


def _in_list(x, lst):
    return any(x is y for y in lst)


def _own_breaks(loop):
    """break statements that leave this loop (not those of nested loops)"""
    out = []
    stack = list(loop.body)
    while stack:
        n = stack.pop()
        if isinstance(n, ast.Break):
            out.append(n)
        if isinstance(n, (ast.For, ast.While, ast.AsyncFor, ast.FunctionDef, ast.AsyncFunctionDef, ast.ClassDef, ast.Lambda)):
            continue
        stack.extend(c for c in ast.iter_child_nodes(n) if isinstance(c, (ast.stmt, ast.ExceptHandler, ast.match_case)))
    return out


def _index(x, lst):
    for i, y in enumerate(lst):
        if x is y:
            return i
    return -1
