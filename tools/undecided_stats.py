"""Which rule instances are UNDECIDED (or analysis errors) on the recorded behaviour-preserving refactorings: a work list for making rules follow more shapes."""
import glob
import os
import re
import sys
from collections import Counter
from multiprocessing import Pool

ROOT = os.path.dirname(os.path.dirname(os.path.abspath(__file__)))
sys.path.insert(0, ROOT)
from selftest import harness  # noqa: E402
from selftest.corpus import _run_patch_variant  # noqa: E402

root = os.environ.get("VERIF_REPO", "/repo")
base = harness.evaluate(root)
jobs = [(root, os.path.basename(os.path.dirname(p)) + "-" + os.path.basename(p)[9:-5], p, None)
        for p in sorted(glob.glob(os.path.join(ROOT, "refactors", "*", "refactor_*.diff")))]
with Pool(16) as pool:
    res = pool.map(_run_patch_variant, jobs)
by_rule = Counter()
by_inst = Counter()
where = {}
for vid, r in res:
    if r is None:
        continue
    new, err = harness.diff_against(base, r)
    seen = set()
    for p, text in err.items():
        for part in text.split("; "):
            part = part.strip()
            k = part[10:] if part.startswith("UNDECIDED ") else "ERR " + re.sub(r"\d+", "N", part)[:90]
            if k in seen:
                continue
            seen.add(k)
            by_inst[k] += 1
            by_rule[k.split("|")[0] if "|" in k else k[:40]] += 1
            where.setdefault(k, []).append(vid)
print("== by rule")
for k, v in by_rule.most_common(60):
    print("%4d  %s" % (v, k))
print("== by instance")
for k, v in by_inst.most_common(int(os.environ.get("TOP", "80"))):
    print("%4d  %s   %s" % (v, k, " ".join(where[k][:6])))
