"""Parse-time normalisation: fold NEW helper functions back into their callers.

The rules of this checker were confirmed by reading the functions of the reference tree.  The most common behaviour-preserving
edit - "extract a helper" - moves the constructs a rule is anchored at into a function that has no confirmed reference.  This
pass undoes that edit when it can be undone *soundly*: a function whose qualified name is not in the reference function list
(`rules/reference_shapes.json: __functions__`) and whose calls have one of the shapes below is spliced into each caller, its
locals renamed apart, its `return`s turned into assignments of the call's target (structured return elimination; a return
inside a single loop becomes `target = e; break` with the code after the loop moved into the loop's `else:`).  Everything else
(recursion, generators, *args, returns inside try/with/nested loops, calls in conditionally evaluated positions that are not a
single return expression) is left alone, and the rules then see a function without a reference (UNDECIDED, never VIOLATED).

The transformation is purely syntactic and never executes anything.  It assumes what the rest of the checker assumes: no
subclass overrides a method of the package's classes (a call `self.helper(...)` reaches the `helper` of the same class).
On the reference tree every function is known, so the pass is the identity there."""
import ast
import copy
import itertools


class Bail(Exception):
    pass


_uid = itertools.count(1)

_SIMPLE_DEFAULT = (ast.Constant,)


def _is_simple_arg(e):
    """Expressions that can be substituted for a parameter at every use: reading them has no effect and no callee can rebind them."""
    if isinstance(e, ast.Constant):
        return True
    if isinstance(e, ast.Name):
        return True
    if isinstance(e, ast.UnaryOp) and isinstance(e.op, ast.USub) and isinstance(e.operand, ast.Constant):
        return True
    return False


class _Def:
    __slots__ = ("qual", "node", "owner", "kind", "cls", "outer", "deco")

    def __init__(self, qual, node, owner, kind, cls, outer, deco):
        self.qual, self.node, self.owner, self.kind, self.cls, self.outer, self.deco = qual, node, owner, kind, cls, outer, deco


def _enumerate_defs(tree):
    out = []

    def blocks_of(st):
        for fld in ("body", "orelse", "finalbody"):
            b = getattr(st, fld, None)
            if isinstance(b, list) and b and isinstance(b[0], ast.stmt):
                yield b
        for h in getattr(st, "handlers", []) or []:
            yield h.body
        for c in getattr(st, "cases", []) or []:
            yield c.body

    def rec(body, prefix, kind, cls, outer):
        for st in body:
            if isinstance(st, ast.FunctionDef):
                deco = None
                if st.decorator_list:
                    d = st.decorator_list
                    if len(d) == 1 and isinstance(d[0], ast.Name) and d[0].id in ("staticmethod", "classmethod") and kind == "method":
                        deco = d[0].id
                    else:
                        deco = "other"
                out.append(_Def(prefix + st.name, st, body, kind, cls, outer, deco))
                rec(st.body, prefix + st.name + ".", "nested", cls, st)
            elif isinstance(st, ast.AsyncFunctionDef):
                rec(st.body, prefix + st.name + ".", "nested", cls, st)
            elif isinstance(st, ast.ClassDef):
                if kind == "module":
                    rec(st.body, prefix + st.name + ".", "method", st.name, None)
            else:
                for b in blocks_of(st):
                    rec(b, prefix, kind, cls, outer)
    rec(tree.body, "", "module", None, None)
    return out


def _bound_names(fnode):
    """Names bound anywhere inside the function (parameters, assignment / loop / with / except / import / comprehension / lambda
    targets, nested def names and their parameters)."""
    names = set()
    a = fnode.args
    for x in a.posonlyargs + a.args + a.kwonlyargs:
        names.add(x.arg)
    if a.vararg:
        names.add(a.vararg.arg)
    if a.kwarg:
        names.add(a.kwarg.arg)
    for n in ast.walk(fnode):
        if n is fnode:
            continue
        if isinstance(n, ast.Name) and isinstance(n.ctx, (ast.Store, ast.Del)):
            names.add(n.id)
        elif isinstance(n, (ast.FunctionDef, ast.AsyncFunctionDef, ast.ClassDef)):
            names.add(n.name)
            if not isinstance(n, ast.ClassDef):
                for x in n.args.posonlyargs + n.args.args + n.args.kwonlyargs:
                    names.add(x.arg)
        elif isinstance(n, ast.Lambda):
            for x in n.args.posonlyargs + n.args.args + n.args.kwonlyargs:
                names.add(x.arg)
        elif isinstance(n, ast.ExceptHandler) and n.name:
            names.add(n.name)
        elif isinstance(n, ast.alias):
            names.add((n.asname or n.name).split(".")[0])
    return names


def _all_names(fnode):
    s = set()
    for n in ast.walk(fnode):
        if isinstance(n, ast.Name):
            s.add(n.id)
        elif isinstance(n, ast.arg):
            s.add(n.arg)
    return s


def _check_def(d):
    """Raise Bail unless the definition can be spliced into a caller at all."""
    f = d.node
    if d.deco == "other":
        raise Bail("decorated")
    a = f.args
    if a.vararg or a.kwarg:
        raise Bail("*args/**kwargs")
    for dflt in list(a.defaults) + [x for x in a.kw_defaults if x is not None]:
        if not _is_simple_arg(dflt) or isinstance(dflt, ast.Name):
            if not (isinstance(dflt, ast.Tuple) and not dflt.elts):
                raise Bail("non-constant default")
    for n in ast.walk(f):
        if isinstance(n, (ast.Yield, ast.YieldFrom, ast.Await, ast.Global, ast.Nonlocal, ast.AsyncFor, ast.AsyncWith)):
            raise Bail("generator / global / nonlocal")
        if isinstance(n, ast.Name) and n.id == f.name and n is not f:
            raise Bail("recursive or self-referencing")
        if isinstance(n, ast.Attribute) and n.attr == f.name and d.kind == "method":
            raise Bail("recursive or self-referencing")
        if isinstance(n, ast.Call) and isinstance(n.func, ast.Name) and n.func.id in ("locals", "vars", "globals", "eval", "exec", "super"):
            raise Bail("introspection")
        if isinstance(n, ast.ClassDef):
            raise Bail("class inside")
    # a name bound only in an inner scope (comprehension, lambda, nested def) but also read at function level would change meaning under a uniform rename
    inner_bound = set()
    for n in ast.walk(f):
        if isinstance(n, (ast.ListComp, ast.SetComp, ast.DictComp, ast.GeneratorExp)):
            for g in n.generators:
                for t in ast.walk(g.target):
                    if isinstance(t, ast.Name):
                        inner_bound.add(t.id)
        elif isinstance(n, ast.Lambda) or (isinstance(n, ast.FunctionDef) and n is not f):
            for x in n.args.posonlyargs + n.args.args + n.args.kwonlyargs:
                inner_bound.add(x.arg)
    level_bound = set(x.arg for x in a.posonlyargs + a.args + a.kwonlyargs)

    def level(stmts):
        for st in stmts:
            for n in _own_walk(st):
                if isinstance(n, ast.Name) and isinstance(n.ctx, ast.Store):
                    level_bound.add(n.id)
                elif isinstance(n, ast.FunctionDef):
                    level_bound.add(n.name)
    level(f.body)
    for nm in inner_bound - level_bound:
        for n in _level_loads(f):
            if n.id == nm:
                raise Bail("inner-scope name %s also read at function level" % nm)


def _own_walk(node):
    """Walk without entering comprehensions, lambdas and nested defs."""
    stack = [node]
    while stack:
        n = stack.pop()
        yield n
        if isinstance(n, (ast.ListComp, ast.SetComp, ast.DictComp, ast.GeneratorExp, ast.Lambda)) and n is not node:
            continue
        if isinstance(n, (ast.FunctionDef, ast.AsyncFunctionDef)):
            continue
        stack.extend(ast.iter_child_nodes(n))


def _level_loads(f):
    for st in f.body:
        for n in _own_walk(st):
            if isinstance(n, ast.Name) and isinstance(n.ctx, ast.Load):
                yield n


def _strip_doc(body):
    if body and isinstance(body[0], ast.Expr) and isinstance(body[0].value, ast.Constant) and isinstance(body[0].value.value, str):
        return body[1:]
    return body


def _contains_return(stmts):
    for st in stmts:
        for n in _stmt_walk(st):
            if isinstance(n, ast.Return):
                return True
    return False


def _stmt_walk(st):
    """Statements nested in st (not entering nested defs)."""
    stack = [st]
    while stack:
        n = stack.pop()
        yield n
        if isinstance(n, (ast.FunctionDef, ast.AsyncFunctionDef, ast.ClassDef)):
            continue
        for c in ast.iter_child_nodes(n):
            if isinstance(c, (ast.stmt, ast.ExceptHandler, ast.match_case)):
                stack.append(c)


def _always_leaves(stmts):
    """Every path through the list ends in return / raise (conservative)."""
    for st in stmts:
        if isinstance(st, (ast.Return, ast.Raise)):
            return True
        if isinstance(st, ast.If) and st.orelse and _always_leaves(st.body) and _always_leaves(st.orelse):
            return True
    return False


class _Elim:
    """Structured return elimination.  make(e) builds the statements that stand for `return e`."""

    def __init__(self, make):
        self.make = make

    def block(self, stmts, in_loop=False):
        """-> (new statements, may fall through)"""
        out = []
        for i, st in enumerate(stmts):
            rest = stmts[i + 1:]
            if isinstance(st, ast.Return):
                out.extend(self.make(st.value, st))
                if in_loop:
                    out.append(ast.copy_location(ast.Break(), st))
                return out, False
            if isinstance(st, ast.Raise):
                out.append(st)
                return out, False
            if not _contains_return([st]):
                out.append(st)
                continue
            if isinstance(st, ast.If):
                if in_loop:
                    # inside the loop body: a return becomes assignment + break; the statements after the if stay where they are
                    b, _ = self.block(st.body, True)
                    o, _ = self.block(st.orelse, True) if st.orelse else ([], True)
                    new = ast.If(test=st.test, body=b or [ast.Pass()], orelse=o)
                    out.append(ast.copy_location(new, st))
                    continue
                body_leaves = _always_leaves(st.body)
                else_leaves = bool(st.orelse) and _always_leaves(st.orelse)
                # plain formulation: the rest of the block runs after whichever branch does not leave
                if body_leaves and else_leaves:
                    b, fb = self.block(st.body)
                    o, fo = self.block(st.orelse)
                elif body_leaves:
                    b, fb = self.block(st.body)
                    o, fo = self.block(list(st.orelse) + list(rest))
                elif else_leaves:
                    b, fb = self.block(list(st.body) + list(rest))
                    o, fo = self.block(st.orelse)
                else:
                    # both branches may continue: the rest is needed after both (duplicated)
                    b, fb = self.block(list(st.body) + list(rest))
                    o, fo = self.block(list(st.orelse) + copy.deepcopy(list(rest)))
                new = ast.If(test=st.test, body=b or [ast.Pass()], orelse=o)
                out.append(ast.copy_location(new, st))
                return out, (fb or fo)
            if isinstance(st, (ast.For, ast.While)):
                if in_loop or st.orelse:
                    raise Bail("return in nested loop / loop with else")
                for n in _stmt_walk(st):
                    if isinstance(n, ast.Break):
                        raise Bail("loop with both break and return")
                    if isinstance(n, (ast.For, ast.While, ast.Try, ast.With)) and n is not st and _contains_return([n]):
                        raise Bail("return in nested loop / try / with inside a loop")
                b, _ = self.block(st.body, True)
                r, fr = self.block(list(rest))
                new = copy.copy(st)
                new.body = b
                new.orelse = r
                out.append(new)
                return out, fr
            if isinstance(st, ast.With) and not rest and not in_loop:
                b, fb = self.block(st.body)
                new = copy.copy(st)
                new.body = b or [ast.Pass()]
                out.append(new)
                return out, fb
            raise Bail("return inside %s" % type(st).__name__)
        return out, True


def _rename_map(d, caller_names, force_unique):
    f = d.node
    bound = _bound_names(f)
    k = next(_uid)
    m = {}
    for nm in bound:
        if force_unique or nm in caller_names:
            new = "%s_inl%d" % (nm, k)
        else:
            new = nm
        m[nm] = new
    return m


class _Renamer(ast.NodeTransformer):
    def __init__(self, mapping, subst):
        self.mapping = mapping      # old local name -> new local name
        self.subst = subst          # parameter name -> expression node substituted at every load

    def visit_Name(self, n):
        if n.id in self.subst and isinstance(n.ctx, ast.Load):
            return ast.copy_location(copy.deepcopy(self.subst[n.id]), n)
        if n.id in self.mapping:
            return ast.copy_location(ast.Name(id=self.mapping[n.id], ctx=n.ctx), n)
        return n

    def visit_arg(self, n):
        if n.arg in self.mapping:
            n.arg = self.mapping[n.arg]
        return n

    def visit_FunctionDef(self, n):
        if n.name in self.mapping:
            n.name = self.mapping[n.name]
        self.generic_visit(n)
        return n

    def visit_ExceptHandler(self, n):
        if n.name and n.name in self.mapping:
            n.name = self.mapping[n.name]
        self.generic_visit(n)
        return n


def _bind(call, d, recv):
    """-> list of (param name, arg expression) in evaluation order of the call, then defaulted params."""
    f = d.node
    a = f.args
    params = [x.arg for x in a.posonlyargs + a.args]
    kwonly = [x.arg for x in a.kwonlyargs]
    bound = []
    used = set()
    if any(isinstance(x, ast.Starred) for x in call.args) or any(k.arg is None for k in call.keywords):
        raise Bail("star args at call")
    pos = list(params)
    if d.kind == "method" and d.deco != "staticmethod":
        if not pos:
            raise Bail("method without self")
        if recv is None:
            raise Bail("no receiver")
        bound.append((pos[0], recv))
        used.add(pos[0])
        pos = pos[1:]
    if len(call.args) > len(pos):
        raise Bail("too many positional args")
    for p, e in zip(pos, call.args):
        bound.append((p, e))
        used.add(p)
    for k in call.keywords:
        if k.arg in used or k.arg not in params + kwonly or k.arg in [x.arg for x in a.posonlyargs]:
            raise Bail("bad keyword")
        bound.append((k.arg, k.value))
        used.add(k.arg)
    dflt = {}
    for p, v in zip((a.posonlyargs + a.args)[len(a.posonlyargs + a.args) - len(a.defaults):], a.defaults):
        dflt[p.arg] = v
    for p, v in zip(a.kwonlyargs, a.kw_defaults):
        if v is not None:
            dflt[p.arg] = v
    for p in params + kwonly:
        if p not in used:
            if p not in dflt:
                raise Bail("missing argument")
            bound.append((p, dflt[p]))
    for _, e in bound:
        for n in ast.walk(e):
            if isinstance(n, (ast.NamedExpr, ast.Yield, ast.YieldFrom, ast.Await)):
                raise Bail("walrus / yield in argument")
    return bound


def _free_names(d):
    f = d.node
    bound = _bound_names(f)
    return {n.id for n in ast.walk(f) if isinstance(n, ast.Name) and n.id not in bound}


def _params_stored(f):
    ps = {x.arg for x in f.args.posonlyargs + f.args.args + f.args.kwonlyargs}
    out = set()
    for n in ast.walk(f):
        if isinstance(n, ast.Name) and isinstance(n.ctx, (ast.Store, ast.Del)) and n.id in ps:
            out.add(n.id)
    return out


def _instantiate(d, call, recv, caller_names, caller_bound, ret_map=None, alias_targets=()):
    """Renamed copy of the helper body with parameters bound.  -> (prologue statements, body statements)
    ret_map: helper local -> caller name it is to be called (the local that is returned into that name);
    alias_targets: caller names assigned by the call statement itself - a parameter that the helper rebinds may live in such a name
    when the argument is that very name."""
    f = d.node
    if d.kind != "nested":
        cap = _free_names(d) & caller_bound
        if cap:
            raise Bail("free name %s of the helper is a local of the caller" % sorted(cap)[0])
    force = any(isinstance(n, (ast.GeneratorExp, ast.Lambda)) or (isinstance(n, ast.FunctionDef) and n is not f) for n in ast.walk(f))
    mapping = _rename_map(d, caller_names, force)
    bound = _bind(call, d, recv)
    stored = _params_stored(f)
    for loc, tgt in (ret_map or {}).items():
        mapping[loc] = tgt
    subst = {}
    prologue = []
    for p, e in bound:
        if _is_simple_arg(e) and p not in stored:
            subst[p] = e
        elif isinstance(e, ast.Name) and e.id in alias_targets and p in stored:
            mapping[p] = e.id
        else:
            tgt = ast.Name(id=mapping[p], ctx=ast.Store())
            prologue.append(ast.copy_location(ast.Assign(targets=[tgt], value=copy.deepcopy(e), lineno=call.lineno), call))
    body = [_Renamer(mapping, subst).visit(copy.deepcopy(st)) for st in _strip_doc(f.body)]
    # nested defs inside the helper keep working: their parameters were renamed consistently
    return prologue, body


def _single_return_expr(d):
    body = _strip_doc(d.node.body)
    if len(body) == 1 and isinstance(body[0], ast.Return) and body[0].value is not None:
        return body[0].value
    return None


def _count_loads(expr, name):
    return sum(1 for n in ast.walk(expr) if isinstance(n, ast.Name) and n.id == name and isinstance(n.ctx, ast.Load))


def _in_conditional_position(expr, name):
    """Is some load of `name` in a part of expr that is evaluated conditionally or repeatedly?"""
    def rec(n, cond):
        if isinstance(n, ast.Name) and n.id == name:
            return cond
        if isinstance(n, ast.BoolOp):
            return any(rec(v, cond or i > 0) for i, v in enumerate(n.values))
        if isinstance(n, ast.IfExp):
            return rec(n.test, cond) or rec(n.body, True) or rec(n.orelse, True)
        if isinstance(n, (ast.ListComp, ast.SetComp, ast.GeneratorExp, ast.DictComp)):
            first = n.generators[0].iter
            r = rec(first, cond)
            for c in ast.iter_child_nodes(n):
                if c is n.generators[0]:
                    for cc in ast.iter_child_nodes(c):
                        if cc is not first and rec(cc, True):
                            return True
                elif rec(c, True):
                    return True
            return r
        if isinstance(n, ast.Lambda):
            return rec(n.body, True)
        return any(rec(c, cond) for c in ast.iter_child_nodes(n))
    return rec(expr, False)


def _expr_inline(d, call, recv, caller_names, caller_bound):
    """The helper is `return <expr>`: the call is replaced by the expression."""
    e = _single_return_expr(d)
    if e is None:
        raise Bail("not a single return expression")
    f = d.node
    if d.kind != "nested":
        cap = _free_names(d) & caller_bound
        if cap:
            raise Bail("free name captured")
    bound = _bind(call, d, recv)
    stored = _params_stored(f)
    subst = {}
    for p, a in bound:
        if p in stored:
            raise Bail("parameter rebound")
        if _is_simple_arg(a):
            subst[p] = a
        else:
            if _count_loads(e, p) != 1 or _in_conditional_position(e, p):
                raise Bail("argument expression used %d times / conditionally" % _count_loads(e, p))
            subst[p] = a
    nonsimple = [p for p, a in bound if not _is_simple_arg(a)]
    if len(nonsimple) > 1:
        # evaluation order of several effectful arguments must be the order of their uses
        order = [n.id for n in _eval_order(e) if isinstance(n, ast.Name) and n.id in nonsimple]
        if order != nonsimple:
            raise Bail("argument evaluation order would change")
    mapping = _rename_map(d, caller_names, True)
    for p in subst:
        mapping.pop(p, None)
    return ast.copy_location(_Renamer(mapping, subst).visit(copy.deepcopy(e)), call)


def _eval_order(e):
    yield e
    for c in ast.iter_child_nodes(e):
        yield from _eval_order(c)


def _match_call(n, cands, cls_of_caller, shadow):
    """If n is a direct call of a candidate visible here -> (def, receiver expression or None)."""
    if not isinstance(n, ast.Call):
        return None
    fnc = n.func
    if isinstance(fnc, ast.Name) and fnc.id not in shadow:
        for d in cands:
            if d.kind in ("module", "nested") and d.node.name == fnc.id:
                return d, None
    if isinstance(fnc, ast.Attribute) and isinstance(fnc.value, ast.Name) and cls_of_caller is not None:
        for d in cands:
            if d.kind == "method" and d.cls == cls_of_caller and d.node.name == fnc.attr:
                r = fnc.value.id
                if d.deco is None and r == "self":
                    return d, fnc.value
                if d.deco == "classmethod" and r in ("cls", d.cls):
                    return d, fnc.value
                if d.deco == "staticmethod" and r in ("self", "cls", d.cls):
                    return d, None
    return None


def _hoist_site(stmt):
    """Expressions of a statement that are evaluated exactly once, first, when the statement starts."""
    if isinstance(stmt, (ast.Assign, ast.AnnAssign, ast.Return, ast.Expr)):
        return stmt.value
    if isinstance(stmt, ast.AugAssign) and isinstance(stmt.target, ast.Name):
        return stmt.value
    if isinstance(stmt, ast.If):
        return stmt.test
    if isinstance(stmt, ast.For):
        return stmt.iter
    if isinstance(stmt, ast.With) and stmt.items:
        return stmt.items[0].context_expr
    return None


def _eval_children(n):
    """Child expressions in evaluation order with a flag: evaluated conditionally / repeatedly / later (not when the statement starts)."""
    if isinstance(n, ast.Call):
        out = [(n.func, False)]
        out += [(a.value if isinstance(a, ast.Starred) else a, False) for a in n.args]
        out += [(k.value, False) for k in n.keywords]
        return out
    if isinstance(n, ast.BoolOp):
        return [(v, i > 0) for i, v in enumerate(n.values)]
    if isinstance(n, ast.IfExp):
        return [(n.test, False), (n.body, True), (n.orelse, True)]
    if isinstance(n, ast.Compare):
        return [(n.left, False)] + [(c, i > 0) for i, c in enumerate(n.comparators)]
    if isinstance(n, (ast.ListComp, ast.SetComp, ast.GeneratorExp, ast.DictComp)):
        first = n.generators[0].iter
        out = [(first, isinstance(n, ast.GeneratorExp) and False)]
        for c in ast.walk(n):
            if isinstance(c, ast.expr) and c is not n and c is not first and not _is_inside(first, c):
                out.append((c, True))
        return out
    if isinstance(n, ast.Lambda):
        return [(n.body, True)]
    if isinstance(n, ast.Dict):
        out = []
        for k, v in zip(n.keys, n.values):
            if k is not None:
                out.append((k, False))
            out.append((v, False))
        return out
    out = []
    for c in ast.iter_child_nodes(n):
        if isinstance(c, ast.expr):
            out.append((c, False))
        elif isinstance(c, (ast.keyword,)):
            out.append((c.value, False))
        elif isinstance(c, ast.comprehension):
            out.append((c.iter, True))
    return out


def _trivially_pure(e):
    while isinstance(e, ast.Attribute):
        e = e.value
    return isinstance(e, (ast.Name, ast.Constant)) or (isinstance(e, ast.UnaryOp) and isinstance(e.operand, ast.Constant))


def _first_unconditional_call(root, pred):
    """A node satisfying pred that is evaluated unconditionally when the statement starts, with nothing but plain name / constant /
    attribute reads evaluated before it: it may be computed in a statement of its own just before."""
    def contains(n):
        return any(pred(x) for x in ast.walk(n))

    def find(n):
        if pred(n):
            return n
        for c, cond in _eval_children(n):
            if contains(c):
                return None if cond else find(c)
            if not _trivially_pure(c):
                return None
        return None
    return find(root)


class _Replace(ast.NodeTransformer):
    def __init__(self, old, new):
        self.old, self.new = old, new

    def visit(self, n):
        if n is self.old:
            return self.new
        return self.generic_visit(n)


def _falls_none(target_stmt_kind):
    return ast.Constant(value=None)


def _returned_locals(d, targets):
    """targets: list with the caller's target name per returned position (None where the target is not a plain name).
    -> {helper local: caller name} for the positions at which every return of the helper returns the same function-level local."""
    f = d.node
    params = {x.arg for x in f.args.posonlyargs + f.args.args + f.args.kwonlyargs}
    rets = [n for st in f.body for n in _stmt_walk(st) if isinstance(n, ast.Return)]
    if not rets:
        return {}
    single = len(targets) == 1
    per_pos = [set() for _ in targets]
    for r in rets:
        v = r.value
        if single:
            per_pos[0].add(v.id if isinstance(v, ast.Name) else None)
        elif isinstance(v, ast.Tuple) and len(v.elts) == len(targets):
            for i, x in enumerate(v.elts):
                per_pos[i].add(x.id if isinstance(x, ast.Name) else None)
        else:
            return {}
    level = set()
    for st in f.body:
        for n in _own_walk(st):
            if isinstance(n, ast.Name) and isinstance(n.ctx, ast.Store):
                level.add(n.id)
    out = {}
    for tn, names in zip(targets, per_pos):
        if tn is None or len(names) != 1:
            continue
        nm = next(iter(names))
        if nm is None or nm in params or nm not in level or nm in out:
            continue
        out[nm] = tn
    # a local returned at two positions, or a target name used twice, cannot be renamed consistently
    if len(set(out.values())) != len(out):
        return {}
    all_returned = [x.id for r in rets for x in ([r.value] if single else getattr(r.value, "elts", [])) if isinstance(x, ast.Name)]
    for nm in list(out):
        if single:
            continue
        # the same local at another position of the tuple would alias two targets
        if any(sum(1 for x in getattr(r.value, "elts", []) if isinstance(x, ast.Name) and x.id == nm) > 1 for r in rets):
            del out[nm]
    return out


def _inline_stmt(stmt, cands, cls_of_caller, shadow, caller_names, caller_bound, stats, in_try=False):
    """-> list of statements replacing stmt (or None if nothing was inlined at statement level)."""
    site = _hoist_site(stmt)
    if site is None:
        return None
    direct = _match_call(site, cands, cls_of_caller, shadow)
    pre = []
    work = stmt
    if direct is None:
        # a candidate call somewhere inside the expression, evaluated unconditionally and first: hoist it into a temporary
        call = _first_unconditional_call(site, lambda n: _match_call(n, cands, cls_of_caller, shadow) is not None)
        if call is None:
            return None
        d, recv = _match_call(call, cands, cls_of_caller, shadow)
        if _single_return_expr(d) is not None:
            return None  # expression-level substitution handles it better
        tmp = "%s_result_inl%d" % (d.node.name.strip("_"), next(_uid))
        hoisted = ast.copy_location(ast.Assign(targets=[ast.Name(id=tmp, ctx=ast.Store())], value=call, lineno=stmt.lineno), stmt)
        out = _inline_stmt(hoisted, cands, cls_of_caller, shadow, caller_names, caller_bound, stats, in_try)
        if out is None:
            return None
        new_stmt = _Replace(call, ast.copy_location(ast.Name(id=tmp, ctx=ast.Load()), call)).visit(stmt)
        return out + [new_stmt]
    d, recv = direct
    call = site
    ret_map, alias_targets = {}, ()
    tnames = None
    if isinstance(stmt, ast.Assign) and len(stmt.targets) == 1:
        t0 = stmt.targets[0]
        if isinstance(t0, ast.Name):
            tnames = [t0.id]
        elif isinstance(t0, (ast.Tuple, ast.List)) and all(isinstance(x, ast.Name) for x in t0.elts) and len({x.id for x in t0.elts}) == len(t0.elts):
            tnames = [x.id for x in t0.elts]
    if tnames and not in_try:
        alias_targets = tuple(tnames)
    if isinstance(stmt, ast.Assign) and len(stmt.targets) == 1:
        t0 = stmt.targets[0]
        if isinstance(t0, ast.Name):
            ret_map = _returned_locals(d, [t0.id])
        elif isinstance(t0, (ast.Tuple, ast.List)) and not any(isinstance(x, ast.Starred) for x in t0.elts):
            tl = [x.id if isinstance(x, ast.Name) else None for x in t0.elts]
            if len([x for x in tl if x]) == len({x for x in tl if x}):
                ret_map = _returned_locals(d, tl)
    prologue, body = _instantiate(d, call, recv, caller_names, caller_bound, ret_map, alias_targets)
    if ret_map:
        # the renamed locals now live in the caller's target names: those names must not be read by the body as the caller's own values
        args_read = {n.id for _, e in _bind(call, d, recv) for n in ast.walk(e) if isinstance(n, ast.Name)}
        free = _free_names(d)
        if set(ret_map.values()) & (args_read | free):
            ret_map = {}
            prologue, body = _instantiate(d, call, recv, caller_names, caller_bound, None, alias_targets)
    if isinstance(stmt, ast.Return):
        # tail call: the helper's returns are the caller's returns
        out = prologue + body
        if not _always_leaves(body):
            out.append(ast.copy_location(ast.Return(value=ast.Constant(value=None)), stmt))
    elif isinstance(stmt, ast.Expr):
        def make(e, at):
            if e is None or isinstance(e, (ast.Constant, ast.Name)):
                return []
            return [ast.copy_location(ast.Expr(value=e), at)]
        b, _ = _Elim(make).block(body)
        out = prologue + (b or [ast.copy_location(ast.Pass(), stmt)])
    elif isinstance(stmt, (ast.Assign, ast.AnnAssign, ast.AugAssign)):
        def make(e, at):
            if tnames and len(tnames) == 1 and isinstance(e, ast.Name) and e.id == tnames[0]:
                return []   # the returned local already is the target
            telts = None
            if isinstance(stmt, ast.Assign) and len(stmt.targets) == 1 and isinstance(stmt.targets[0], (ast.Tuple, ast.List)):
                telts = stmt.targets[0].elts
            if telts and isinstance(e, ast.Tuple) and len(e.elts) == len(telts) and not any(isinstance(x, ast.Starred) for x in list(e.elts) + list(telts)):
                # parallel assignment of a literal tuple: sequential assignments when no element reads an earlier target and nothing but plain
                # names / constants is evaluated after a store into an attribute or subscript
                ok = True
                earlier_names, after_complex = set(), False
                for tg, x in zip(telts, e.elts):
                    reads = {n.id for n in ast.walk(x) if isinstance(n, ast.Name)}
                    if reads & earlier_names:
                        ok = False
                    if after_complex and not isinstance(x, (ast.Name, ast.Constant)):
                        ok = False
                    if isinstance(tg, ast.Name):
                        earlier_names.add(tg.id)
                    elif isinstance(tg, (ast.Attribute, ast.Subscript)):
                        after_complex = True
                        earlier_names |= {n.id for n in ast.walk(tg) if isinstance(n, ast.Name)}
                    else:
                        ok = False
                if ok:
                    outl = []
                    for tg, x in zip(telts, e.elts):
                        if isinstance(x, ast.Name) and isinstance(tg, ast.Name) and x.id == tg.id:
                            continue
                        outl.append(ast.copy_location(ast.Assign(targets=[copy.deepcopy(tg)], value=x, lineno=at.lineno), at))
                    return outl
            s = copy.copy(stmt)
            if isinstance(s, ast.Assign):
                s.targets = copy.deepcopy(stmt.targets)
            else:
                s.target = copy.deepcopy(stmt.target)
            s.value = e if e is not None else ast.Constant(value=None)
            return [ast.copy_location(s, at)]
        if isinstance(stmt, ast.AnnAssign) and stmt.value is None:
            return None
        b, falls = _Elim(make).block(body)
        if falls:
            b = b + make(None, stmt)
        out = prologue + b
    else:
        return None
    if stats is not None:
        stats.append((d.qual, "stmt", getattr(stmt, "lineno", 0)))
    return out


def _inline_exprs(stmt, cands, cls_of_caller, shadow, caller_names, caller_bound, stats):
    """Replace calls of single-return-expression helpers anywhere in the statement's own expressions."""
    changed = [False]

    class T(ast.NodeTransformer):
        def visit_FunctionDef(self, n):
            return n

        visit_AsyncFunctionDef = visit_FunctionDef
        visit_ClassDef = visit_FunctionDef

        def visit_Call(self, n):
            self.generic_visit(n)
            m = _match_call(n, cands, cls_of_caller, shadow)
            if m is None:
                return n
            d, recv = m
            try:
                new = _expr_inline(d, n, recv, caller_names, caller_bound)
            except Bail:
                return n
            changed[0] = True
            if stats is not None:
                stats.append((d.qual, "expr", getattr(n, "lineno", 0)))
            return new

    # only the statement's own expressions (child statements are handled by the block walk)
    for fld, val in ast.iter_fields(stmt):
        if isinstance(val, ast.expr):
            setattr(stmt, fld, T().visit(val))
        elif isinstance(val, list):
            for i, x in enumerate(val):
                if isinstance(x, ast.expr):
                    val[i] = T().visit(x)
                elif isinstance(x, (ast.withitem, ast.keyword, ast.comprehension)):
                    T().generic_visit(x)
    return changed[0]


def _process_function(fnode, cands, cls_of_caller, stats):
    """Inline candidate calls inside one caller function (not inside its nested defs: they are callers of their own)."""
    visible = [d for d in cands if d.node is not fnode and not _is_inside(fnode, d.node) or d.kind == "nested"]
    visible = [d for d in visible if d.node is not fnode]
    if not visible:
        return False
    caller_bound = _bound_names(fnode)
    shadow = {nm for nm in caller_bound if any(d.node.name == nm and d.kind == "module" for d in visible)}
    # a nested candidate is visible only inside the function that defines it
    visible = [d for d in visible if d.kind != "nested" or (d.outer is fnode or _is_inside(d.outer, fnode))]
    if not visible:
        return False
    caller_names = _all_names(fnode)
    changed = [False]

    def do_block(stmts, in_try=False):
        i = 0
        while i < len(stmts):
            st = stmts[i]
            if isinstance(st, (ast.FunctionDef, ast.AsyncFunctionDef, ast.ClassDef)):
                i += 1
                continue
            try:
                rep = _inline_stmt(st, visible, cls_of_caller, shadow, caller_names, caller_bound, stats, in_try)
            except Bail:
                rep = None
            if rep is not None:
                stmts[i:i + 1] = rep
                changed[0] = True
                for r in rep:
                    for n in ast.walk(r):
                        if isinstance(n, ast.Name):
                            caller_names.add(n.id)
                            if isinstance(n.ctx, ast.Store):
                                caller_bound.add(n.id)
                # the replacement may itself contain further candidate calls: re-examine from the same index
                continue
            if _inline_exprs(st, visible, cls_of_caller, shadow, caller_names, caller_bound, stats):
                changed[0] = True
            for fld in ("body", "orelse", "finalbody"):
                b = getattr(st, fld, None)
                if isinstance(b, list) and b and isinstance(b[0], ast.stmt):
                    do_block(b, in_try or isinstance(st, (ast.Try, ast.With)))
            for h in getattr(st, "handlers", []) or []:
                do_block(h.body, True)
            for c in getattr(st, "cases", []) or []:
                do_block(c.body, in_try)
            i += 1

    do_block(fnode.body)
    return changed[0]


def _is_inside(outer, inner):
    if outer is None:
        return False
    for n in ast.walk(outer):
        if n is inner and n is not outer:
            return True
    return False


def _references(tree, d):
    """Remaining references to the helper's name outside its own definition."""
    nm = d.node.name
    for n in ast.walk(tree):
        if n is d.node:
            continue
        if isinstance(n, ast.Name) and n.id == nm and not _is_inside(d.node, n):
            return True
        if isinstance(n, ast.Attribute) and n.attr == nm and not _is_inside(d.node, n):
            return True
        if isinstance(n, ast.Constant) and isinstance(n.value, str) and n.value == nm:
            return True   # __all__, getattr(...)
    return False


def _renest_promoted(tree, known, keep_names, stats):
    """A nested helper of the reference tree (`Outer.helper`) that was promoted to a module-level function or a method (`_helper`, called only from
    Outer) is moved back into Outer under its old name: the anchor `Outer.helper` exists again.  Moving a definition that closes over nothing into the
    only function that calls it changes no behaviour (its free names must not be locals of Outer)."""
    defs = _enumerate_defs(tree)
    present = {d.qual for d in defs}
    by_qual = {d.qual: d for d in defs}
    changed = False
    for d in defs:
        if d.qual in known or d.kind not in ("module", "method") or d.deco not in (None, "staticmethod") or d.node.name in keep_names:
            continue
        base = d.node.name.lstrip("_")
        targets = [q for q in known if q not in present and q.rsplit(".", 1)[-1] in (base, d.node.name) and "." in q and q.rsplit(".", 1)[0] in by_qual]
        if len(targets) != 1:
            continue
        outer = by_qual[targets[0].rsplit(".", 1)[0]]
        if d.kind == "method" and outer.cls != d.cls:
            continue
        try:
            _check_def(d)
        except Bail:
            continue
        nm = d.node.name
        # every reference to the promoted helper must be a direct call inside Outer
        refs_ok = True
        calls = []
        for n in ast.walk(tree):
            if _is_inside(d.node, n) or n is d.node:
                continue
            hit = (isinstance(n, ast.Name) and n.id == nm) or (isinstance(n, ast.Attribute) and n.attr == nm) or \
                (isinstance(n, ast.Constant) and n.value == nm)
            if hit and not _is_inside(outer.node, n):
                refs_ok = False
        for n in ast.walk(outer.node):
            if isinstance(n, ast.Call):
                f = n.func
                if d.kind == "module" and isinstance(f, ast.Name) and f.id == nm:
                    calls.append(n)
                elif d.kind == "method" and isinstance(f, ast.Attribute) and f.attr == nm and isinstance(f.value, ast.Name) and f.value.id in ("self", "cls", d.cls):
                    calls.append(n)
        call_funcs = {id(c.func) for c in calls}
        for n in ast.walk(outer.node):
            if ((isinstance(n, ast.Name) and n.id == nm) or (isinstance(n, ast.Attribute) and n.attr == nm)) and id(n) not in call_funcs:
                refs_ok = False
        if not refs_ok or not calls:
            continue
        if _free_names(d) & _bound_names(outer.node):
            continue
        new_name = targets[0].rsplit(".", 1)[-1]
        if new_name in _all_names(outer.node) and new_name != nm:
            continue
        # move
        d.owner.remove(d.node)
        if not d.owner:
            d.owner.append(ast.Pass())
        d.node.name = new_name
        d.node.decorator_list = []
        for c in calls:
            if d.kind == "method" and d.deco is None:
                c.args.insert(0, c.func.value)
            c.func = ast.copy_location(ast.Name(id=new_name, ctx=ast.Load()), c.func)
        body = outer.node.body
        at = 1 if body and isinstance(body[0], ast.Expr) and isinstance(body[0].value, ast.Constant) and isinstance(body[0].value.value, str) else 0
        body.insert(at, d.node)
        changed = True
        if stats is not None:
            stats.append((d.qual, "renested as " + targets[0], d.node.lineno))
    return changed


def inline_new_helpers(tree, known, keep_names=frozenset(), stats=None):
    """known: set of qualified function names of the reference tree (None: pass disabled)."""
    if known is None:
        return tree
    _renest_promoted(tree, known, keep_names, stats)
    for _round in range(4):
        defs = _enumerate_defs(tree)
        cands = []
        for d in defs:
            if d.qual in known:
                continue
            # a NEW function nested in / method of anything; but a nested def of a KNOWN function that merely is not in the list is new too
            try:
                _check_def(d)
            except Bail:
                continue
            cands.append(d)
        if not cands:
            break
        # leaf-first: helpers that call other candidates wait for the next round
        names = {d.node.name for d in cands}

        def calls_candidate(d):
            for n in ast.walk(d.node):
                if isinstance(n, ast.Call):
                    f = n.func
                    if isinstance(f, ast.Name) and f.id in names and f.id != d.node.name:
                        return True
                    if isinstance(f, ast.Attribute) and f.attr in names and f.attr != d.node.name:
                        return True
            return False
        leaf = [d for d in cands if not calls_candidate(d)]
        changed = False
        for work in ([leaf, cands] if leaf and len(leaf) < len(cands) else [cands]):
            for d in defs:
                if _process_function(d.node, [c for c in work if c.node is not d.node], d.cls, stats):
                    changed = True
            if changed:
                break
        # drop helper definitions that nothing refers to any more
        for d in work:
            if d.node.name in keep_names:
                continue
            if d.node in d.owner and not _references(tree, d):
                d.owner.remove(d.node)
                if not d.owner:
                    d.owner.append(ast.Pass())
                changed = True
                if stats is not None:
                    stats.append((d.qual, "removed", d.node.lineno))
        if not changed:
            break
    ast.fix_missing_locations(tree)
    return tree
