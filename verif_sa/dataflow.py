"""Reaching definitions over the statement CFG, alias expansion and an AST normal form."""
import ast
import copy

from .core import AnalysisError

PARAM = "<param>"


def _target_names(t, out):
    if isinstance(t, ast.Name):
        out.append(t.id)
    elif isinstance(t, (ast.Tuple, ast.List)):
        for e in t.elts:
            _target_names(e, out)
    elif isinstance(t, ast.Starred):
        _target_names(t.value, out)


def stmt_defs(st):
    """Local names (re)bound by the *header* of statement ``st``."""
    out = []
    if isinstance(st, ast.Assign):
        for t in st.targets:
            _target_names(t, out)
    elif isinstance(st, (ast.AugAssign, ast.AnnAssign)):
        _target_names(st.target, out)
    elif isinstance(st, (ast.For, ast.AsyncFor)):
        _target_names(st.target, out)
    elif isinstance(st, (ast.With, ast.AsyncWith)):
        for it in st.items:
            if it.optional_vars is not None:
                _target_names(it.optional_vars, out)
    elif isinstance(st, (ast.FunctionDef, ast.AsyncFunctionDef, ast.ClassDef)):
        out.append(st.name)
    elif isinstance(st, (ast.Import, ast.ImportFrom)):
        for a in st.names:
            out.append((a.asname or a.name).split(".")[0])
    # walrus
    hdr = header_exprs(st)
    for e in hdr:
        for n in ast.walk(e):
            if isinstance(n, ast.NamedExpr) and isinstance(n.target, ast.Name):
                out.append(n.target.id)
    return out


def header_exprs(st):
    """Expressions evaluated by the CFG node ``st`` itself (not its nested blocks)."""
    if isinstance(st, ast.If) or isinstance(st, ast.While):
        return [st.test]
    if isinstance(st, (ast.For, ast.AsyncFor)):
        return [st.iter]
    if isinstance(st, (ast.With, ast.AsyncWith)):
        return [it.context_expr for it in st.items]
    if isinstance(st, (ast.FunctionDef, ast.AsyncFunctionDef, ast.ClassDef)):
        return list(st.decorator_list)
    if isinstance(st, ast.Try):
        return []
    if isinstance(st, ast.stmt):
        return [c for c in ast.iter_child_nodes(st) if isinstance(c, ast.expr)]
    return []


class ReachingDefs:
    """IN[node][name] = set of defining statements (or PARAM) that may reach the node."""

    def __init__(self, fn):
        self.fn = fn
        cfg = fn.cfg
        self.cfg = cfg
        gen = {}
        for n in cfg.nodes:
            if isinstance(n, ast.stmt):
                gen[n] = set(stmt_defs(n))
            else:
                gen[n] = set()
        self.gen = gen
        IN = {n: {} for n in cfg.nodes}
        OUT = {n: {} for n in cfg.nodes}
        entry_out = {p: {PARAM} for p in fn.params}
        a = fn.node.args
        if a.vararg:
            entry_out[a.vararg.arg] = {PARAM}
        if a.kwarg:
            entry_out[a.kwarg.arg] = {PARAM}
        OUT[cfg.ENTRY] = entry_out
        work = list(cfg.nodes)
        inwork = set(work)
        while work:
            n = work.pop(0)
            inwork.discard(n)
            if n is cfg.ENTRY:
                new_out = entry_out
                new_in = {}
            else:
                new_in = {}
                for p in cfg.pred[n]:
                    for k, v in OUT[p].items():
                        if k in new_in:
                            new_in[k] = new_in[k] | v
                        else:
                            new_in[k] = set(v)
                new_out = dict(new_in)
                for name in gen[n]:
                    new_out[name] = {n}
            IN[n] = new_in
            if new_out != OUT[n]:
                OUT[n] = new_out
                for s in cfg.succ[n]:
                    if s not in inwork:
                        work.append(s)
                        inwork.add(s)
        self.IN = IN
        self.OUT = OUT

    def defs_at(self, stmt, name):
        """Definitions of ``name`` reaching the evaluation of ``stmt``'s header."""
        if stmt not in self.IN:
            return set()
        return self.IN[stmt].get(name, set())

    def node_stmt(self, node):
        """CFG node in which expression ``node`` is evaluated."""
        st = self.fn.stmt_of(node)
        return st

    def defs_of_use(self, name_node):
        st = self.fn.stmt_of(name_node)
        # a use inside a nested block header is evaluated at that header; a use inside a compound
        # statement's *body* has its own stmt.  stmt_of already returns the innermost statement.
        return self.defs_at(st, name_node.id)

    def unique_value(self, name_node):
        """If the use has exactly one reaching definition of the form ``name = <expr>`` (possibly via
        tuple unpacking of a literal tuple), return (def_stmt, expr); else None."""
        ds = self.defs_of_use(name_node)
        if len(ds) != 1:
            return None
        d = next(iter(ds))
        if d == PARAM or not isinstance(d, ast.Assign):
            return None
        return _assigned_value(d, name_node.id)


def _assigned_value(assign, name):
    for t in assign.targets:
        if isinstance(t, ast.Name) and t.id == name:
            return assign, assign.value
        if isinstance(t, (ast.Tuple, ast.List)) and isinstance(assign.value, (ast.Tuple, ast.List)) \
                and len(t.elts) == len(assign.value.elts):
            for te, ve in zip(t.elts, assign.value.elts):
                if isinstance(te, ast.Name) and te.id == name and not isinstance(ve, ast.Starred):
                    return assign, ve
    return None


def all_values(fn, name_node):
    """Value expressions of ALL definitions reaching a use of a local name, if every one of them is a simple
    assignment `name = <expr>`; else None."""
    ds = fn.rd.defs_of_use(name_node)
    if not ds:
        return None
    out = []
    for d in ds:
        if d == PARAM or not isinstance(d, ast.Assign):
            return None
        av = _assigned_value(d, name_node.id)
        if av is None:
            return None
        out.append(av[1])
    return out


def expand(fn, expr, depth=6, stop_names=()):
    """Copy of ``expr`` in which local aliases with a unique reaching definition are replaced by
    their defining expression (recursively).  Used to make structural rules insensitive to
    temporaries.  Parameters and multiply-defined names are left alone."""
    rd = fn.rd
    mutated = mutated_names(fn)

    def rec(e, d):
        if isinstance(e, ast.Name) and isinstance(e.ctx, ast.Load) and d > 0 and e.id not in stop_names \
                and e.id not in mutated:
            if fn.stmt_of(e) is None:
                return e
            uv = rd.unique_value(e)
            if uv is not None:
                dstmt, val = uv
                if not _mentions(val, e.id) and not _attr_rebound_between(fn, dstmt, fn.stmt_of(e), val):
                    return rec(val, d - 1)
            return e
        if not isinstance(e, ast.AST):
            return e
        if isinstance(e, (ast.Lambda, ast.ListComp, ast.SetComp, ast.DictComp, ast.GeneratorExp)):
            # do not substitute bound variables
            bound = set()
            for n in ast.walk(e):
                if isinstance(n, ast.comprehension):
                    tmp = []
                    _target_names(n.target, tmp)
                    bound |= set(tmp)
                elif isinstance(n, ast.Lambda):
                    bound |= {a.arg for a in n.args.args}
            new = copy.copy(e)
            for f, v in ast.iter_fields(e):
                setattr(new, f, _map(v, lambda x: rec_b(x, d, bound)))
            return new
        new = copy.copy(e)
        for f, v in ast.iter_fields(e):
            setattr(new, f, _map(v, lambda x: rec(x, d)))
        return new

    def rec_b(e, d, bound):
        if isinstance(e, ast.Name) and e.id in bound:
            return e
        if isinstance(e, ast.Name):
            return rec(e, d)
        if not isinstance(e, ast.AST):
            return e
        new = copy.copy(e)
        for f, v in ast.iter_fields(e):
            setattr(new, f, _map(v, lambda x: rec_b(x, d, bound)))
        return new

    return rec(expr, depth)


def _attr_rebound_between(fn, dstmt, use_stmt, val):
    """`t = <val reading obj.attr>` ... use of t: is obj.attr re-bound on some path from the definition to the use (a direct store, or a method of
    the same class that stores it)?  Then the local is a STALE copy and must not be read as its defining expression."""
    if use_stmt is None or dstmt is use_stmt:
        return False
    # a LOCAL the value reads must still have, at the use, the definitions it had where the copy was made: otherwise the copy is stale
    if stale_names(fn, dstmt, use_stmt, val):
        return True
    reads = {(n.value.id, n.attr) for n in ast.walk(val) if isinstance(n, ast.Attribute) and isinstance(n.value, ast.Name)}
    if not reads:
        return False
    key = (id(dstmt), id(use_stmt), tuple(sorted(reads)))
    cache = fn.__dict__.setdefault("_rebound_cache", {})
    if key in cache:
        return cache[key]
    cfg = fn.cfg
    # statements on a path d -> x -> use that does not pass through d again
    fwd, stack = set(), list(cfg.succ.get(dstmt, []))
    while stack:
        n = stack.pop()
        if n in fwd or n is dstmt:
            continue
        fwd.add(n)
        stack.extend(cfg.succ.get(n, []))
    bwd, stack = set(), list(cfg.pred.get(use_stmt, []))
    while stack:
        n = stack.pop()
        if n in bwd or n is dstmt:
            continue
        bwd.add(n)
        stack.extend(cfg.pred.get(n, []))
    res = False
    for x in fwd & bwd:
        if not isinstance(x, ast.stmt):
            continue
        parts = header_exprs(x) if isinstance(x, (ast.If, ast.For, ast.While, ast.With, ast.Try)) else [x]
        for part in parts:
            for n in ast.walk(part):
                if isinstance(n, (ast.Assign, ast.AugAssign, ast.AnnAssign)):
                    for t in (n.targets if isinstance(n, ast.Assign) else [n.target]):
                        for y in ast.walk(t):
                            if isinstance(y, ast.Attribute) and isinstance(y.value, ast.Name) and (y.value.id, y.attr) in reads and isinstance(y.ctx, ast.Store):
                                res = True
                if isinstance(n, ast.Call) and isinstance(n.func, ast.Attribute) and isinstance(n.func.value, ast.Name) and n.func.value.id == "self" \
                        and getattr(fn, "cls", None) and any(o == "self" for o, _a in reads):
                    callee = fn.repo.maybe_fn("%s.%s" % (fn.cls, n.func.attr)) if hasattr(fn.repo, "maybe_fn") else None
                    if callee is not None and callee is not fn and _method_stores_attr(callee, {a for o, a in reads if o == "self"}):
                        res = True
    cache[key] = res
    return res


def stale_names(fn, dstmt, use_stmt, val):
    """Locals read by val whose reaching definitions at use_stmt differ from those at dstmt (re-assigned in between on some path)."""
    out = []
    bound = set()
    for n in ast.walk(val):
        if isinstance(n, ast.comprehension):
            tmp = []
            _target_names(n.target, tmp)
            bound |= set(tmp)
        elif isinstance(n, ast.Lambda):
            bound |= {a.arg for a in n.args.args}
    for n in ast.walk(val):
        if isinstance(n, ast.Name) and isinstance(n.ctx, ast.Load) and n.id not in bound:
            try:
                d1 = fn.rd.defs_at(dstmt, n.id)
                d2 = fn.rd.defs_at(use_stmt, n.id)
            except Exception:
                continue
            if d1 and d2 and set(d1) != set(d2) and n.id not in out:
                out.append(n.id)
    return out


def _method_stores_attr(callee, attrs, depth=2):
    for n in ast.walk(callee.node):
        if isinstance(n, ast.Attribute) and isinstance(n.ctx, ast.Store) and isinstance(n.value, ast.Name) and n.value.id == "self" and n.attr in attrs:
            return True
        if depth > 0 and isinstance(n, ast.Call) and isinstance(n.func, ast.Attribute) and isinstance(n.func.value, ast.Name) and n.func.value.id == "self":
            c2 = callee.repo.maybe_fn("%s.%s" % (callee.cls, n.func.attr)) if callee.cls else None
            if c2 is not None and c2 is not callee and _method_stores_attr(c2, attrs, depth - 1):
                return True
    return False


_MUTATORS = {"append", "extend", "insert", "remove", "pop", "clear", "sort", "reverse", "update", "add", "discard",
             "fill", "put", "resize", "setdefault", "popitem", "translate", "extend_types"}


def mutated_names(fn):
    """Local names whose object is mutated somewhere in the function (method mutators, in-place operators,
    stores through the name).  Such names are never replaced by their defining expression."""
    cached = getattr(fn, "_mutated_names", None)
    if cached is not None:
        return cached
    out = set()
    for n in fn.all_nodes():
        if isinstance(n, ast.Call) and isinstance(n.func, ast.Attribute) and n.func.attr in _MUTATORS \
                and isinstance(n.func.value, ast.Name):
            out.add(n.func.value.id)
        elif isinstance(n, ast.AugAssign):
            t = n.target
            while isinstance(t, (ast.Attribute, ast.Subscript)):
                t = t.value
            if isinstance(t, ast.Name):
                out.add(t.id)
        elif isinstance(n, (ast.Assign, ast.Delete)):
            for t in n.targets:
                for x in ast.walk(t):
                    if isinstance(x, (ast.Attribute, ast.Subscript)) and isinstance(x.ctx, (ast.Store, ast.Del)):
                        b = x.value
                        while isinstance(b, (ast.Attribute, ast.Subscript)):
                            b = b.value
                        if isinstance(b, ast.Name):
                            out.add(b.id)
    fn._mutated_names = out
    return out


def _map(v, f):
    if isinstance(v, list):
        return [f(x) if isinstance(x, ast.AST) else x for x in v]
    if isinstance(v, ast.AST):
        return f(v)
    return v


def _mentions(expr, name):
    return any(isinstance(n, ast.Name) and n.id == name for n in ast.walk(expr))


# ---- normal form ------------------------------------------------------------------------------------
_COMM_BIN = (ast.Add, ast.Mult, ast.BitAnd, ast.BitOr, ast.BitXor)
_FLIP = {ast.Gt: ast.Lt, ast.GtE: ast.LtE}


def nf(e):
    """Normal form of an expression as a nested tuple: commutative operators flattened and sorted,
    ``a > b`` rewritten to ``b < a``, set literals sorted, ``not (a == b)`` left alone.
    Two expressions with equal normal forms are syntactically equal up to these laws."""
    if e is None:
        return None
    if isinstance(e, ast.Constant):
        v = e.value
        if isinstance(v, float) and v == int(v) and abs(v) < 1e15:
            v = int(v)
        return ("c", repr(v))
    if isinstance(e, ast.Name):
        return ("n", e.id)
    if isinstance(e, ast.Attribute):
        return ("a", nf(e.value), e.attr)
    if isinstance(e, ast.BinOp):
        if isinstance(e.op, _COMM_BIN):
            op = type(e.op).__name__
            parts = []

            def flat(x):
                if isinstance(x, ast.BinOp) and type(x.op) is type(e.op):
                    flat(x.left)
                    flat(x.right)
                else:
                    parts.append(nf(x))
            flat(e)
            return (op,) + tuple(sorted(parts, key=repr))
        return (type(e.op).__name__, nf(e.left), nf(e.right))
    if isinstance(e, ast.UnaryOp):
        if isinstance(e.op, ast.USub) and isinstance(e.operand, ast.Constant) and isinstance(e.operand.value, (int, float)):
            return nf(ast.Constant(-e.operand.value))
        return (type(e.op).__name__, nf(e.operand))
    if isinstance(e, ast.BoolOp):
        op = type(e.op).__name__
        parts = []

        def flatb(x):
            if isinstance(x, ast.BoolOp) and type(x.op) is type(e.op):
                for v in x.values:
                    flatb(v)
            else:
                parts.append(nf(x))
        flatb(e)
        return (op,) + tuple(sorted(parts, key=repr))
    if isinstance(e, ast.Compare):
        # split chains into conjunction of binary comparisons
        items = []
        left = e.left
        for op, right in zip(e.ops, e.comparators):
            l, r, o = left, right, type(op)
            if o in _FLIP:
                l, r, o = r, l, _FLIP[o]
            a, b = nf(l), nf(r)
            if o in (ast.Eq, ast.NotEq):
                a, b = sorted([a, b], key=repr)
            items.append((o.__name__, a, b))
            left = right
        if len(items) == 1:
            return items[0]
        return ("And",) + tuple(sorted(items, key=repr))
    if isinstance(e, ast.Call):
        kws = tuple(sorted(((k.arg or "**"), nf(k.value)) for k in e.keywords))
        return ("call", nf(e.func), tuple(nf(a) for a in e.args), kws)
    if isinstance(e, ast.Subscript):
        return ("sub", nf(e.value), nf(e.slice))
    if isinstance(e, ast.Slice):
        return ("slice", nf(e.lower), nf(e.upper), nf(e.step))
    if isinstance(e, (ast.Tuple, ast.List)):
        return ("seq",) + tuple(nf(x) for x in e.elts)
    if isinstance(e, ast.Set):
        return ("set",) + tuple(sorted((nf(x) for x in e.elts), key=repr))
    if isinstance(e, ast.Starred):
        return ("star", nf(e.value))
    if isinstance(e, ast.IfExp):
        return ("ifexp", nf(e.test), nf(e.body), nf(e.orelse))
    if isinstance(e, ast.Dict):
        return ("dict",) + tuple(sorted(((nf(k), nf(v)) for k, v in zip(e.keys, e.values)), key=repr))
    if isinstance(e, ast.AST):
        return ("raw", ast.dump(e))
    return ("v", repr(e))


def same(a, b):
    return nf(a) == nf(b)


def nf_expanded(fn, e, depth=6):
    return nf(expand(fn, e, depth))


def contains_nf(hay, needle_nf):
    """Does the normal form ``hay`` contain ``needle_nf`` as a sub-term?"""
    if hay == needle_nf:
        return True
    if isinstance(hay, tuple):
        return any(contains_nf(x, needle_nf) for x in hay)
    return False
