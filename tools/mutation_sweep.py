"""Development tool (not a check): systematic one-node mutation sweep over mofun/*.py.

For every generated mutant: (1) analyse it with the rules of all 20 properties (static, nothing executed); (2) for mutants
that no property reports, run the pinned test suite in a scratch copy to see whether the mutant is test-passing.  The
output (/tmp/ms/sweep.json by default) lists the *survivors* - mutants that pass the tests and are not reported by any
check - for manual triage into: equivalent / outside every property / a miss of the checks.

Usage: /venv/bin/python tools/mutation_sweep.py [--files a.py,b.py] [--out path] [--jobs 16] [--no-tests]
"""
import ast
import copy
import json
import os
import shutil
import subprocess
import sys
import tempfile
import time
from multiprocessing import Pool

ROOT = os.path.dirname(os.path.dirname(os.path.abspath(__file__)))
sys.path.insert(0, ROOT)

REPO = os.environ.get("VERIF_REPO", "/repo")
OPS2 = bool(os.environ.get("SWEEP_OPS2"))
DEFAULT_FILES = ["mofun/atoms.py", "mofun/mofun.py", "mofun/helpers.py", "mofun/detect_bonds.py", "mofun/rough_uff.py",
                 "mofun/cli/mofun_cli.py"]

CMP_SWAP = {ast.Lt: [ast.LtE, ast.Gt], ast.LtE: [ast.Lt, ast.GtE], ast.Gt: [ast.GtE, ast.Lt], ast.GtE: [ast.Gt, ast.LtE],
            ast.Eq: [ast.NotEq], ast.NotEq: [ast.Eq], ast.Is: [ast.IsNot], ast.IsNot: [ast.Is], ast.In: [ast.NotIn], ast.NotIn: [ast.In]}
BIN_SWAP = {ast.Add: [ast.Sub], ast.Sub: [ast.Add], ast.Mult: [ast.Div], ast.Div: [ast.Mult], ast.FloorDiv: [ast.Div],
            ast.Mod: [ast.FloorDiv], ast.MatMult: [], ast.Pow: [ast.Mult]}


def enclosing_functions(tree):
    m = {}

    def rec(n, qual):
        for c in ast.iter_child_nodes(n):
            q = qual
            if isinstance(c, (ast.FunctionDef, ast.AsyncFunctionDef, ast.ClassDef)):
                q = (qual + "." if qual else "") + c.name
            m[c] = q
            rec(c, q)
    rec(tree, "")
    return m


def gen_mutants(rel, src):
    tree = ast.parse(src)
    encl = enclosing_functions(tree)
    lines = src.splitlines(keepends=True)
    offs = [0]
    for ln in lines:
        offs.append(offs[-1] + len(ln.encode("utf8")))
    bsrc = src.encode("utf8")

    def span(n):
        return offs[n.lineno - 1] + n.col_offset, offs[n.end_lineno - 1] + n.end_col_offset

    out = []

    def emit(node, newnode_or_text, op):
        a, b = span(node)
        old = bsrc[a:b].decode("utf8")
        new = newnode_or_text if isinstance(newnode_or_text, str) else ast.unparse(newnode_or_text)
        if isinstance(node, ast.expr) and not isinstance(newnode_or_text, str):
            new = "(" + new + ")"
        if new.strip("()") == old.strip("()"):
            return
        text = (bsrc[:a] + new.encode("utf8") + bsrc[b:]).decode("utf8")
        try:
            ast.parse(text)
        except SyntaxError:
            return
        out.append({"file": rel, "func": encl.get(node, ""), "line": node.lineno, "op": op, "old": old[:120], "new": new[:120], "src": text})

    for node in ast.walk(tree):
        if not hasattr(node, "lineno"):
            continue
        q = encl.get(node, "")
        if isinstance(node, ast.Expr) and isinstance(node.value, ast.Constant) and isinstance(node.value.value, str):
            continue
        if isinstance(node, ast.Compare) and len(node.ops) == 1:
            for alt in CMP_SWAP.get(type(node.ops[0]), []):
                n2 = copy.deepcopy(node)
                n2.ops = [alt()]
                emit(node, n2, "cmp:%s->%s" % (type(node.ops[0]).__name__, alt.__name__))
        elif isinstance(node, ast.BinOp):
            for alt in BIN_SWAP.get(type(node.op), []):
                n2 = copy.deepcopy(node)
                n2.op = alt()
                emit(node, n2, "bin:%s->%s" % (type(node.op).__name__, alt.__name__))
            if isinstance(node.op, (ast.Sub, ast.Div, ast.MatMult)):
                n2 = copy.deepcopy(node)
                n2.left, n2.right = n2.right, n2.left
                emit(node, n2, "bin:swap-operands")
        elif isinstance(node, ast.BoolOp):
            n2 = copy.deepcopy(node)
            n2.op = ast.Or() if isinstance(node.op, ast.And) else ast.And()
            emit(node, n2, "bool:and<->or")
            for i in range(len(node.values)):
                if len(node.values) >= 2:
                    n2 = copy.deepcopy(node)
                    del n2.values[i]
                    if len(n2.values) == 1:
                        n2 = n2.values[0]
                    emit(node, n2, "bool:drop-operand-%d" % i)
        elif isinstance(node, ast.UnaryOp) and isinstance(node.op, ast.Not):
            emit(node, copy.deepcopy(node.operand), "not:removed")
        elif isinstance(node, ast.UnaryOp) and isinstance(node.op, ast.USub):
            emit(node, copy.deepcopy(node.operand), "neg:removed")
        elif isinstance(node, ast.Constant) and not isinstance(node.value, (str, bytes)) and node.value is not None and node.value is not Ellipsis:
            v = node.value
            if isinstance(v, bool):
                emit(node, ast.Constant(not v), "const:bool-flip")
            elif isinstance(v, int):
                emit(node, ast.Constant(v + 1), "const:+1")
                if v != 0:
                    emit(node, ast.Constant(v - 1), "const:-1")
            elif isinstance(v, float):
                emit(node, ast.Constant(v * 2), "const:*2")
                emit(node, ast.Constant(v / 2), "const:/2")
        elif isinstance(node, ast.If):
            # negate the condition
            n2 = ast.UnaryOp(ast.Not(), copy.deepcopy(node.test))
            a, b = span(node.test)
            text = (bsrc[:a] + ("not (" + ast.unparse(node.test) + ")").encode() + bsrc[b:]).decode()
            try:
                ast.parse(text)
                out.append({"file": rel, "func": q, "line": node.lineno, "op": "if:negate", "old": ast.unparse(node.test)[:120], "new": "not (...)", "src": text})
            except SyntaxError:
                pass
        elif isinstance(node, ast.Call):
            if len(node.args) >= 2 and not any(isinstance(a, ast.Starred) for a in node.args):
                n2 = copy.deepcopy(node)
                n2.args[0], n2.args[1] = n2.args[1], n2.args[0]
                emit(node, n2, "call:swap-args-0-1")
            for i, kw in enumerate(node.keywords):
                if kw.arg is not None:
                    n2 = copy.deepcopy(node)
                    del n2.keywords[i]
                    emit(node, n2, "call:drop-kw-%s" % kw.arg)
        elif isinstance(node, (ast.Expr, ast.AugAssign)) or (isinstance(node, ast.Assign) and isinstance(node.targets[0], (ast.Subscript, ast.Attribute))):
            # statement deletion (only effect statements: calls, augmented assignments, stores into objects)
            if isinstance(node, ast.Expr) and not isinstance(node.value, ast.Call):
                continue
            a, b = span(node)
            text = (bsrc[:a] + b"pass" + bsrc[b:]).decode()
            try:
                ast.parse(text)
                out.append({"file": rel, "func": q, "line": node.lineno, "op": "stmt:delete", "old": ast.unparse(node)[:120], "new": "pass", "src": text})
            except SyntaxError:
                pass
        elif isinstance(node, ast.Attribute) and node.attr == "T" and OPS2:
            emit(node, copy.deepcopy(node.value), "attr:drop-T")
        elif isinstance(node, ast.Attribute) and OPS2 and any(k in node.attr for k in ("bond", "angle", "dihedral", "improper")) and isinstance(node.value, ast.Name):
            for a_, b_ in (("bond", "angle"), ("angle", "dihedral"), ("dihedral", "improper"), ("improper", "bond")):
                if a_ in node.attr:
                    n2 = copy.deepcopy(node)
                    n2.attr = node.attr.replace(a_, b_)
                    emit(node, n2, "attr:kind-%s->%s" % (a_, b_))
                    break
        elif isinstance(node, ast.keyword) and node.arg == "axis" and OPS2 and isinstance(node.value, ast.Constant) and node.value.value in (0, 1):
            pass
        elif isinstance(node, (ast.Break, ast.Continue)) and OPS2:
            a, b = span(node)
            text = (bsrc[:a] + (b"continue" if isinstance(node, ast.Break) else b"break") + bsrc[b:]).decode()
            try:
                ast.parse(text)
                out.append({"file": rel, "func": q, "line": node.lineno, "op": "stmt:break<->continue", "old": type(node).__name__, "new": "swapped", "src": text})
            except SyntaxError:
                pass
        elif isinstance(node, ast.Subscript) and isinstance(node.slice, ast.Slice):
            sl = node.slice
            if sl.lower is not None and sl.upper is not None:
                n2 = copy.deepcopy(node)
                n2.slice.lower, n2.slice.upper = n2.slice.upper, n2.slice.lower
                emit(node, n2, "slice:swap-bounds")
    if OPS2:
        # second operator set: use of a sibling variable - names bound together in one tuple target (for i, j in ..; a, b = ..) are exchanged at ONE use site;
        # adjacent independent simple statements are exchanged
        for fnode in [n for n in ast.walk(tree) if isinstance(n, (ast.FunctionDef, ast.AsyncFunctionDef))]:
            groups = []
            for n in ast.walk(fnode):
                tg = None
                if isinstance(n, (ast.For, ast.comprehension)):
                    tg = n.target
                elif isinstance(n, ast.Assign) and len(n.targets) == 1:
                    tg = n.targets[0]
                if isinstance(tg, ast.Tuple) and all(isinstance(e, ast.Name) for e in tg.elts) and 2 <= len(tg.elts) <= 4:
                    groups.append([e.id for e in tg.elts])
            pos_params = [a.arg for a in fnode.args.args if a.arg not in ("self", "cls")]
            for i_ in range(len(pos_params) - 1):
                groups.append([pos_params[i_], pos_params[i_ + 1]])
            done = set()
            for g in groups:
                for x, y in zip(g, g[1:]):
                    if (x, y) in done:
                        continue
                    done.add((x, y))
                    uses = [n for n in ast.walk(fnode) if isinstance(n, ast.Name) and isinstance(n.ctx, ast.Load) and n.id == x]
                    for u in uses[:3]:
                        n2 = ast.Name(id=y, ctx=ast.Load())
                        a, b = span(u)
                        text = (bsrc[:a] + y.encode() + bsrc[b:]).decode()
                        try:
                            ast.parse(text)
                            out.append({"file": rel, "func": encl.get(u, ""), "line": u.lineno, "op": "name:%s->%s" % (x, y), "old": x, "new": y, "src": text})
                        except SyntaxError:
                            pass
            for n in ast.walk(fnode):
                body = getattr(n, "body", None)
                if not isinstance(body, list):
                    continue
                for s1, s2 in zip(body, body[1:]):
                    if isinstance(s1, (ast.Assign, ast.Expr, ast.AugAssign)) and isinstance(s2, (ast.Assign, ast.Expr, ast.AugAssign)) and s1.end_lineno + 1 >= s2.lineno \
                            and s1.col_offset == s2.col_offset and s1.lineno == s1.end_lineno and s2.lineno == s2.end_lineno:
                        a1, b1 = span(s1)
                        a2, b2 = span(s2)
                        text = (bsrc[:a1] + bsrc[a2:b2] + bsrc[b1:a2] + bsrc[a1:b1] + bsrc[b2:]).decode()
                        try:
                            ast.parse(text)
                            out.append({"file": rel, "func": encl.get(s1, ""), "line": s1.lineno, "op": "stmt:swap-adjacent", "old": ast.unparse(s1)[:60], "new": ast.unparse(s2)[:60], "src": text})
                        except SyntaxError:
                            pass
    return out


_WORK = {}


def _worker_dir():
    d = _WORK.get("dir")
    if d is None:
        d = tempfile.mkdtemp(prefix="ms_w_", dir="/tmp/ms")
        subprocess.run("git -C %s archive HEAD | tar -x -C %s" % (REPO, d), shell=True, check=True)
        _WORK["dir"] = d
    return d


def run_one(args):
    i, m, run_tests = args
    from selftest import harness
    d = _worker_dir()
    path = os.path.join(d, m["file"])
    orig = open(path).read()
    res = {"i": i}
    try:
        with open(path, "w") as f:
            f.write(m["src"])
        ev = harness.evaluate(d)
        res["ev"] = ev
        if run_tests:
            env = dict(os.environ, PYTHONDONTWRITEBYTECODE="1")
            try:
                p = subprocess.run(["/venv/bin/python", "-B", "-m", "pytest", "-q", "-x", "-p", "no:cacheprovider", "--timeout=120"],
                                   cwd=d, env=env, stdout=subprocess.PIPE, stderr=subprocess.STDOUT, timeout=600)
                res["tests"] = p.returncode
                res["tests_tail"] = p.stdout.decode(errors="replace").strip().splitlines()[-1:] if p.returncode else []
            except subprocess.TimeoutExpired:
                res["tests"] = -9
    finally:
        with open(path, "w") as f:
            f.write(orig)
        for junk in ("test-01.cif",):
            try:
                os.remove(os.path.join(d, junk))
            except OSError:
                pass
    return res


def main():
    import argparse
    ap = argparse.ArgumentParser()
    ap.add_argument("--files", default=",".join(DEFAULT_FILES))
    ap.add_argument("--out", default="/tmp/ms/sweep.json")
    ap.add_argument("--jobs", type=int, default=16)
    ap.add_argument("--limit", type=int, default=0)
    a = ap.parse_args()
    os.makedirs("/tmp/ms", exist_ok=True)
    from selftest import harness
    base = harness.evaluate(REPO)
    muts = []
    for rel in a.files.split(","):
        src = open(os.path.join(REPO, rel)).read()
        muts.extend(gen_mutants(rel, src))
    if os.environ.get("SWEEP_ONLY2"):
        muts = [m for m in muts if m["op"].startswith(("attr:", "name:", "stmt:swap", "stmt:break"))]
    if a.limit:
        muts = muts[:a.limit]
    print("mutants generated:", len(muts), flush=True)
    t0 = time.time()
    # phase 1: static only
    with Pool(a.jobs) as pool:
        r1 = pool.map(run_one, [(i, m, False) for i, m in enumerate(muts)], chunksize=4)
    print("static phase %.0fs" % (time.time() - t0), flush=True)
    rows = []
    need_tests = []
    for r in r1:
        m = muts[r["i"]]
        new, err = harness.diff_against(base, r["ev"])
        row = {k: m[k] for k in ("file", "func", "line", "op", "old", "new")}
        row["i"] = r["i"]
        row["reported_by"] = sorted(new)
        row["undecided"] = sorted(err)
        rows.append(row)
        if not new:
            need_tests.append(r["i"])
    print("reported by some property:", len(muts) - len(need_tests), " not reported:", len(need_tests), flush=True)
    t1 = time.time()
    with Pool(a.jobs) as pool:
        r2 = pool.map(run_one, [(i, muts[i], True) for i in need_tests], chunksize=2)
    print("test phase %.0fs" % (time.time() - t1), flush=True)
    byi = {r["i"]: r for r in r2}
    for row in rows:
        r = byi.get(row["i"])
        if r is not None:
            row["tests"] = r.get("tests")
            row["tests_tail"] = r.get("tests_tail")
    surv = [r for r in rows if not r["reported_by"] and r.get("tests") == 0]
    print("survivors (tests pass, no property reports):", len(surv), " of which undecided somewhere:", sum(1 for r in surv if r["undecided"]))
    with open(a.out, "w") as f:
        json.dump({"rows": rows}, f, indent=0)
    for d in os.listdir("/tmp/ms"):
        if d.startswith("ms_w_"):
            shutil.rmtree(os.path.join("/tmp/ms", d), ignore_errors=True)


if __name__ == "__main__":
    main()
