"""Regenerate MANIFEST.json from rules/registry.py (run from /verif)."""
import json
import os
import sys

sys.path.insert(0, os.path.dirname(os.path.dirname(os.path.abspath(__file__))))
from rules.registry import PROPERTIES  # noqa: E402

TECH = {
    "C01": "control-dependence + typestate rules on the CFG, index-space inference, ownership/effect analysis",
    "C02": "affine normal forms of window comparisons, axis-role rules, path enumeration",
    "C03": "truthiness lint on optional indices, who-may-call table for randomness, taint dataflow to comparison sinks",
    "C04": "ownership/effect analysis over the call graph, typestate and dominance rules, index-space inference",
    "C05": "use-before-kill dataflow, path typestate of the inserted fragment, axis-role rule on np.diag(cell)",
    "C06": "decision-list leaf analysis (partial evaluation), sibling anti-unification, reaching definitions",
    "C07": "control-dependence of the guarded update, CFG reachability of the raise, per-path map agreement",
    "C08": "control-dependence and index-space typing of the shared-atom map, reaching definitions of the rotation",
    "C09": "exhaustiveness derived from the consistency assertion, post-dominance, sibling anti-unification, decision lists",
    "C10": "must-pass-through on the CFG, caller/callee contract check, reaching definitions",
    "C11": "dataflow/dominance rules in Atoms.extend, sibling anti-unification, order rules",
    "C12": "axis-role inference on cell arithmetic, literal-tuple arity, ownership analysis",
    "C13": "writer/reader table extraction (format strings vs slices), sibling agreement, format-slot arity",
    "C14": "comparison-shape rule (one-sided vs two-sided), first-hit vs nearest rule, handler shape rule",
    "C15": "API-existence rule over the installed PyCifRW source (parsed, not imported), tag tables, order rules",
    "C16": "unpack-of-empty lint with domain table, provenance rules in load_cml",
    "C17": "decision list of the cutoff, affine agreement of slice start and index expression, literal tables",
    "C18": "partial evaluation to decision lists with AC-normalisation (symmetry), literal-table domain checks",
    "C19": "sibling comparison of the three typing pipelines, min-idiom recognition, shape rules",
    "C20": "click decorator table extraction, reaching-definition flows into named sinks, CFG order, attribute universe",
}
DESIGN_REF = "DESIGN.md section 4 (%s) and section 3 (rule catalogue)"

checks = []
for pid in sorted(PROPERTIES):
    spec = PROPERTIES[pid]
    checks.append({
        "property_id": pid,
        "quick_cmd": "./check %s --tier quick" % pid,
        "thorough_cmd": "./check %s --tier thorough" % pid,
        "evidence_file": "/verif/evidence/%s.json" % pid,
        "replay_cmd_template": "./check %s --replay {path}" % pid,
        "engine": "verif_sa",
        "level_claimed": {
            "category": "other",
            "text": "Static structural rules decided on every run from the current source of /repo: each rule enumerates ALL its instances "
                    "(paths of a function, call sites of a callee, sibling blocks of a kind, rows of a table) and every instance must be discharged. "
                    "Decided clauses (necessary conditions of the property, not the behaviour itself): " + spec["decided"],
            "design_ref": DESIGN_REF % pid,
        },
        "level_note": "NOT decided (value-level remainder, not claimed): " + spec["not_decided"] +
                      ". Trusted base: CPython ast, the rule tables under /verif/rules, the exception table rules/exceptions.py, documented NumPy/SciPy semantics.",
        "technique": "static analysis: " + TECH[pid],
    })

manifest = {
    "version": 1,
    "setup_cmd": "/venv/bin/python -B -m verif_sa.selfcheck",
    "hooks": {
        "guard": "MOFUN_VERIF",
        "enable": "no source hooks are needed: every check parses /repo/mofun and never imports or runs it",
        "baseline_off_cmd": "cd /repo && /venv/bin/python -m pytest -ra -q -p no:cacheprovider --timeout=900 --continue-on-collection-errors",
        "source_commits": [],
        "add_only": True,
    },
    "engines": [{
        "name": "verif_sa",
        "path": "/verif/verif_sa",
        "serves_properties": sorted(PROPERTIES),
        "kind_free_text": "stdlib-ast static analysis engine: facts/call resolution, statement CFG with dominators, reaching definitions, "
                          "effect/ownership analysis, partial evaluator (decision lists), sibling anti-unification, index-space inference, PyCifRW source reader",
    }],
    "checks": checks,
    "notes": "Family: static analysis only. Known genuine defects that are recorded rather than repaired are listed in /verif/known_findings.json; "
             "repaired ones are recorded there as fixed entries (which suppress nothing).",
    "not_applicable": [],
}
with open(os.path.join(os.path.dirname(os.path.dirname(os.path.abspath(__file__))), "MANIFEST.json"), "w") as f:
    json.dump(manifest, f, indent=1)
print("wrote MANIFEST.json with %d checks" % len(checks))
