"""Family D (second part): decision tables over finite abstract domains.

D5  torsion case analysis: the decision list of dihedral_params, evaluated over the finite partition of hybridisation
    characters and element classes that its own comparisons induce, agrees leaf by leaf (periodicity n, sign d, barrier
    monomial) with the documented UFF case table transcribed below (Rappe et al. 1992, eqs 16/17 and the exceptions the
    function documents).  Nothing is executed: the guards are terms of the partial evaluator, their operands take values
    only through comparisons with literals, so a finite set of representatives decides them exhaustively.
D6  user bond-order rules take precedence over every built-in guess (dominance in the CFG), and every parameter function
    hands its rules to the guesser.
"""
import ast
import itertools
import math

from verif_sa.core import Ob, AnalysisError
from verif_sa.facts import call_name
from verif_sa.pe import P, Normalizer, decision_list
from .common import const_value, floor


class Unknown(Exception):
    pass


TYPE_PARAMS = ("a1", "a2", "a3", "a4")
NUM_PARAMS = ("bond_order",)


def _mentions(t, pred):
    if pred(t):
        return True
    if isinstance(t, tuple):
        return any(_mentions(x, pred) for x in t)
    return False


def _params_in(t):
    out = set()

    def rec(x):
        if isinstance(x, tuple):
            if len(x) == 2 and x[0] == "param":
                out.add(x[1])
            else:
                for y in x:
                    rec(y)
    rec(t)
    return out


_CMP_OPS = ("le", "lt", "ge", "gt", "eq", "ne", "in", "notin", "is", "isnot")
_SET_METHODS = ("isdisjoint", "issubset", "issuperset", "intersection", "union", "difference", "symmetric_difference")


class Table:
    """Finite-domain evaluation of a decision list."""

    def __init__(self, repo, dl):
        self.repo = repo
        self.dl = dl
        self.features = {}     # feature term -> set of python constants / frozensets it is compared with
        self.tables = {}
        for conds, leaf in dl:
            for c in conds:
                self._scan(c)
            self._scan(leaf)

    # -- constants -------------------------------------------------------------------------------
    def const_of(self, t):
        """Python value of a closed term (no features, no parameters); raises Unknown otherwise."""
        if not isinstance(t, tuple):
            raise Unknown(repr(t))
        op = t[0]
        if op == "const":
            return t[1]
        if op == "set":
            return frozenset(self.const_of(x) for x in t[1:])
        if op == "list":
            return tuple(self.const_of(x) for x in t[1:])
        if op == "call" and t[1] in ("set", "frozenset", "list", "tuple") and len(t[2]) == 2:
            v = self.const_of(t[2][1])
            return frozenset(v) if t[1] in ("set", "frozenset") else tuple(v)
        if op == "free":
            if t[1] not in self.tables:
                try:
                    m, v = self.repo.table(t[1])
                    if isinstance(v, ast.Call) and isinstance(v.func, ast.Name) and v.func.id in ("frozenset", "set", "tuple", "list") and len(v.args) == 1 and not v.keywords:
                        self.tables[t[1]] = set(ast.literal_eval(v.args[0])) if v.func.id in ("frozenset", "set") else tuple(ast.literal_eval(v.args[0]))
                    else:
                        self.tables[t[1]] = ast.literal_eval(v)
                except Exception:
                    raise Unknown("free name %s is not a literal table" % t[1])
            val = self.tables[t[1]]
            if isinstance(val, (set, frozenset)):
                return frozenset(val)
            if isinstance(val, (list, tuple)):
                return tuple(val)
            if isinstance(val, dict) and len(val) <= 64:
                return val          # a small module-level lookup table (e.g. keyed by (angle, flag)); the big parameter table stays symbolic
            raise Unknown("table %s is not a sequence" % t[1])
        raise Unknown(repr(t)[:80])

    def _small_table(self, t):
        """does t read a small module-level dict (directly or through .get)?"""
        if isinstance(t, tuple) and t:
            if t[0] == "free":
                try:
                    return isinstance(self.const_of(t), dict)
                except Unknown:
                    return False
            return any(self._small_table(x) for x in t if isinstance(x, tuple))
        return False

    def is_closed(self, t):
        try:
            self.const_of(t)
            return True
        except Unknown:
            return False

    # -- feature discovery -----------------------------------------------------------------------
    def _is_feature(self, f):
        if isinstance(f, tuple) and len(f) == 2 and f[0] == "param" and f[1] in NUM_PARAMS:
            return True      # a numeric argument tested against literals (`bond_order > 1`, `bond_order is None`)
        return (not self.is_closed(f)) and len(_params_in(f) & set(TYPE_PARAMS)) == 1 and not (_params_in(f) - set(TYPE_PARAMS))

    def _note(self, f, other):
        if not self._is_feature(f):
            return
        try:
            v = self.const_of(other)
        except Unknown:
            if not (isinstance(f, tuple) and f and f[0] in _CMP_OPS + ("not", "and", "or")):
                self.features.setdefault(f, set())
            return
        s = self.features.setdefault(f, set())
        if isinstance(v, (frozenset, tuple)):
            s.add(frozenset(v))
        else:
            s.add(frozenset([v]))

    def _scan(self, t):
        if not isinstance(t, tuple):
            return
        pair = None
        if t and t[0] in _CMP_OPS and len(t) == 3:
            pair = (t[1], t[2])
        elif t and t[0] in ("bitand", "bitor", "bitxor", "sub") and len(t) == 3 and any(isinstance(x, tuple) and x and x[0] == "set" for x in (t[1], t[2])):
            pair = (t[1], t[2])          # set algebra between a set of type parameters and a literal set
        elif t and t[0] == "mcall" and len(t) == 5 and t[2] in _SET_METHODS and len(t[3]) == 2:
            pair = (t[1], t[3][1])       # S.isdisjoint(T), S.issubset(T), ...
        if pair is not None:
            a, b = pair
            feats = []
            for x, y in ((a, b), (b, a)):
                if isinstance(x, tuple) and x and x[0] in ("set", "list") and not self.is_closed(x):
                    for el in x[1:]:
                        self._note(el, y)
                        if self._is_feature(el):
                            feats.append(el)
                else:
                    self._note(x, y)
                    # x is a feature OF THIS comparison only when it is compared with something closed (a literal / a table); two open sides (`p != q` of two
                    # boolean tests) are not a feature-against-literal comparison: their own comparisons are scanned instead
                    if self._is_feature(x) and (self.is_closed(y) or not (isinstance(x, tuple) and x and x[0] in _CMP_OPS + ("not", "and", "or"))):
                        feats.append(x)
            # features are maximal: comparisons nested inside a feature are part of its definition, not of the table
            for x in (a, b):
                if x in feats:
                    continue
                if isinstance(x, tuple) and x and x[0] in ("set", "list"):
                    for el in x[1:]:
                        if el not in feats:
                            self._scan(el)
                else:
                    self._scan(x)
            return
        for x in t:
            self._scan(x)

    def domains(self):
        """feature -> list of representative values: one per cell of the partition induced by the literal sets the feature
        is compared with, plus one value outside all of them."""
        out = {}
        for f, sets in self.features.items():
            universe = set()
            for s in sets:
                universe |= set(s)
            cells = {}
            for v in sorted(universe, key=repr):
                sig = tuple(sorted((repr(sorted(s, key=repr)) for s in sets if v in s)))
                # singletons are always separated (equality tests)
                if any(len(s) == 1 and v in s for s in sets):
                    sig = sig + ("=" + repr(v),)
                cells.setdefault(sig, v)
            reps = list(cells.values())
            reps.append("?other?")       # a value none of the literals mention
            out[f] = reps
        return out

    # -- evaluation ------------------------------------------------------------------------------
    def ev(self, t, env):
        if t in env:
            return env[t]
        if not isinstance(t, tuple):
            raise Unknown(repr(t))
        op = t[0]
        if op == "const":
            return t[1]
        if op in ("set",):
            return frozenset(self.ev(x, env) for x in t[1:])
        if op == "list":
            return tuple(self.ev(x, env) for x in t[1:])
        if op == "not":
            return not self.ev(t[1], env)
        if op == "and":
            return all(self.ev(x, env) for x in t[1:])
        if op == "or":
            return any(self.ev(x, env) for x in t[1:])
        if op in ("ifexp", "phi"):
            return self.ev(t[2], env) if self.ev(t[1], env) else self.ev(t[3], env)
        if op in _CMP_OPS and len(t) == 3:
            a, b = self.ev(t[1], env), self.ev(t[2], env)
            if op == "eq":
                return a == b
            if op == "ne":
                return a != b
            if op == "in":
                return a in b
            if op == "notin":
                return a not in b
            if op == "is":
                return a is b
            if op == "isnot":
                return a is not b
            if isinstance(a, frozenset) != isinstance(b, frozenset):
                raise Unknown("ordering between a set and a non-set")
            if not isinstance(a, frozenset) and not (isinstance(a, (int, float)) and isinstance(b, (int, float))):
                raise Unknown("ordering of non-numeric values")
            return {"le": a <= b, "lt": a < b, "ge": a >= b, "gt": a > b}[op]
        if op == "dict":
            out = {}
            for kv in t[1:]:
                if not (isinstance(kv, tuple) and len(kv) == 2):
                    raise Unknown("dict entry")
                out[self.ev(kv[0], env)] = self.ev(kv[1], env)
            return out
        if op == "sub[]" and len(t) == 3 and isinstance(t[1], tuple) and t[1] and (t[1][0] in ("dict", "list") or _mentions_table_literal(t[1]) or self._small_table(t[1])):
            base = self.ev(t[1], env)
            key = self.ev(t[2], env)
            try:
                return base[key]
            except Exception:
                raise Unknown("lookup of %r fails" % (key,))
        if op == "mcall" and len(t) == 5 and t[2] == "get" and len(t[3]) in (2, 3) and t[4] == ("kws",):
            base = self.ev(t[1], env)
            if isinstance(base, dict):
                key = self.ev(t[3][1], env)
                dflt = self.ev(t[3][2], env) if len(t[3]) == 3 else None
                try:
                    return base.get(key, dflt)
                except TypeError:
                    raise Unknown("unhashable key")
            raise Unknown("get on a non-dict")
        if op == "len" and len(t) == 2:
            return len(self.ev(t[1], env))
        if op == "call" and t[1] == "len" and len(t[2]) == 2 and t[3] == ("kws",):
            return len(self.ev(t[2][1], env))
        if op in ("bitand", "bitor", "bitxor", "sub") and len(t) == 3:
            a, b = self.ev(t[1], env), self.ev(t[2], env)
            if isinstance(a, frozenset) and isinstance(b, frozenset):
                return {"bitand": a & b, "bitor": a | b, "bitxor": a ^ b, "sub": a - b}[op]
            if op == "sub" and all(isinstance(x, (int, float)) and not isinstance(x, bool) for x in (a, b)):
                return a - b
            raise Unknown("operator %s on non-sets" % op)
        if op == "mcall" and len(t) == 5 and t[2] in _SET_METHODS and len(t[3]) == 2 and t[4] == ("kws",):
            a, b = self.ev(t[1], env), self.ev(t[3][1], env)
            if isinstance(a, tuple):
                raise Unknown("set method on a sequence")
            if isinstance(a, frozenset) and isinstance(b, (frozenset, tuple)):
                return getattr(a, t[2])(frozenset(b))
            raise Unknown("set method on non-sets")
        if op in ("call", "free"):
            v = self.const_of(t)
            return frozenset(v) if op == "call" and t[1] in ("set", "frozenset") else v
        raise Unknown(repr(t)[:80])

    def decide(self, env):
        for i, (conds, leaf) in enumerate(self.dl):
            if all(self.ev(c, env) for c in conds):
                return i, leaf
        return None, None


def drop_derived_features(tabs, doms):
    """A feature whose term CONTAINS another feature and can be computed from it by the table evaluator is not an independent input: enumerating it freely
    would produce combinations that no real argument can produce.  Such features are removed from the enumeration (they are evaluated on demand)."""
    def subterms(t):
        if isinstance(t, tuple):
            for x in t:
                if isinstance(x, tuple):
                    yield x
                    for y in subterms(x):
                        yield y
    out = dict(doms)
    for f in sorted(doms, key=lambda z: -len(repr(z))):
        inner = [g for g in out if g != f and any(g == st for st in subterms(f))]
        if not inner:
            continue
        env = {g: out[g][0] for g in out if g != f}
        for tab in tabs:
            try:
                tab.ev(f, env)
            except Unknown:
                continue
            except Exception:
                continue
            del out[f]
            break
    return out


def _canon(t):
    """Canonical text of a normalised term with the bond-order phi abbreviated."""
    if not isinstance(t, tuple):
        return repr(t)
    if t[0] == "const":
        v = t[1]
        return repr(float(v)) if isinstance(v, (int, float)) and not isinstance(v, bool) else repr(v)
    if t[0] == "param":
        return t[1]
    if t[0] == "phi" and isinstance(t[1], tuple) and t[1][0] == "is" and t[1][1] == P("bond_order") and t[1][2] == ("const", None) \
            and t[3] == P("bond_order") and isinstance(t[2], tuple) and t[2][0] == "call" and t[2][1] == "guess_bond_order":
        return "BO(%s)" % ",".join(_canon(x) for x in t[2][2][1:])
    if t[0] == "call":
        kws = t[3][1:] if len(t) > 3 and isinstance(t[3], tuple) and t[3] and t[3][0] == "kws" else ()
        return "%s(%s)" % (t[1], ",".join([_canon(x) for x in t[2][1:]] + ["%s=%s" % (k, _canon(v)) for k, v in kws]))
    if t[0] in ("add", "mul"):
        return "%s(%s)" % (t[0], ",".join(sorted(_canon(x) for x in t[1:])))
    return "%s(%s)" % (t[0], ",".join(_canon(x) for x in t[1:]))


def monomial(tab, t, env):
    """(coefficient, {atom text: exponent}) of a product/quotient term; conditionals are resolved under env."""
    if not isinstance(t, tuple):
        raise Unknown(repr(t))
    op = t[0]
    if op == "const" and isinstance(t[1], (int, float)) and not isinstance(t[1], bool):
        return float(t[1]), {}
    if op in ("phi", "ifexp") and not _canon(t).startswith("BO("):
        return monomial(tab, t[2] if tab.ev(t[1], env) else t[3], env)
    if op == "mul":
        c, atoms = 1.0, {}
        for x in t[1:]:
            c2, a2 = monomial(tab, x, env)
            c *= c2
            for k, e in a2.items():
                atoms[k] = atoms.get(k, 0) + e
        return c, {k: e for k, e in atoms.items() if abs(e) > 1e-12}
    if op == "div":
        c1, a1 = monomial(tab, t[1], env)
        c2, a2 = monomial(tab, t[2], env)
        if c2 == 0:
            raise Unknown("division by zero constant")
        atoms = dict(a1)
        for k, e in a2.items():
            atoms[k] = atoms.get(k, 0) - e
        return c1 / c2, {k: e for k, e in atoms.items() if abs(e) > 1e-12}
    if op == "neg":
        c, a = monomial(tab, t[1], env)
        return -c, a
    if op == "pow" and isinstance(t[2], tuple) and t[2][0] == "const" and isinstance(t[2][1], (int, float)):
        c, a = monomial(tab, t[1], env)
        if c < 0 and t[2][1] != int(t[2][1]):
            raise Unknown("fractional power of a negative constant")
        return c ** t[2][1], {k: e * t[2][1] for k, e in a.items()}
    if op == "call" and t[1] == "sqrt" and len(t[2]) == 2:
        c, a = monomial(tab, t[2][1], env)
        if c < 0:
            raise Unknown("sqrt of a negative constant")
        return math.sqrt(c), {k: e * 0.5 for k, e in a.items()}
    return 1.0, {_canon(t): 1}


# ---- the documented torsion case table (Rappe, Casewit, Colwell, Goddard, Skiff 1992; exceptions as documented in the function) ----
CHALCOGENS = {"O", "S", "Se", "Te", "Po"}


def torsion_spec(h, el, main_group):
    """Expected leaf for hybridisation characters h[0..3] and central elements el[1], el[2] (abstract representatives).
    Returns None (no torsion), 'raise', or (n, d, coefficient, atoms)."""
    M = {"num_dihedrals_about_bond": -1}
    hj, hk = h[1], h[2]
    ej, ek = el[1], el[2]
    tabs = lambda col: {"sub[](sub[](free('UFF4MOF'),a2),%r)" % float(col): 0.5, "sub[](sub[](free('UFF4MOF'),a3),%r)" % float(col): 0.5}
    BO = "add(1.0,mul(4.18,log(BO(a2,a3,bond_order_rules))))"
    if {hj, hk} <= {"3"}:
        if {ej, ek} <= CHALCOGENS:
            vj = 2.0 if ej == "O" else 6.8
            vk = 2.0 if ek == "O" else 6.8
            return (2, 1, math.sqrt(vj * vk) / 2, dict(M))
        return (3, 1, 0.5, dict(M, **tabs(6)))
    if {hj, hk} <= {"2", "R"}:
        return (2, -1, 2.5, dict(M, **dict(tabs(7), **{BO: 1})))
    if {hj, hk} <= {"2", "R", "3"}:
        if {h[0], hj} <= {"2"} or {hk, h[3]} <= {"2"}:
            return (3, 1, 1.0, dict(M))
        if (hj == "3" and ej in CHALCOGENS and ek not in CHALCOGENS) or (hk == "3" and ek in CHALCOGENS and ej not in CHALCOGENS):
            return (2, 1, 2.5, dict(M, **dict(tabs(7), **{BO: 1})))
        return (6, -1, 0.5, dict(M))
    if "1" in {hj, hk}:
        return None
    if not {ej, ek} <= set(main_group):
        return None
    return "raise"


def D5_torsion_table(repo, clause):
    fn = repo.fn("dihedral_params")
    for p in TYPE_PARAMS + ("num_dihedrals_about_bond", "bond_order", "bond_order_rules"):
        if p not in fn.params:
            raise AnalysisError("D5: dihedral_params no longer has parameter %s" % p)
    nz = Normalizer({})

    def resolver(name):
        c = repo.fns.get((fn.module.name, name))
        return c.node if c is not None and c is not fn and c.cls is None and name not in ("guess_bond_order",) else None
    dl = decision_list(fn.node, {p: P(p) for p in fn.params}, nz, resolver=resolver)
    tab = Table(repo, dl)
    doms = tab.domains()
    # roles: which feature is the hybridisation / element of which position
    roles = {}
    for f, reps in list(doms.items()):
        if not (_params_in(f) & set(TYPE_PARAMS)):
            del doms[f]        # a numeric argument (bond order): not part of the torsion case table, left symbolic
            continue
        pos = TYPE_PARAMS.index(next(iter(_params_in(f) & set(TYPE_PARAMS))))
        lits = set().union(*tab.features[f]) if tab.features[f] else set()
        kind = "el" if lits & CHALCOGENS else ("h" if lits & {"1", "2", "3", "R"} else None)
        if kind is None:
            raise AnalysisError("D5: cannot tell what `%s` stands for (compared with %s)" % (_canon(f)[:60], sorted(map(repr, lits))[:6]))
        if (kind, pos) in roles and roles[(kind, pos)] != f:
            raise AnalysisError("D5: two different expressions for the %s of atom %d" % (kind, pos + 1))
        roles[(kind, pos)] = f
    need = [("h", 0), ("h", 1), ("h", 2), ("h", 3), ("el", 1), ("el", 2)]
    missing = [r for r in need if r not in roles]
    obs = []
    if missing:
        raise AnalysisError("D5: the case analysis does not test %s any more (unrecognised shape)" % missing)
    try:
        main_group = tab.const_of(("free", "MAIN_GROUP_ELEMENTS"))
    except Unknown as e:
        raise AnalysisError("D5: %s" % e)
    feats = [roles[r] for r in need] + [f for f in doms if f not in roles.values()]
    names = need + [("extra", i) for i in range(len(feats) - len(need))]
    # element representatives: make sure the four classes the table distinguishes are present
    def by_signature(f, literals, forced):
        """All classes the documented table distinguishes (forced) plus one representative of every further class that the
        code's own comparisons distinguish."""
        sets = tab.features[f]

        def sig(v):
            return tuple(sorted(repr(sorted(s_, key=repr)) for s_ in sets if v in s_)) + (("=" + repr(v),) if any(len(s_) == 1 and v in s_ for s_ in sets) else ())
        seen = {sig(v) for v in forced}
        out = list(forced)
        for v in sorted(literals, key=repr):
            if v in forced or sig(v) in seen:
                continue
            seen.add(sig(v))
            out.append(v)
        return out
    for r in (("el", 1), ("el", 2)):
        f = roles[r]
        doms[f] = by_signature(f, set(doms[f]) - {"?other?"}, ["O", "S", "C", "Zn"])
    for r in (("h", 0), ("h", 1), ("h", 2), ("h", 3)):
        f = roles[r]
        doms[f] = by_signature(f, set(doms[f]) - {"?other?"}, ["1", "2", "3", "R", "6"])
    if "Zn" in main_group or not {"O", "S", "C"} <= set(main_group):
        raise AnalysisError("D5: MAIN_GROUP_ELEMENTS no longer separates the representatives O, S, C from Zn")
    total = bad = 0
    first_bad = None
    per_case = {}
    try:
        for combo in itertools.product(*[doms[f] for f in feats]):
            env = dict(zip(feats, combo))
            h = [env[roles[("h", i)]] for i in range(4)]
            el = [None, env[roles[("el", 1)]], env[roles[("el", 2)]], None]
            want = torsion_spec(h, el, main_group)
            i, leaf = tab.decide(env)
            total += 1
            got = None
            if leaf is None:
                got = "no path"
            elif leaf[0] == "raise":
                got = "raise"
            elif leaf[1] == ("const", None):
                got = None
            else:
                v = leaf[1]
                if not (v[0] == "list" and len(v) == 5 and v[1] == ("const", "harmonic")):
                    raise Unknown("leaf is not ('harmonic', K, d, n): %s" % _canon(v)[:80])
                n_ = tab.ev(v[4], env)
                d_ = tab.ev(v[3], env)
                c_, atoms = monomial(tab, v[2], env)
                got = (n_, d_, c_, atoms)
            same = got == want if not (isinstance(got, tuple) and isinstance(want, tuple)) else (
                got[0] == want[0] and got[1] == want[1] and abs(got[2] - want[2]) < 1e-9 and
                {k: round(e, 9) for k, e in got[3].items()} == {k: round(e, 9) for k, e in want[3].items()})
            key = "none" if want is None else (want if isinstance(want, str) else "n=%d,d=%+d" % (want[0], want[1]))
            pc = per_case.setdefault(key, [0, 0])
            pc[0] += 1
            if not same:
                bad += 1
                pc[1] += 1
                if first_bad is None:
                    first_bad = (h, el[1], el[2], want, got, i)
    except Unknown as e:
        raise AnalysisError("D5: decision list of dihedral_params uses a construct outside the guard language: %s" % e)
    floor("D5", "abstract type combinations", total, 10000)

    def show(x):
        if isinstance(x, tuple):
            import re as _re
            def nice(k):
                k = _re.sub(r"sub\[\]\(sub\[\]\(free\('UFF4MOF'\),(a\d)\),(\d+)\.0\)", r"UFF4MOF[\1][\2]", k)
                return k.replace("add(1.0,mul(4.18,log(BO(a2,a3,bond_order_rules))))", "(1+4.18*ln(BO))").replace("num_dihedrals_about_bond", "M")
            return "n=%s d=%s K=%.4g%s" % (x[0], x[1], x[2], "".join(" * %s^%g" % (nice(k), e) for k, e in sorted(x[3].items())))
        return repr(x)
    if bad == 0:
        detail = ("torsion case table: %d abstract combinations (hybridisation of all four atoms x element class of the two central atoms, representatives "
                  "taken from the literals the function itself compares with) - every one selects the documented case with the documented n, d and barrier monomial "
                  "(cases: %s)") % (total, ", ".join("%s:%d" % (k, v[0]) for k, v in sorted(per_case.items())))
    else:
        h, e1, e2, want, got, i = first_bad
        detail = ("torsion case table DISAGREES with the documented UFF cases on %d of %d abstract combinations; e.g. hybridisations %s with central elements %s/%s: "
                  "documented %s, code path #%s gives %s") % (bad, total, h, e1, e2, show(want), i, show(got))
    obs.append(Ob("D5", clause, fn, fn.node, bad == 0, detail, construct="def dihedral_params", slot="torsion-table", positive="robust"))
    for k, (n_all, n_bad) in sorted(per_case.items()):
        obs.append(Ob("D5", clause, fn, fn.node, n_bad == 0, "documented case %s: %d combinations, %d disagree" % (k, n_all, n_bad),
                      construct="def dihedral_params case %s" % k, slot="torsion-case:%s" % k, positive="robust"))
    return obs


def D6_bond_order_precedence(repo, clause):
    obs = []
    fn = repo.fn("guess_bond_order")
    rules_p = "rules"
    if rules_p not in fn.params:
        raise AnalysisError("D6: guess_bond_order no longer has the parameter `rules`")
    # the user-rule block: the loop over `rules` that returns the rule's bond order
    loops = [n for n in fn.own_nodes() if isinstance(n, ast.For) and any(isinstance(x, ast.Name) and x.id == rules_p for x in ast.walk(n.iter))]
    if len(loops) != 1:
        # table form: the rules are turned into a dict keyed by the (frozen) set of atom types and looked up once
        dcs = [n for n in fn.own_nodes() if isinstance(n, ast.DictComp) and len(n.generators) == 1 and any(isinstance(x, ast.Name) and x.id == rules_p for x in ast.walk(n.generators[0].iter))]
        dcs += [n for n in fn.own_nodes() if isinstance(n, ast.Call) and isinstance(n.func, ast.Name) and n.func.id == "dict" and n.args and any(isinstance(x, ast.Name) and x.id == rules_p for x in ast.walk(n.args[0]))]
        if len(loops) == 0 and len(dcs) == 1:
            dc = dcs[0]
            it = dc.generators[0].iter if isinstance(dc, ast.DictComp) else dc.args[0]
            rev = isinstance(it, ast.Call) and call_name(it) == "reversed" or (isinstance(it, ast.Subscript) and re.sub(r"\s", "", ast.unparse(it.slice)) == "::-1")
            obs.append(Ob("D6", clause, fn, dc, bool(rev),
                          "the user rules are folded into a dict `%s`: for two rules that name the same set of atom types a dict keeps the LAST, where the documented scan returns the FIRST "
                          "matching rule%s" % (ast.unparse(dc)[:60], " (the rules are folded in reverse order, so the first one wins)" if rev else ""),
                          slot="first-rule-wins", positive="robust"))
            obs.append(Ob("D6", clause, fn, dc, False, "user-rule block in table form: the match test and the precedence of the built-in guesses are not re-derived for this form",
                          slot="rule-match", undecided=True))
            return obs
        raise AnalysisError("D6: loop over the user bond-order rules not found in guess_bond_order")
    loop = loops[0]
    # outermost statement of the rules block (the `if rules is not None:` around the loop, if any)
    block = loop
    for a in fn.ancestors(loop):
        if isinstance(a, ast.If) and any(isinstance(x, ast.Name) and x.id == rules_p for x in ast.walk(a.test)):
            block = a
    rets = [r for r in fn.own_nodes() if isinstance(r, ast.Return) and loop not in list(fn.ancestors(r))]
    floor("D6", "built-in bond-order returns", len(rets), 3)
    cfg = fn.cfg
    for r in rets:
        ok = cfg.dominates(block, r)
        obs.append(Ob("D6", clause, fn, r, ok,
                      "built-in guess `%s` is %s" % (ast.unparse(r), "reached only after the user rules have been consulted" if ok else
                                                     "reachable WITHOUT consulting the user bond-order rules: a rule for these atom types is silently ignored"),
                      slot="builtin-after-rules:%s" % ast.unparse(r)[:30], positive=True))
    # a rule applies exactly when its set of atom types EQUALS the pair's set of atom types
    from .common import norm_guards
    inner = [r for r in fn.own_nodes() if isinstance(r, ast.Return) and loop in list(fn.ancestors(r))]
    for r in inner:
        gs = [(t, pol) for t, pol, k in norm_guards(fn, r, stop=loop)]
        eq = [(t, pol) for t, pol in gs if isinstance(t, ast.Compare) and len(t.ops) == 1 and isinstance(t.ops[0], (ast.Eq, ast.NotEq))]
        ok = len(eq) == 1 and ((isinstance(eq[0][0].ops[0], ast.Eq)) == bool(eq[0][1]))
        inverted = len(eq) == 1 and not ok
        subset = [(t, pol) for t, pol in gs if isinstance(t, ast.Compare) and len(t.ops) == 1 and isinstance(t.ops[0], (ast.LtE, ast.Lt, ast.GtE, ast.Gt, ast.In))] + \
            [(t, pol) for t, pol in gs if isinstance(t, ast.Call) and call_name(t) in ("issubset", "issuperset")]
        # decide the match test on representatives: pair types in {x, y, w}, rule sets {x}, {x, y}, {x, y, w} - it must hold exactly when {a1, a2} == rule set
        from .common import eval_small, Undecidable, expand
        rv = loop.target.elts[0].id if isinstance(loop.target, (ast.Tuple, ast.List)) and loop.target.elts and isinstance(loop.target.elts[0], ast.Name) else None
        sem = None
        if rv is not None and gs:
            try:
                bad = []
                for a1v in "xyw":
                    for a2v in "xyw":
                        for R in (frozenset("x"), frozenset("xy"), frozenset("xyw")):
                            env_ = {fn.params[0]: a1v, fn.params[1]: a2v, rv: R}
                            got = all(bool(eval_small(expand(fn, t, stop_names=[rv]), env_)) == pol for t, pol in gs if any(
                                isinstance(y, ast.Name) and y.id in (rv, fn.params[0], fn.params[1]) for y in ast.walk(expand(fn, t, stop_names=[rv]))))
                            if got != (frozenset((a1v, a2v)) == R):
                                bad.append((a1v, a2v, sorted(R)))
                sem = (not bad, bad[:1])
            except Undecidable:
                sem = None
        if sem is not None:
            okm, ex = sem
            obs.append(Ob("D6", clause, fn, r, okm,
                          "a user rule's bond order is returned %s" % ("exactly when the rule's atom-type set equals the pair's (36 representative combinations)" if okm else
                                                                      "for the pair (%s, %s) under the rule set %s, which is %s: the match test is not set equality - a two-type rule such as ({'C_R','N_R'}, 1.41) "
                                                                      "then also captures C_R-C_R bonds (or a rule misses its own pair)" % (ex[0][0], ex[0][1], ex[0][2], "NOT its pair" if frozenset(ex[0][:2]) != frozenset(ex[0][2]) else "its pair but is skipped")),
                          slot="rule-match", positive="robust" if not okm else False))
            continue
        if not eq and subset:
            obs.append(Ob("D6", clause, fn, r, False,
                          "a user rule's bond order is returned under the SUBSET test `%s`: a two-type rule such as ({'C_R','N_R'}, 1.41) then also captures C_R-C_R and N_R-N_R bonds" % ast.unparse(subset[0][0]),
                          slot="rule-match", positive=True))
            continue
        obs.append(Ob("D6", clause, fn, r, ok,
                      "a user rule's bond order is returned %s" % ("when the rule's atom-type set equals the pair's" if ok else (
                          "when the sets are DIFFERENT (`%s` taken as %s): every rule fires for the wrong pairs and never for its own" % (ast.unparse(eq[0][0]), eq[0][1]) if inverted
                          else "under a test that is not an equality of the two type sets")),
                      slot="rule-match", positive=inverted, undecided=not ok and not inverted))
    # every parameter function forwards its rules to the guesser
    n_calls = 0
    for f2 in repo.all_fns():
        if f2.module.name != fn.module.name or "bond_order_rules" not in f2.params:
            continue
        for c in [x for x in f2.own_nodes() if isinstance(x, ast.Call) and call_name(x) == "guess_bond_order"]:
            n_calls += 1
            arg = c.args[2] if len(c.args) > 2 else next((k.value for k in c.keywords if k.arg == rules_p), None)
            ok = isinstance(arg, ast.Name) and arg.id == "bond_order_rules"
            obs.append(Ob("D6", clause, f2, c, ok, "%s %s its bond_order_rules to guess_bond_order" % (f2.qualname, "forwards" if ok else "DOES NOT forward"),
                          slot="forwards-rules:%s" % f2.qualname, positive=True))
    floor("D6", "guess_bond_order call sites with rules", n_calls, 2)
    return obs


# ---- hint resolution table of the search ------------------------------------------------------------------------------
def D7_hint_table(repo, clause):
    """The three optional hints of find_pattern_in_structure (two axis atoms, one orientation atom) are resolved by a small case
    analysis on which of them are None.  The values the three variables hold after that analysis are obtained from the partial
    evaluator (phi terms at the joins) and resolved for every combination of {None, 0, another index} per hint and for both outcomes
    of the `more than two atoms` test; the documented outcome is: a given hint is used as given (0 is a valid index); with one
    axis hint the other end is the atom farthest from it; with none, the farthest pair; the orientation atom is computed only when
    it is not given and the pattern has more than two atoms."""
    from verif_sa.pe import PE
    fn = repo.fn("find_pattern_in_structure")
    H = ("axisp1_idx", "axisp2_idx", "opoint_idx")
    for h in H:
        if h not in fn.params:
            raise AnalysisError("D7: find_pattern_in_structure no longer has the hint parameter %s" % h)
    pe = PE({p: P(p) for p in fn.params})
    try:
        pe.run(fn.node.body, [])
    except AnalysisError as e:
        raise AnalysisError("D7: %s" % e)
    env = pe.env

    def cond(t, A):
        if not isinstance(t, tuple):
            raise Unknown(repr(t))
        op = t[0]
        if op == "const":
            return bool(t[1])
        if op == "not":
            return not cond(t[1], A)
        if op == "and":
            return all(cond(x, A) for x in t[1:])
        if op == "or":
            return any(cond(x, A) for x in t[1:])
        if op in ("is", "isnot", "eq", "ne") and len(t) == 3:
            a, b = value(t[1], A), value(t[2], A)
            for x, y in ((a, b), (b, a)):
                if y == ("const", None):
                    isnone = x == ("const", None)
                    if x[0] not in ("const", "hint"):
                        raise Unknown("None-test of a computed value")
                    return isnone if op in ("is", "eq") else not isnone
            raise Unknown(repr(t)[:80])
        if op == "param" and t[1] in H:
            v = A[t[1]]
            return bool(v)           # truth value of the hint: None and 0 are both falsy
        if op in ("gt", "ge", "lt", "le") and _mentions(t, lambda x: isinstance(x, tuple) and len(x) >= 2 and x[0] == "call" and x[1] == "len"):
            c = [x for x in (t[1], t[2]) if isinstance(x, tuple) and x[0] == "const"]
            if len(c) == 1 and c[0][1] == 2 and ((op == "gt" and t[2] == c[0]) or (op == "lt" and t[1] == c[0])):
                return A["more_than_two"]
            if len(c) == 1 and c[0][1] == 3 and ((op == "ge" and t[2] == c[0]) or (op == "le" and t[1] == c[0])):
                return A["more_than_two"]
            raise Unknown("length test `%s` is not `len > 2`" % _canon(t)[:60])
        raise Unknown(repr(t)[:80])

    def value(t, A):
        if not isinstance(t, tuple):
            return t
        if t[0] == "param" and t[1] in H:
            return ("const", None) if A[t[1]] is None else ("hint", t[1])
        if t[0] in ("phi", "ifexp"):
            return value(t[2] if cond(t[1], A) else t[3], A)
        return tuple(value(x, A) for x in t)

    def classify(v):
        if v == ("const", None):
            return "None"
        if v[0] == "hint":
            return "given:" + v[1]
        txt = _canon(v)
        if "unravel_index" in txt and "argmax" in txt and v[0] == "sub[]" and v[2][0] == "const":
            return "farthest-pair[%d]" % v[2][1]
        if v[0] == "sub[]" and v[2][0] == "const" and isinstance(v[1], tuple) and v[1][0] == "call" and v[1][1] == "divmod" and len(v[1][2]) == 3:
            # divmod(argmax(M), number of columns of M) = (row, column) of the maximum of a 2-D array
            a_, b_ = v[1][2][1], v[1][2][2]
            if isinstance(a_, tuple) and a_[0] == "mcall" and a_[2] == "argmax" and len(a_[3]) == 2 and a_[4] == ("kws",) and "shape" in _canon(b_) and _canon(a_[3][1]) in _canon(b_):
                return "farthest-pair[%d]" % v[2][1]
        if "argmax" in txt and v[0] == "mcall" and v[2] == "argmax":
            inner = [x for x in _walk(v) if isinstance(x, tuple) and x and x[0] == "hint"]
            rows = sorted({x[1] for x in inner})
            return "farthest-from(%s)" % ",".join(rows)
        if "position_index_farthest_from_axis" in txt:
            return "farthest-from-axis"
        return "other:" + txt[:60]

    def _walk(v):
        yield v
        if isinstance(v, tuple):
            for x in v:
                if isinstance(x, tuple):
                    for y in _walk(x):
                        yield y

    def expected(A):
        g1, g2, go = A["axisp1_idx"] is not None, A["axisp2_idx"] is not None, A["opoint_idx"] is not None
        if g1 and g2:
            e1, e2 = "given:axisp1_idx", "given:axisp2_idx"
        elif g1:
            e1, e2 = "given:axisp1_idx", "farthest-from(axisp1_idx)"
        elif g2:
            e1, e2 = "given:axisp2_idx", "farthest-from(axisp2_idx)"
        else:
            e1, e2 = "farthest-pair[0]", "farthest-pair[1]"
        eo = "given:opoint_idx" if go else ("farthest-from-axis" if A["more_than_two"] else "None")
        return e1, e2, eo

    obs = []
    total = 0
    bad = []
    try:
        for v1, v2, vo, m in itertools.product((None, 0, 5), (None, 0, 5), (None, 0, 5), (True, False)):
            A = {"axisp1_idx": v1, "axisp2_idx": v2, "opoint_idx": vo, "more_than_two": m}
            got = tuple(classify(value(env[h], A)) for h in H)
            want = expected(A)
            total += 1
            for h, g, w in zip(H, got, want):
                if g != w:
                    bad.append((h, dict(A), w, g))
    except Unknown as e:
        raise AnalysisError("D7: hint resolution uses a construct outside the table language: %s" % e)
    floor("D7", "hint combinations", total, 54)
    for h in H:
        b = [x for x in bad if x[0] == h]
        if not b:
            d = "%s: all %d combinations of (None / 0 / other index) hints resolve as documented" % (h, total)
        else:
            _, A, w, g = b[0]
            d = "%s resolves WRONGLY in %d of %d hint combinations; e.g. axisp1_idx=%r axisp2_idx=%r opoint_idx=%r, more than two atoms=%s: documented `%s`, code gives `%s`" % (
                h, len(b), total, A["axisp1_idx"], A["axisp2_idx"], A["opoint_idx"], A["more_than_two"], w, g)
        unknown_only = bool(b) and all(x[3].startswith("other:") for x in b)
        obs.append(Ob("D7", clause, fn, fn.node, not b, d, construct="def find_pattern_in_structure hints", slot="hint-table:%s" % h, positive=not unknown_only, undecided=unknown_only))
    return obs


# ---- formula agreement with a reference transcription ---------------------------------------------------------------------
REFERENCE_SRC = '''
def pair_coeffs(a1):
    # Lennard-Jones: UFF tabulates the distance of the minimum x1 and the well depth D1; LAMMPS lj/cut wants sigma = x1 * 2**(-1/6) and epsilon = D1
    return [UFF4MOF[a1][3], UFF4MOF[a1][2] * 2 ** (-1. / 6.)]


def bond_params(a1, a2, bond_order=None, bond_order_rules=None):
    if bond_order is None:
        bond_order = guess_bond_order(a1, a2, bond_order_rules)
    ri, zi, chii = [UFF4MOF[a1][k] for k in (0, 5, 8)]
    rj, zj, chij = [UFF4MOF[a2][k] for k in (0, 5, 8)]
    rBO = -0.1332 * (ri + rj) * log(bond_order)
    rEN = (ri * rj * (chii ** 0.5 - chij ** 0.5) ** 2) / (chii * ri + chij * rj)
    rij = ri + rj + rBO - rEN
    kij = 664.12 * zi * zj / (rij ** 3)
    return (kij / 2, rij)


def angle_params(a1, a2, a3, bond_orders=[None, None], bond_order_rules=None):
    a2_coord_is_4 = (a2[2] == "3") if len(a2) > 2 else False
    theta0deg = UFF4MOF[a2][1]
    theta0rad = theta0deg * 2 * pi / 360
    rij = bond_params(a1, a2, bond_order=bond_orders[0], bond_order_rules=bond_order_rules)[1]
    rjk = bond_params(a2, a3, bond_order=bond_orders[1], bond_order_rules=bond_order_rules)[1]
    rik = sqrt(rij ** 2 + rjk ** 2 - 2 * rij * rjk * cos(theta0rad))
    zi = UFF4MOF[a1][5]
    zk = UFF4MOF[a3][5]
    kijk = 664.12 * (zi * zk / rik ** 5) * (3 * rij * rjk * (1 - cos(theta0rad) ** 2) - (rik ** 2 * cos(theta0rad)))
    if theta0deg in [180., 120., 90.]:
        if theta0deg == 180.:
            n = 1
            b = 1
        elif theta0deg == 120.:
            n = 3
            b = -1
        elif theta0deg == 90. and a2_coord_is_4:
            n = 2
            b = -1
        elif theta0deg == 90.:
            n = 4
            b = 1
        return ('cosine/periodic', kijk, b, n)
    else:
        c2 = 1 / (4 * sin(theta0rad) ** 2)
        c1 = -4 * c2 * cos(theta0rad)
        c0 = c2 * (2 * cos(theta0rad) ** 2 + 1)
        return ('fourier', kijk, c0, c1, c2)
'''


def _fmt(x):
    return "%.10g" % x


def _decidable(tab, cond, env):
    try:
        tab.ev(cond, env)
        return True
    except Unknown:
        return False


def _fold_numeric(node):
    """value of a constant arithmetic expression (numbers, + - * / **, unary minus), else None"""
    try:
        if isinstance(node, ast.Constant) and isinstance(node.value, (int, float)) and not isinstance(node.value, bool):
            return float(node.value)
        if isinstance(node, ast.UnaryOp) and isinstance(node.op, (ast.USub, ast.UAdd)):
            v = _fold_numeric(node.operand)
            return None if v is None else (-v if isinstance(node.op, ast.USub) else v)
        if isinstance(node, ast.BinOp) and isinstance(node.op, (ast.Add, ast.Sub, ast.Mult, ast.Div, ast.Pow)):
            a, b = _fold_numeric(node.left), _fold_numeric(node.right)
            if a is None or b is None:
                return None
            return {ast.Add: a + b, ast.Sub: a - b, ast.Mult: a * b, ast.Div: a / b, ast.Pow: a ** b}[type(node.op)]
    except Exception:
        return None
    return None


def num_eval(tab, t, env, seed):
    """Numeric value of an arithmetic term with every non-arithmetic sub-term (table entries, calls of other parameter functions, opaque conditionals) replaced by a
    pseudo-random positive number that depends only on the sub-term's canonical text and the seed.  Two terms that denote the same function of their atoms get the
    same value for every seed; terms that get different values for some seed denote different functions (identity testing by random evaluation - nothing of the
    package is executed).  Raises Unknown when a sub-term cannot be canonicalised."""
    import hashlib
    import math as _m

    def atom(x):
        key = canon_expr(tab, x, env)
        h = hashlib.sha256(("%d|%s" % (seed, key)).encode()).digest()
        return 0.5 + 1.5 * (int.from_bytes(h[:6], "big") / float(1 << 48))

    def ev(x):
        if not isinstance(x, tuple):
            raise Unknown(repr(x))
        if x in env:
            v = env[x]
            if isinstance(v, (int, float)) and not isinstance(v, bool):
                return float(v)
            return atom(x)
        op = x[0]
        if op == "const":
            if isinstance(x[1], (int, float)) and not isinstance(x[1], bool):
                return float(x[1])
            return atom(x)
        if op == "free" and x[1] == "pi":
            return _m.pi
        if op == "free":
            # a module-level name: a numeric constant expression is folded, a literal table is an atom, anything else is unknown
            try:
                m_, v_ = tab.repo.table(x[1])
            except Exception:
                raise Unknown("free name %s" % x[1])
            cv = _fold_numeric(v_)
            if cv is not None:
                return cv
            if isinstance(v_, (ast.Dict, ast.List, ast.Tuple)):
                return atom(x)
            raise Unknown("module-level name %s is neither a number nor a literal table" % x[1])
        if op == "attr" and len(x) == 3 and x[2] == "pi":
            return _m.pi
        if op in ("add", "mul"):
            vals = [ev(y) for y in x[1:]]
            out = 0.0 if op == "add" else 1.0
            for v in vals:
                out = out + v if op == "add" else out * v
            return out
        if op == "sub":
            return ev(x[1]) - ev(x[2])
        if op == "neg":
            return -ev(x[1])
        if op == "div":
            return ev(x[1]) / ev(x[2])
        if op == "pow":
            return ev(x[1]) ** ev(x[2])
        if op in ("call", "mcall"):
            name = x[1] if op == "call" else x[2]
            args = x[2][1:] if op == "call" else x[3][1:]
            kws = (x[3] if op == "call" else x[4])
            if name in ("sqrt", "log", "cos", "sin", "exp", "abs", "fabs") and len(args) == 1 and kws == ("kws",) and (op == "call" or (isinstance(x[1], tuple) and x[1][0] == "free")):
                v = ev(args[0])
                return {"sqrt": _m.sqrt, "log": _m.log, "cos": _m.cos, "sin": _m.sin, "exp": _m.exp, "abs": abs, "fabs": abs}[name](v)
            return atom(x)
        if op in ("phi", "ifexp") and len(x) == 4:
            if _canon(x).startswith("BO("):
                return atom(x)          # the bond-order conditional (given order or guessed one) is an atom of the formulas on both sides
            c = tab.ev(x[1], env)       # an undecidable conditional makes the comparison undecided (Unknown propagates)
            return ev(x[2] if c else x[3])
        return atom(x)
    try:
        return ev(t)
    except (ValueError, ZeroDivisionError, OverflowError):
        raise Unknown("numeric evaluation left the domain")


def _mentions_table_literal(t):
    if isinstance(t, tuple):
        if t and t[0] == "dict":
            return True
        return any(_mentions_table_literal(x) for x in t)
    return False


def canon_expr(tab, t, env):
    """Canonical text of an arithmetic term modulo associativity, commutativity, constant folding, a-b = a+(-1)b, x/y = x*y^-1,
    sqrt(x) = x^0.5.  Sub-terms that are not arithmetic are kept as canonical atoms."""
    if not isinstance(t, tuple):
        return repr(t)
    if t in env:
        v = env[t]
        return "const(%r)" % (v,)
    op = t[0]
    if op == "const":
        v = t[1]
        return _fmt(float(v)) if isinstance(v, (int, float)) and not isinstance(v, bool) else repr(v)
    if op in ("phi", "ifexp") and not _canon(t).startswith("BO("):
        try:
            c_ = tab.ev(t[1], env)
        except Unknown:
            # the condition is not a table condition (e.g. `bond_order is None`): keep the conditional as an opaque, canonically printed atom
            return "%s(%s ? %s : %s)" % (op, _canon(t[1]), canon_expr(tab, t[2], env), canon_expr(tab, t[3], env))
        return canon_expr(tab, t[2] if c_ else t[3], env)
    if op in ("add", "sub", "neg", "mul", "div", "pow") or (op == "call" and t[1] == "sqrt"):
        terms = {}

        def add_terms(x, sign):
            if isinstance(x, tuple) and x[0] == "add":
                for y in x[1:]:
                    add_terms(y, sign)
            elif isinstance(x, tuple) and x[0] == "sub":
                add_terms(x[1], sign)
                add_terms(x[2], -sign)
            elif isinstance(x, tuple) and x[0] == "neg":
                add_terms(x[1], -sign)
            elif isinstance(x, tuple) and x[0] in ("phi", "ifexp") and not _canon(x).startswith("BO(") and _decidable(tab, x[1], env):
                add_terms(x[2] if tab.ev(x[1], env) else x[3], sign)
            else:
                c, atoms = _mono(tab, x, env)
                key = tuple(sorted((k, round(e, 9)) for k, e in atoms.items()))
                terms[key] = terms.get(key, 0.0) + sign * c
        add_terms(t, 1)
        parts = []
        for key, c in sorted(terms.items()):
            if abs(c) < 1e-14:
                continue
            parts.append("%s*{%s}" % (_fmt(c), ",".join("%s^%s" % (k, _fmt(e)) for k, e in key)))
        if len(parts) == 1:
            return parts[0]
        return "SUM[" + " + ".join(parts) + "]"
    if op == "call":
        kws = t[3][1:] if len(t) > 3 and isinstance(t[3], tuple) and t[3] and t[3][0] == "kws" else ()
        return "%s(%s)" % (t[1], ",".join([canon_expr(tab, x, env) for x in t[2][1:]] + ["%s=%s" % (k, canon_expr(tab, v, env)) for k, v in kws]))
    if op == "mcall":
        kws = t[4][1:] if len(t) > 4 and isinstance(t[4], tuple) and t[4] and t[4][0] == "kws" else ()
        return "%s.%s(%s)" % (canon_expr(tab, t[1], env), t[2], ",".join([canon_expr(tab, x, env) for x in t[3][1:]] + ["%s=%s" % (k, canon_expr(tab, v, env)) for k, v in kws]))
    if op == "param":
        return t[1]
    if op == "free":
        return t[1]
    if op == "sub[]":
        # a lookup in a literal table (dict / list of constants, possibly through .get) is folded when its key is decided by the environment
        if _mentions_table_literal(t[1]) or tab._small_table(t[1]):
            try:
                v = tab.ev(t, env)
                if isinstance(v, (int, float)) and not isinstance(v, bool):
                    return _fmt(float(v))
                if isinstance(v, str) or v is None:
                    return repr(v)
            except Unknown:
                pass
            except Exception:
                pass
        return "%s[%s]" % (canon_expr(tab, t[1], env), canon_expr(tab, t[2], env))
    if op == "list":
        return "[" + ",".join(canon_expr(tab, x, env) for x in t[1:]) + "]"
    return _canon(t)


def _mono(tab, t, env):
    """monomial with canonical atoms (sums inside products become canonical atoms)"""
    if not isinstance(t, tuple):
        raise Unknown(repr(t))
    op = t[0]
    if t in env and isinstance(env[t], (int, float)) and not isinstance(env[t], bool):
        return float(env[t]), {}
    if op == "const" and isinstance(t[1], (int, float)) and not isinstance(t[1], bool):
        return float(t[1]), {}
    if op in ("phi", "ifexp") and not _canon(t).startswith("BO("):
        if not _decidable(tab, t[1], env):
            return 1.0, {canon_expr(tab, t, env): 1}
        return _mono(tab, t[2] if tab.ev(t[1], env) else t[3], env)
    if op == "mul":
        c, atoms = 1.0, {}
        for x in t[1:]:
            c2, a2 = _mono(tab, x, env)
            c *= c2
            for k, e in a2.items():
                atoms[k] = atoms.get(k, 0) + e
        return c, {k: e for k, e in atoms.items() if abs(e) > 1e-12}
    if op == "div":
        c1, a1 = _mono(tab, t[1], env)
        c2, a2 = _mono(tab, t[2], env)
        if c2 == 0:
            raise Unknown("division by the constant 0")
        atoms = dict(a1)
        for k, e in a2.items():
            atoms[k] = atoms.get(k, 0) - e
        return c1 / c2, {k: e for k, e in atoms.items() if abs(e) > 1e-12}
    if op == "neg":
        c, a = _mono(tab, t[1], env)
        return -c, a
    if op == "pow":
        try:
            ec, ea = _mono(tab, t[2], env)
        except Unknown:
            ec, ea = None, {"?": 1}
        if not ea and ec is not None:
            c, a = _mono(tab, t[1], env)
            if not a:
                try:
                    return c ** ec, {}
                except Exception:
                    raise Unknown("constant power")
            if c < 0 and ec != int(ec):
                return 1.0, {canon_expr(tab, t, env): 1}
            return c ** ec, {k: e * ec for k, e in a.items()}
        return 1.0, {"pow(%s,%s)" % (canon_expr(tab, t[1], env), canon_expr(tab, t[2], env)): 1}
    if op == "call" and t[1] == "sqrt" and len(t[2]) == 2:
        c, a = _mono(tab, t[2][1], env)
        if c < 0:
            return 1.0, {canon_expr(tab, t, env): 1}
        if len(a) == 1 and list(a)[0].startswith("SUM["):
            return math.sqrt(c), {k: e * 0.5 for k, e in a.items()}
        return math.sqrt(c), {k: e * 0.5 for k, e in a.items()}
    if op in ("add", "sub"):
        return 1.0, {canon_expr(tab, t, env): 1}
    return 1.0, {canon_expr(tab, t, env): 1}


def _numeric_features(tab):
    """extend the domains: a (maximal) feature ordered against numeric literals takes values around each literal; comparisons inside the
    definition of a larger feature belong to that feature and are not enumerated separately"""
    extra = {}

    def scan(t):
        if not isinstance(t, tuple):
            return
        if t and t[0] in _CMP_OPS and len(t) == 3:
            feats = []
            for a, b in ((t[1], t[2]), (t[2], t[1])):
                if t[0] in ("gt", "ge", "lt", "le") and isinstance(b, tuple) and b and b[0] == "const" and isinstance(b[1], (int, float)) and not isinstance(b[1], bool) \
                        and not tab._is_feature(a):
                    # a numeric argument compared through a conditional re-binding (`bond_order = guess if None else bond_order; bond_order > 1`)
                    for pn in _params_in(a) & set(NUM_PARAMS):
                        extra.setdefault(("param", pn), set()).update({b[1] - 0.5, b[1], b[1] + 0.5})
                if tab._is_feature(a):
                    feats.append(a)
                    if t[0] in ("gt", "ge", "lt", "le") and isinstance(b, tuple) and b[0] == "const" and isinstance(b[1], (int, float)) and not isinstance(b[1], bool):
                        extra.setdefault(a, set()).update({b[1] - 1, b[1], b[1] + 1})
                elif isinstance(a, tuple) and a and a[0] in ("set", "list"):
                    for el in a[1:]:
                        if tab._is_feature(el):
                            feats.append(el)
            for x in (t[1], t[2]):
                if x in feats:
                    continue
                if isinstance(x, tuple) and x and x[0] in ("set", "list"):
                    for el in x[1:]:
                        if el not in feats:
                            scan(el)
                else:
                    scan(x)
            return
        for x in t:
            scan(x)
    for conds, leaf in tab.dl:
        for c in conds:
            scan(c)
        scan(leaf)
    return extra


def D8_formula_reference(repo, clause, funcs=("pair_coeffs", "bond_params", "angle_params")):
    obs = []
    ref_mod = ast.parse(REFERENCE_SRC)
    refs = {n.name: n for n in ref_mod.body if isinstance(n, ast.FunctionDef)}
    # bond_params and guess_bond_order are symmetric in their two types (rule D1 proves it on the same tree)
    nz = Normalizer({"bond_params": [[(0,), (1,)]], "guess_bond_order": [[(0,), (1,)]]})
    for name in funcs:
        fn = repo.fn(name, module="mofun.rough_uff")
        ref = refs[name]
        want_params = [a.arg for a in ref.args.args]
        if fn.params != want_params:
            raise AnalysisError("D8: signature of %s changed (%s)" % (name, fn.params))
        binding = {p: P(p) for p in fn.params}
        try:
            dl_c = decision_list(fn.node, dict(binding), nz)
            dl_r = decision_list(ref, dict(binding), nz)
        except AnalysisError as e:
            raise AnalysisError("D8: %s: %s" % (name, e))
        tc, tr = Table(repo, dl_c), Table(repo, dl_r)
        feats = {}
        for tb in (tc, tr):
            for f, sets in tb.features.items():
                feats.setdefault(f, set()).update(sets)
        numeric = {}
        for tb in (tc, tr):
            for f, vals in _numeric_features(tb).items():
                numeric.setdefault(f, set()).update(vals)
        doms = {}
        for f in set(feats) | set(numeric):
            vals = set()
            for s_ in feats.get(f, ()):
                vals |= set(s_)
            vals |= numeric.get(f, set())
            vals = sorted(vals, key=repr)
            if not any(isinstance(v, (int, float)) for v in vals):
                vals.append("?other?")
            else:
                vals.append(12345.678)
            doms[f] = vals
        # nested features (a feature that occurs inside another feature's definition) are evaluated, not enumerated
        doms = drop_derived_features((tc, tr), doms)
        order = sorted(doms, key=lambda f: len(repr(f)))
        total = 0
        mism = []
        undecidable = None
        for combo in itertools.product(*[doms[f] for f in order]) if order else [()]:
            env = dict(zip(order, combo))
            total += 1
            if total > 20000:
                raise AnalysisError("D8: %s: abstract domain too large" % name)
            try:
                ic, lc = tc.decide(env)
                ir, lr = tr.decide(env)
            except Unknown as e:
                undecidable = str(e)
                break
            if lr is None:
                continue            # outside the reference's domain (no path) - not part of the documented behaviour
            kc = "none" if lc is None else lc[0]
            if lc is None or lc[0] != lr[0]:
                mism.append((env, "leaf kind", kc, lr[0], True))
                continue
            if lc[0] == "raise":
                continue
            vc, vr = lc[1], lr[1]
            ec = list(vc[1:]) if vc[0] == "list" else [vc]
            er = list(vr[1:]) if vr[0] == "list" else [vr]
            if len(ec) != len(er):
                mism.append((env, "arity", len(ec), len(er), True))
                continue
            for j, (x, y) in enumerate(zip(ec, er)):
                try:
                    cx, cy = canon_expr(tc, x, env), canon_expr(tr, y, env)
                except Unknown as e:
                    undecidable = str(e)
                    break
                if cx != cy:
                    # the normal forms differ in spelling: identity testing by random evaluation of the two terms over their atoms decides whether they are the same function
                    try:
                        vals = [(num_eval(tc, x, env, sd), num_eval(tr, y, env, sd)) for sd in (1, 2, 3, 4, 5)]
                        same_fn = all(abs(a_ - b_) <= 1e-9 * max(1.0, abs(a_), abs(b_)) for a_, b_ in vals)
                        decided = True
                    except Unknown:
                        same_fn, decided = False, False
                    if decided and same_fn:
                        continue
                    # positive when the two normal forms have the same shape and differ only in numbers (a coefficient, an exponent, a sign,
                    # a table column, a returned constant), or when the random evaluation separates them
                    import re as _re
                    shape = lambda z: _re.sub(r"-?\d+(\.\d+)?(e-?\d+)?", "#", z)
                    pos = shape(cx) == shape(cy) or decided
                    mism.append((env, "element %d" % j, cx, cy, pos))
            if undecidable:
                break
        if undecidable:
            raise AnalysisError("D8: %s uses a construct outside the table language: %s" % (name, undecidable))
        floor("D8", "abstract inputs of %s" % name, total, 1)
        if not mism:
            obs.append(Ob("D8", clause, fn, fn.node, True,
                          "%s: on all %d abstract inputs the returned terms equal the documented formulas (normal form modulo associativity, commutativity, constant folding)" % (name, total),
                          construct="def %s" % name, slot="formula:%s" % name, positive=False))
        else:
            env, what, got, want, pos = mism[0]
            anypos = any(m[4] for m in mism)
            envtxt = ", ".join("%s=%r" % (_canon(k)[:30], v) for k, v in env.items()) or "(no case analysis)"
            obs.append(Ob("D8", clause, fn, fn.node, False,
                          "%s DEVIATES from the documented formula on %d of %d abstract inputs; e.g. %s: %s is `%s`, documented `%s`" % (
                              name, len({repr(m[0]) for m in mism}), total, envtxt, what, str(got)[:160], str(want)[:160]),
                          construct="def %s" % name, slot="formula:%s" % name, positive="robust" if anypos else False, undecided=not anypos))
    return obs


def D9_type_string_parsing(repo, clause):
    """UFF type labels are five-character mnemonics: characters 0-1 are the element (padded with '_'), character 2 the
    hybridisation / geometry.  dihedral_params derives both with string operations; constant-folding those operations over every
    key of the UFF4MOF table must give the element and the hybridisation character of that key."""
    fn = repo.fn("dihedral_params")
    nz = Normalizer({})
    dl = decision_list(fn.node, {p: P(p) for p in fn.params}, nz)
    tab = Table(repo, dl)
    try:
        m, v = repo.table("UFF4MOF")
        keys = [k.value for k in v.keys if isinstance(k, ast.Constant) and isinstance(k.value, str)]
    except Exception as e:
        raise AnalysisError("D9: UFF4MOF table not readable: %s" % e)
    floor("D9", "UFF4MOF keys", len(keys), 200)

    def fold(t, s):
        """constant-fold a feature term with its type parameter bound to the string s"""
        if not isinstance(t, tuple):
            raise Unknown(repr(t))
        op = t[0]
        if op == "param":
            return s
        if op == "const":
            return t[1]
        if op == "sub[]":
            base = fold(t[1], s)
            i = t[2]
            if isinstance(i, tuple) and i[0] == "slice":
                lo = fold(i[1], s) if i[1] is not None else None
                hi = fold(i[2], s) if i[2] is not None else None
                st = fold(i[3], s) if i[3] is not None else None
                return base[lo:hi:st]
            return base[fold(i, s)]
        if op == "mcall" and t[2] in ("strip", "rstrip", "lstrip", "lower", "upper", "title", "split", "rsplit", "partition", "rpartition", "replace") and isinstance(fold(t[1], s), str):
            r_ = getattr(fold(t[1], s), t[2])(*[fold(a, s) for a in t[3][1:]])
            return tuple(r_) if isinstance(r_, list) else r_
        if op == "call" and t[1] == "len":
            return len(fold(t[2][1], s))
        if op in ("ifexp",):
            return fold(t[2], s) if fold(t[1], s) else fold(t[3], s)
        if op in ("gt", "ge", "lt", "le", "eq", "ne"):
            a, b = fold(t[1], s), fold(t[2], s)
            return {"gt": a > b, "ge": a >= b, "lt": a < b, "le": a <= b, "eq": a == b, "ne": a != b}[op]
        raise Unknown(repr(t)[:60])
    obs = []
    kinds = {}
    for f in tab.features:
        lits = set().union(*tab.features[f]) if tab.features[f] else set()
        kind = "el" if lits & CHALCOGENS else ("h" if lits & {"1", "2", "3", "R"} else None)
        if kind:
            kinds.setdefault(kind, []).append(f)
    for kind, want in (("el", lambda k: k[0:2].strip("_")), ("h", lambda k: k[2] if len(k) > 2 else None)):
        fs = kinds.get(kind, [])
        if not fs:
            raise AnalysisError("D9: no %s feature found in dihedral_params" % kind)
        bad = []
        try:
            for f in fs:
                for k in keys:
                    got = fold(f, k)
                    w = want(k)
                    if kind == "h":
                        same = (got == w) or (w is None and got not in ("1", "2", "3", "R"))
                    else:
                        same = got == w
                    if not same:
                        bad.append((k, got, w))
        except Unknown as e:
            raise AnalysisError("D9: %s of a type label is derived by a construct outside the folding language: %s" % (kind, e))
        except Exception as e:
            raise AnalysisError("D9: folding failed: %s" % e)
        obs.append(Ob("D9", clause, fn, fn.node, not bad,
                      "%s of every UFF4MOF key (%d keys x %d uses): %s" % ("element" if kind == "el" else "hybridisation character", len(keys), len(fs),
                                                                         "derived correctly from the label" if not bad else
                                                                         "WRONG for %d key uses, e.g. %r gives %r instead of %r" % (len(bad), bad[0][0], bad[0][1], bad[0][2])),
                      construct="def dihedral_params type labels", slot="type-label:%s" % kind, positive=True))
    return obs
