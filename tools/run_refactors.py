"""Apply every recorded behaviour-preserving refactoring (refactors/*/refactor_*.diff) to a scratch copy of /repo and
evaluate all checks: never a violation; 'cannot decide' is acceptable and reported."""
import glob
import os
import sys
from multiprocessing import Pool

ROOT = os.path.dirname(os.path.dirname(os.path.abspath(__file__)))
sys.path.insert(0, ROOT)
from selftest import harness  # noqa: E402
from selftest.corpus import _run_patch_variant  # noqa: E402

root = os.environ.get("VERIF_REPO", "/repo")
base = harness.evaluate(root)
jobs = [(root, os.path.basename(os.path.dirname(p)) + "-" + os.path.basename(p)[9:-5], p, None)
        for p in sorted(glob.glob(os.path.join(ROOT, "refactors", "*", "refactor_*.diff")))]
with Pool(16) as pool:
    res = pool.map(_run_patch_variant, jobs)
nfv = nund = 0
for vid, r in res:
    if r is None:
        print(vid, "patch does not apply")
        continue
    new, err = harness.diff_against(base, r)
    if new:
        nfv += 1
    if err:
        nund += 1
    print(vid, "FALSE-VIOLATION" if new else "ok", {p: k[:2] for p, k in new.items()}, "| undecided:", sorted(err))
print("refactorings: %d, with a false violation: %d, with undecided properties: %d" % (len(res), nfv, nund))
