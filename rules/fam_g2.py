"""Generic rules, part 2: library-semantics pitfalls (G32), fault discipline (G33: validate before the irreversible effect; resources of the caller), loop-carried
scratch state (G34).  Like every G rule these judge a contradiction inside the analysed code itself and do not rest on the confirmed shape of a function."""
import ast

from verif_sa.core import Ob, AnalysisError, FileObj  # noqa: F401
from verif_sa.facts import call_name, dotted
from verif_sa.dataflow import expand
from .common import const_value, norm_guards, implied_min_len, loop_paths
from .fam_g import _scope_fns, ALL_LIB, boolness

TERM_ATTRS = ("bonds", "angles", "dihedrals", "impropers")


def _np(c):
    return isinstance(c.func, ast.Attribute) and isinstance(c.func.value, ast.Name) and c.func.value.id in ("np", "numpy")


def _numpy_callers(repo, fn, param):
    """Call sites in the package that pass a numpy array for `param` of fn."""
    out = []
    pos = [p_ for p_ in fn.params if p_ not in ("self", "cls")]
    for f2 in repo.all_fns():
        for call in [y for y in f2.own_nodes() if isinstance(y, ast.Call) and call_name(y) == fn.name]:
            a = None
            if param in pos and pos.index(param) < len(call.args):
                a = call.args[pos.index(param)]
            for k in call.keywords:
                if k.arg == param:
                    a = k.value
            if a is None:
                continue
            try:
                e = expand(f2, a)
            except Exception:
                e = a
            if any(isinstance(y, ast.Call) and call_name(y) in ("array", "asarray", "ceil", "floor", "arange", "astype", "rint") for y in ast.walk(e)):
                out.append((f2, call))
    return out


def _is_term_array(fn, e, depth=3):
    """Expression that holds rows of atom indices: obj.bonds / .angles / ..., a conversion of one, or a parameter that callers fill with one."""
    if isinstance(e, ast.Attribute) and e.attr in TERM_ATTRS:
        return True
    if depth <= 0:
        return False
    if isinstance(e, ast.Call) and e.args and call_name(e) in ("array", "asarray", "flip", "sort", "copy", "convert2structureindex", "append", "reshape"):
        return _is_term_array(fn, e.args[0], depth - 1) or (isinstance(e.func, ast.Attribute) and _is_term_array(fn, e.func.value, depth - 1))
    if isinstance(e, ast.Name):
        if fn.stmt_of(e) is not None:
            uv = fn.rd.unique_value(e)
            if uv is not None:
                return _is_term_array(fn, uv[1], depth - 1)
        if e.id in fn.params:
            # nested helper: what do the call sites in the outer function pass?
            outer = fn.outer
            if outer is not None:
                pos = list(fn.params)
                for c in [y for y in outer.own_nodes() if isinstance(y, ast.Call) and isinstance(y.func, ast.Name) and y.func.id == fn.name]:
                    i = pos.index(e.id)
                    if i < len(c.args) and _is_term_array(outer, c.args[i], depth - 1):
                        return True
    return False


def G32_library_semantics(repo, clause, scope=ALL_LIB):
    """Natural-looking uses of Python / numpy facilities whose exact semantics are not what the surrounding code needs:
    (a) str.strip / lstrip / rstrip with an argument computed from the DATA of the current item removes any run of those CHARACTERS, not that prefix (literals and module constants are intended character sets);
    (b) str.split(' ') with a one-blank literal yields empty tokens for runs of blanks, split() does not;
    (c) an np.vectorize object built without `otypes` raises ValueError on size-0 input: it may only be applied under a non-emptiness guard of its argument;
    (d) np.reciprocal of an array that may hold integers (a cell handed in by the user) is integer reciprocal: 0 for every entry > 1;
    (e) np.isin(rows, other_rows).all(axis=1) asks whether every ELEMENT of a row occurs somewhere in the other table, not whether the ROW occurs there;
    (f) np.isclose / np.allclose with the default rtol on rows of atom indices (integers: 100000 and 100001 are "close"), and `x < c` weakened by `& ~np.isclose(x, c)`;
    (g) an array created with `dtype=<other array>.dtype` from strings: a fixed-width string dtype truncates longer entries ('Cl' -> 'C');
    (h) `param == <tuple / list literal>` as an `if` test while some caller passes a numpy array for that parameter (element-wise result: ValueError)."""
    obs = []
    fns = _scope_fns(repo, scope)
    cnt = dict.fromkeys("abcdefgh", 0)
    for fn in fns:
        nodes = fn.own_nodes()
        # names bound to np.vectorize(...) without otypes
        vec = {}
        for st in nodes:
            if isinstance(st, ast.Assign) and len(st.targets) == 1 and isinstance(st.targets[0], ast.Name) and isinstance(st.value, ast.Call) \
                    and call_name(st.value) == "vectorize" and not any(k.arg == "otypes" for k in st.value.keywords):
                vec[st.targets[0].id] = st
        for c in [x for x in nodes if isinstance(x, ast.Call)]:
            nm = call_name(c)
            # (a)
            if nm in ("strip", "lstrip", "rstrip") and isinstance(c.func, ast.Attribute) and len(c.args) == 1:
                a = c.args[0]
                v = const_value(a)
                bad = None
                # an argument built from DATA of the current item (a token of the line, a local computed here) is meant as "this prefix"; a literal or a module-level constant
                # (string.digits, QUOTES) is an ordinary, intended character set and is not judged
                if v is None and not isinstance(a, ast.Constant):
                    local_names = {x.id for x in fn.all_nodes() if isinstance(x, ast.Name) and isinstance(x.ctx, ast.Store)} | set(fn.params)
                    if any(isinstance(y, ast.Subscript) or (isinstance(y, ast.Name) and y.id in local_names) for y in ast.walk(a)):
                        bad = "an argument computed from the data (`%s`)" % ast.unparse(a)[:30]
                cnt["a"] += 1
                if bad:
                    obs.append(Ob("G32", clause, fn, c, False,
                                  "`%s` in %s passes %s to %s(): the argument is a SET OF CHARACTERS, every leading/trailing character that is in the set is removed - not the one prefix/suffix "
                                  "(` 1 100.0`.lstrip('1 ') also eats the leading 1 of the number that follows the id)" % (ast.unparse(c)[:60], fn.qualname, bad, nm),
                                  slot="strip-charset:%s" % fn.qualname, positive="robust"))
            # (b)
            if nm in ("split", "rsplit") and isinstance(c.func, ast.Attribute) and c.args and const_value(c.args[0]) == " ":
                cnt["b"] += 1
                obs.append(Ob("G32", clause, fn, c, False,
                              "`%s` in %s splits at every single blank: two blanks in a row, a leading or a trailing blank give EMPTY tokens (split() treats runs of whitespace as one separator), "
                              "so a reference list such as 'a1  a2' no longer names two atoms" % (ast.unparse(c)[:60], fn.qualname), slot="split-one-blank:%s" % fn.qualname, positive="robust"))
            # (c)
            target = None
            if isinstance(c.func, ast.Name) and c.func.id in vec:
                target = vec[c.func.id]
            elif isinstance(c.func, ast.Call) and call_name(c.func) == "vectorize" and not any(k.arg == "otypes" for k in c.func.keywords):
                target = c.func
            if target is not None and c.args:
                cnt["c"] += 1
                arg_txt = ast.unparse(c.args[0])
                guarded = False
                for t, pol, k in norm_guards(fn, c):
                    parts = [t]
                    if isinstance(t, ast.BoolOp) and isinstance(t.op, ast.And) and pol:
                        parts = list(t.values)
                    for pt in parts:
                        ml = implied_min_len(pt, pol)
                        if ml is not None and ml[1] >= 1 and ast.unparse(ml[0]) == arg_txt:
                            guarded = True
                        if isinstance(pt, ast.Compare) and len(pt.ops) == 1 and isinstance(pt.left, ast.Attribute) and pt.left.attr == "size" \
                                and ast.unparse(pt.left.value) == arg_txt and ((isinstance(pt.ops[0], ast.Gt) and const_value(pt.comparators[0]) == 0 and pol)
                                                                               or (isinstance(pt.ops[0], ast.Eq) and const_value(pt.comparators[0]) == 0 and not pol)):
                            guarded = True
                obs.append(Ob("G32", clause, fn, c, guarded,
                              "`%s` in %s applies an np.vectorize object built without otypes %s" % (
                                  ast.unparse(c)[:60], fn.qualname, "under a non-emptiness guard of its argument" if guarded else
                                  "with NO non-emptiness guard of `%s`: np.vectorize cannot determine its output type from size-0 input and raises ValueError (a molecule without bonds, "
                                  "an empty selection)" % arg_txt[:40]),
                              slot="vectorize-empty:%s" % fn.qualname, positive="robust"))
            # (d)
            if nm == "reciprocal" and _np(c) and c.args:
                cnt["d"] += 1
                a = c.args[0]
                try:
                    e = expand(fn, a)
                except Exception:
                    e = a
                floaty = any(isinstance(y, ast.Call) and (call_name(y) in ("float", "astype", "float64", "asfarray") or any(k.arg == "dtype" for k in y.keywords)) for y in ast.walk(e)) \
                    or any(k.arg == "dtype" for k in c.keywords) or any(isinstance(y, ast.BinOp) and isinstance(y.op, ast.Div) for y in ast.walk(e))
                obs.append(Ob("G32", clause, fn, c, floaty,
                              "`%s` in %s: np.reciprocal keeps the dtype of its argument%s" % (ast.unparse(c)[:60], fn.qualname, "; the argument is converted to float first" if floaty else
                                                                                               " - for an integer array (a cell given as [[10,0,0],[0,12,0],[0,0,14]]) the result is 0 for every entry > 1; "
                                                                                               "1.0 / x is meant"),
                              slot="int-reciprocal:%s" % fn.qualname, positive="robust"))
            # (e)
            if nm in ("isin", "in1d") and len(c.args) >= 2:
                par = fn.parents.get(c)
                rowwise_all = False
                if isinstance(par, ast.Attribute) and par.attr == "all":
                    call2 = fn.parents.get(par)
                    rowwise_all = isinstance(call2, ast.Call) and (any(k.arg == "axis" and const_value(k.value) in (1, -1) for k in call2.keywords) or
                                                                   (call2.args and const_value(call2.args[0]) in (1, -1)))
                if isinstance(par, ast.Call) and call_name(par) == "all" and par.args and par.args[0] is c:
                    rowwise_all = any(k.arg == "axis" and const_value(k.value) in (1, -1) for k in par.keywords) or (len(par.args) > 1 and const_value(par.args[1]) in (1, -1))
                if rowwise_all:
                    cnt["e"] += 1
                    both_terms = _is_term_array(fn, c.args[0]) and _is_term_array(fn, c.args[1])
                    if both_terms:
                        obs.append(Ob("G32", clause, fn, c, False,
                                      "`%s(...).all(axis=1)` in %s matches ROWS of one table of terms against another by element-wise membership: a row counts as found when each of its atoms "
                                      "occurs ANYWHERE in the other table (angle (1,0,2) is 'found' in [(1,0,3),(2,0,4)]), so terms between other atoms are treated as superseded"
                                      % (ast.unparse(c.func), fn.qualname), slot="isin-rowwise:%s" % fn.qualname, positive="robust"))
            # (f)
            if nm in ("isclose", "allclose") and _np(c) and len(c.args) >= 2 and len(c.args) < 3 and not any(k.arg == "rtol" for k in c.keywords):
                if _is_term_array(fn, c.args[0]) or _is_term_array(fn, c.args[1]):
                    cnt["f"] += 1
                    obs.append(Ob("G32", clause, fn, c, False,
                                  "`%s` in %s compares rows of ATOM INDICES with a floating-point closeness test: the default rtol = 1e-5 makes index 100000 'close' to 100001, so terms on "
                                  "neighbouring atoms of a large structure are taken for the same term - identity of integers is `==`" % (ast.unparse(c)[:60], fn.qualname),
                                  slot="isclose-on-indices:%s" % fn.qualname, positive="robust"))
                par = fn.parents.get(c)
                if isinstance(par, ast.UnaryOp) and isinstance(par.op, ast.Invert):
                    gp = fn.parents.get(par)
                    if isinstance(gp, ast.BinOp) and isinstance(gp.op, ast.BitAnd):
                        other = gp.left if gp.right is par else gp.right
                        while isinstance(other, ast.Expr):
                            other = other.value
                        if isinstance(other, ast.Compare) and len(other.ops) == 1 and isinstance(other.ops[0], (ast.Lt, ast.Gt)):
                            cmp_ops = {ast.unparse(other.left), ast.unparse(other.comparators[0])}
                            if {ast.unparse(c.args[0]), ast.unparse(c.args[1])} == cmp_ops:
                                cnt["f"] += 1
                                obs.append(Ob("G32", clause, fn, gp, False,
                                              "`%s` in %s removes from a strict inequality everything np.isclose calls equal: with the default rtol = 1e-5 (and atol = 1e-8) a value that is "
                                              "genuinely below the bound by less than 1e-5 * bound is excluded too - the criterion is no longer `<`" % (ast.unparse(gp)[:70], fn.qualname),
                                              slot="strict-minus-isclose:%s" % fn.qualname, positive="robust"))
            # (g)
            if nm in ("array", "asarray", "empty", "zeros", "full") and _np(c):
                for k in c.keywords:
                    if k.arg == "dtype" and isinstance(k.value, ast.Attribute) and k.value.attr == "dtype":
                        cnt["g"] += 1
                        src = c.args[0] if c.args else None
                        stringy = src is not None and any((isinstance(y, ast.Attribute) and y.attr in ("elements", "symbols", "atom_type_elements", "atom_type_labels")) or
                                                          (isinstance(y, ast.Constant) and isinstance(y.value, str)) for y in ast.walk(src))
                        if stringy:
                            obs.append(Ob("G32", clause, fn, c, False,
                                          "`%s` in %s converts element symbols with the dtype of ANOTHER string array: numpy string dtypes have a fixed width taken from the longest entry of the "
                                          "array they were made for - if that holds only one-letter symbols, 'Cl' is silently truncated to 'C' and matches carbon" % (ast.unparse(c)[:70], fn.qualname),
                                          slot="borrowed-string-dtype:%s" % fn.qualname, positive="robust"))
        # (i) results reported by printing a numpy array: numpy abbreviates arrays of more than 1000 elements with '...'
        for c in [x for x in nodes if isinstance(x, ast.Call) and isinstance(x.func, ast.Name) and x.func.id == "print" and x.args]:
            for a_ in c.args:
                arr = [y for y in ast.walk(a_) if isinstance(y, ast.Call) and call_name(y) in ("array", "asarray", "reshape", "vstack", "stack", "column_stack") and
                       (_np(y) or call_name(y) == "reshape")]
                if arr and not any(isinstance(y, ast.Call) and call_name(y) in ("tolist", "array2string", "savetxt") for y in ast.walk(a_)) and not (isinstance(a_, ast.Call) and call_name(a_) in ("len", "sum", "shape")) and \
                        not any(isinstance(y, ast.Call) and call_name(y) == "set_printoptions" for f_ in repo.all_fns() if f_.module is fn.module for y in f_.own_nodes()):
                    cnt["h"] += 1
                    obs.append(Ob("G32", clause, fn, c, False,
                                  "`%s` in %s reports results by printing a numpy array: beyond 1000 elements numpy prints the first and last three rows and '...' - the list of matches that "
                                  "the API returns complete is reported incomplete" % (ast.unparse(c)[:70], fn.qualname), slot="print-ndarray:%s" % fn.qualname, positive="robust"))
        # (h)
        for t in [x for x in nodes if isinstance(x, (ast.If, ast.IfExp, ast.While))]:
            stack, leaves = [t.test], []
            while stack:
                x_ = stack.pop()
                while isinstance(x_, ast.UnaryOp) and isinstance(x_.op, ast.Not):
                    x_ = x_.operand
                if isinstance(x_, ast.BoolOp):
                    stack.extend(x_.values)
                else:
                    leaves.append(x_)
            for lf in leaves:
                if isinstance(lf, ast.Compare) and len(lf.ops) == 1 and isinstance(lf.ops[0], (ast.Eq, ast.NotEq)):
                    l, r = lf.left, lf.comparators[0]
                    for p_, lit in ((l, r), (r, l)):
                        if isinstance(p_, ast.Name) and p_.id in fn.params and isinstance(lit, (ast.Tuple, ast.List)) and len(lit.elts) >= 2:
                            cnt["h"] += 1
                            callers = _numpy_callers(repo, fn, p_.id)
                            if callers:
                                obs.append(Ob("G32", clause, fn, lf, False,
                                              "`%s` as a truth test in %s: %s passes a numpy array for `%s` (`%s`); array == tuple is ELEMENT-WISE, and the truth value of a 3-element "
                                              "array raises ValueError - the documented call path fails for every value" % (
                                                  ast.unparse(lf), fn.qualname, callers[0][0].qualname, p_.id, ast.unparse(callers[0][1])[:50]),
                                              slot="array-eq-literal:%s:%s" % (fn.qualname, p_.id), positive="robust"))
    obs.append(Ob("G32", clause, fns[0], fns[0].node, True,
                  "%d functions in scope: %d strip(arg), %d split(' '), %d np.vectorize applications, %d np.reciprocal, %d row-wise isin, %d isclose on indices / beside a strict bound, "
                  "%d borrowed dtypes, %d parameter == literal tests inspected" % ((len(fns),) + tuple(cnt[k] for k in "abcdefgh")), construct="library semantics inventory", slot="inventory"))
    return obs


def G34_scratch_reset_on_every_path(repo, clause, scope=ALL_LIB):
    """A scratch container that is created ONCE before a loop and emptied inside the loop body (`x.clear()`, `del x[:]`, `x[:] = []`) carries the previous item's
    entries into the next iteration on every path that leaves the body without passing the reset (`continue` in a branch above a reset at the bottom)."""
    obs = []
    fns = _scope_fns(repo, scope)
    n = 0
    for fn in fns:
        for loop in [x for x in fn.own_nodes() if isinstance(x, (ast.For, ast.While))]:
            resets = {}
            for st in ast.walk(loop):
                nm = None
                if isinstance(st, ast.Expr) and isinstance(st.value, ast.Call) and isinstance(st.value.func, ast.Attribute) and st.value.func.attr == "clear" \
                        and isinstance(st.value.func.value, ast.Name) and not st.value.args:
                    nm = st.value.func.value.id
                elif isinstance(st, ast.Delete) and len(st.targets) == 1 and isinstance(st.targets[0], ast.Subscript) and isinstance(st.targets[0].value, ast.Name) \
                        and isinstance(st.targets[0].slice, ast.Slice) and st.targets[0].slice.lower is None and st.targets[0].slice.upper is None:
                    nm = st.targets[0].value.id
                elif isinstance(st, ast.Assign) and len(st.targets) == 1 and isinstance(st.targets[0], ast.Subscript) and isinstance(st.targets[0].value, ast.Name) \
                        and isinstance(st.targets[0].slice, ast.Slice) and st.targets[0].slice.lower is None and st.targets[0].slice.upper is None \
                        and isinstance(st.value, (ast.List, ast.Tuple)) and not st.value.elts:
                    nm = st.targets[0].value.id
                if nm is not None:
                    # only resets that belong to THIS loop (not to a nested one)
                    inner = [a for a in fn.ancestors(st) if isinstance(a, (ast.For, ast.While))]
                    if inner and inner[0] is loop:
                        resets.setdefault(nm, []).append(st)
            for nm, sts in resets.items():
                # re-created inside the body? then the reset is not what keeps iterations apart
                recreated = any(isinstance(x, ast.Assign) and any(isinstance(tg, ast.Name) and tg.id == nm for tg in x.targets) for x in ast.walk(loop))
                filled = any(isinstance(x, ast.Call) and isinstance(x.func, ast.Attribute) and x.func.attr in ("append", "extend", "add", "update", "insert")
                             and isinstance(x.func.value, ast.Name) and x.func.value.id == nm for x in ast.walk(loop))
                if recreated or not filled:
                    continue
                n += 1
                bad = None
                try:
                    paths = list(loop_paths(fn, loop))
                except Exception:
                    paths = []
                for path, end in paths:
                    if end in ("break", "return", "raise"):
                        continue
                    stmts = [x for x in path]
                    # first fill / first reset on this path
                    def _fills(x):
                        return any(isinstance(y, ast.Call) and isinstance(y.func, ast.Attribute) and y.func.attr in ("append", "extend", "add", "update", "insert")
                                   and isinstance(y.func.value, ast.Name) and y.func.value.id == nm for y in ([x.value] if isinstance(x, ast.Expr) else []))
                    has_reset = any(any(x is r for r in sts) for x in stmts)
                    if not has_reset:
                        bad = (path, end)
                        break
                if bad is not None:
                    last = bad[0][-1] if bad[0] else loop
                    obs.append(Ob("G34", clause, fn, sts[0], False,
                                  "scratch container `%s` in %s is created once before the loop and emptied by `%s` inside it, but a path through the loop body reaches the next iteration "
                                  "WITHOUT passing that reset (it ends at `%s`): the entries of the item that took this path are still there when the next item is processed"
                                  % (nm, fn.qualname, ast.unparse(sts[0])[:30], ast.unparse(last)[:40].split("\n")[0]), slot="scratch-reset:%s:%s" % (fn.qualname, nm), positive="robust"))
                else:
                    obs.append(Ob("G34", clause, fn, sts[0], True, "scratch container `%s` in %s is emptied on every path to the next iteration" % (nm, fn.qualname),
                                  slot="scratch-reset:%s:%s" % (fn.qualname, nm)))
    obs.append(Ob("G34", clause, fns[0], fns[0].node, True, "%d functions in scope, %d loop-carried scratch containers inspected" % (len(fns), n), construct="scratch reset inventory", slot="inventory"))
    return obs


def G35_hidden_instance_state(repo, clause):
    """Every piece of state of an Atoms object is created by the constructor (that is what copy(), subsets, extend and the writers know about).  A method other than
    __init__ that stores an attribute the constructor never assigns - `self._x = ...`, `setattr(self, ...)`, `self.__dict__[...]`, `self.__dict__.setdefault(...)`,
    `vars(self)` - and some method that reads it back makes later results depend on the HISTORY of calls on that object (a memo of the last fragment added, a table of
    offsets already handed out), which survives in-place edits of the objects it was computed from and is carried along by copy().  Judged on the raw source of
    mofun/atoms.py so that freshly added methods are seen as well."""
    obs = []
    m = repo.modules.get("mofun.atoms")
    if m is None:
        raise AnalysisError("G35: module mofun.atoms not found")
    raw = ast.parse(m.src)
    n_cls = n_store = 0
    for c in [x for x in raw.body if isinstance(x, ast.ClassDef)]:
        n_cls += 1
        init_attrs, stores, loads = set(), [], set()
        init_computed = False
        # the constructor as the engine sees it (loops over literal tables of attribute names unrolled): its stores count as well
        nf_init = repo.maybe_fn("%s.__init__" % c.name)
        if nf_init is not None:
            for x in nf_init.all_nodes():
                if isinstance(x, ast.Attribute) and isinstance(x.value, ast.Name) and x.value.id == "self" and isinstance(x.ctx, ast.Store):
                    init_attrs.add(x.attr)
        for g in [g for g in c.body if isinstance(g, ast.FunctionDef)]:
            is_setter = g.name == "__setattr__" or any((dotted(d) or "").endswith(".setter") for d in g.decorator_list)
            for x in ast.walk(g):
                tg = x.targets if isinstance(x, ast.Assign) else ([x.target] if isinstance(x, (ast.AugAssign, ast.AnnAssign)) else [])
                for t_ in tg:
                    for y in ([t_] + ([e for e in t_.elts] if isinstance(t_, (ast.Tuple, ast.List)) else [])):
                        if isinstance(y, ast.Attribute) and isinstance(y.value, ast.Name) and y.value.id == "self":
                            if g.name == "__init__":
                                init_attrs.add(y.attr)
                            elif not is_setter:
                                stores.append((g, x, y.attr))
                if isinstance(x, ast.Attribute) and isinstance(x.value, ast.Name) and x.value.id == "self" and isinstance(x.ctx, ast.Load):
                    loads.add(x.attr)
                    if x.attr == "__dict__" and g.name not in ("__getstate__", "__setstate__", "__repr__"):
                        stores.append((g, x, "__dict__"))
                if isinstance(x, ast.Call) and isinstance(x.func, ast.Name) and x.func.id in ("setattr", "vars") and x.args and isinstance(x.args[0], ast.Name) and x.args[0].id == "self":
                    nm = const_value(x.args[1]) if x.func.id == "setattr" and len(x.args) > 1 else None
                    if g.name != "__init__":
                        # setattr(self, <computed name>, v) is the loop-over-kinds spelling of ordinary stores: which attribute it names is not decided here
                        if isinstance(nm, str) or x.func.id == "vars":
                            stores.append((g, x, nm if isinstance(nm, str) else "<vars(self)>"))
                    elif isinstance(nm, str):
                        init_attrs.add(nm)
                    elif x.func.id == "setattr":
                        init_computed = True
                if isinstance(x, ast.Call) and isinstance(x.func, ast.Name) and x.func.id == "getattr" and len(x.args) >= 2 and isinstance(x.args[0], ast.Name) and x.args[0].id == "self" \
                        and isinstance(const_value(x.args[1]), str):
                    loads.add(const_value(x.args[1]))
        # class-level containers (`_cache = {}` in the class body) written by a method are state shared by ALL calls and all objects
        class_tables = {t_.id for st_ in c.body if isinstance(st_, ast.Assign) for t_ in st_.targets if isinstance(t_, ast.Name)
                        and (isinstance(st_.value, (ast.Dict, ast.List, ast.Set)) or (isinstance(st_.value, ast.Call) and call_name(st_.value) in ("dict", "list", "set", "OrderedDict", "defaultdict")))}
        for g in [g for g in c.body if isinstance(g, ast.FunctionDef)]:
            for x in ast.walk(g):
                tgt = None
                if isinstance(x, (ast.Assign, ast.AugAssign)):
                    for t_ in (x.targets if isinstance(x, ast.Assign) else [x.target]):
                        b_ = t_
                        while isinstance(b_, ast.Subscript):
                            b_ = b_.value
                        if isinstance(b_, ast.Attribute) and isinstance(b_.value, ast.Name) and b_.value.id in ("cls", "self", c.name) and b_.attr in class_tables and (b_ is not t_ or b_.value.id != "self"):
                            tgt = b_.attr
                if isinstance(x, ast.Call) and isinstance(x.func, ast.Attribute) and x.func.attr in ("append", "update", "setdefault", "add", "pop", "clear", "extend", "__setitem__") \
                        and isinstance(x.func.value, ast.Attribute) and isinstance(x.func.value.value, ast.Name) and x.func.value.value.id in ("cls", "self", c.name) and x.func.value.attr in class_tables:
                    tgt = x.func.value.attr
                if tgt is not None:
                    n_store += 1
                    obs.append(Ob("G35", clause, FileObj(m.relpath, "%s.%s" % (c.name, g.name)), x, False,
                                  "%s.%s writes the CLASS-level container `%s`: state shared by every call and every object (a cache of parsed files never sees that the file was re-written; "
                                  "results depend on what was loaded before)" % (c.name, g.name, tgt), slot="class-state:%s.%s:%s" % (c.name, g.name, tgt), positive="robust"))
        props = {g.name for g in c.body if isinstance(g, ast.FunctionDef) and any((dotted(d) or "") == "property" or (dotted(d) or "").endswith(".setter") for d in g.decorator_list)}
        seen = set()
        if init_computed and nf_init is not None and any(isinstance(x, ast.Call) and isinstance(x.func, ast.Name) and x.func.id == "setattr" and len(x.args) > 1
                                                        and not isinstance(const_value(x.args[1]), str) for x in nf_init.all_nodes()):
            # the constructor creates attributes under computed names that the normalisation could not resolve: the set of constructor fields is unknown
            stores = [t_ for t_ in stores if t_[2] in ("__dict__", "<vars(self)>")]
        for g, x, attr in stores:
            if attr in init_attrs or attr in props or (g.name, attr) in seen:
                continue
            seen.add((g.name, attr))
            n_store += 1
            read_back = attr in loads or attr.startswith("<") or attr == "__dict__"
            if read_back:
                obs.append(Ob("G35", clause, FileObj(m.relpath, "%s.%s" % (c.name, g.name)), x, False,
                              "%s.%s keeps state in `%s`, which the constructor never creates, and it is read back later: what the method does now depends on EARLIER calls on this object "
                              "(a remembered fragment / offsets / flag), survives in-place edits of the objects it was derived from, and travels with copy()" % (c.name, g.name, attr),
                              slot="hidden-state:%s.%s:%s" % (c.name, g.name, attr), positive="robust"))
    obs.append(Ob("G35", clause, FileObj(m.relpath, "mofun.atoms"), raw.body[0], True, "%d classes in mofun/atoms.py, %d stores of attributes unknown to the constructor outside __init__ inspected" % (n_cls, n_store),
                  construct="hidden state inventory", slot="inventory"))
    return obs


def G33_effect_before_validation(repo, clause, funcs=("Atoms.save", "Atoms.load", "Atoms.load_cml", "Atoms.load_lmpdat", "Atoms.load_p1_cif", "Atoms.save_lmpdat", "Atoms.save_p1_cif")):
    """Fault discipline of the readers / writers:
    (a) a refusal that depends only on the ARGUMENTS (`raise ... "Unsupported filetype"`) comes before the file is opened for writing: open(path, 'w') truncates the
        existing file, so a raise that is only reachable after (or from inside) the `with <open for writing>` block destroys the caller's data while refusing the call;
    (b) a routine that was handed an open file object does not close it: `with f:` / `f.close()` on the parameter itself ends the caller's handle (the same open file can
        no longer be rewound and read again, or written further)."""
    obs = []
    n_a = n_b = 0
    for q in funcs:
        fn = repo.maybe_fn(q)
        if fn is None:
            continue
        params = [p for p in fn.params if p not in ("self", "cls")]
        # (a)
        wopen = []
        for w in [x for x in fn.own_nodes() if isinstance(x, ast.With)]:
            for it in w.items:
                ce = it.context_expr
                if isinstance(ce, ast.Call) and call_name(ce) in ("use_or_open", "open"):
                    mode = None
                    for k in ce.keywords:
                        if k.arg == "mode":
                            mode = const_value(k.value)
                    if mode is None and call_name(ce) == "open" and len(ce.args) > 1:
                        mode = const_value(ce.args[1])
                    if mode is None and call_name(ce) == "use_or_open" and len(ce.args) > 2:
                        mode = const_value(ce.args[2])
                    if isinstance(mode, str) and ("w" in mode or "a" in mode or "+" in mode):
                        wopen.append(w)
        if wopen:
            for r in [x for x in fn.own_nodes() if isinstance(x, ast.Raise)]:
                n_a += 1
                # does the refusal depend only on parameters / locals derived from them before the open?
                gs = norm_guards(fn, r)
                reads_written = any(isinstance(y, ast.Name) and any(isinstance(it.optional_vars, ast.Name) and it.optional_vars.id == y.id for w in wopen for it in w.items)
                                    for t, pol, k in gs for y in ast.walk(t))
                after = [w for w in wopen if w in list(fn.ancestors(r)) or fn.cfg.reaches(w, fn.stmt_of(r))]
                before_all = not after
                first = wopen[0]
                dominated = any(fn.cfg.dominates(w, fn.stmt_of(r)) or w in list(fn.ancestors(r)) for w in wopen)
                ok = before_all or reads_written or not dominated
                obs.append(Ob("G33", clause, fn, r, ok,
                              "refusal `%s` in %s %s" % (ast.unparse(r)[:50], fn.qualname, "is decided before any file is opened for writing" if before_all else (
                                  "depends on what was written" if reads_written else ("is not reached through the opened file on every path" if not dominated else
                                  "is reached only AFTER `%s` has opened (= truncated) the target file: the call is refused but the caller's existing file is already empty"
                                  % ast.unparse(first.items[0].context_expr)[:50]))),
                              slot="refuse-before-open:%s" % fn.qualname, positive="robust"))
        # (b)
        for w in [x for x in fn.own_nodes() if isinstance(x, ast.With)]:
            for it in w.items:
                ce = it.context_expr
                if isinstance(ce, ast.Name) and ce.id in params:
                    n_b += 1
                    # the parameter may have been re-bound to a file this routine opened itself on SOME path only: every reaching definition must be an open()
                    defs = fn.rd.defs_at(w, ce.id) if hasattr(fn.rd, "defs_at") else []
                    own = bool(defs) and all(isinstance(d, ast.Assign) and isinstance(d.value, ast.Call) and call_name(d.value) == "open" for d in defs)
                    obs.append(Ob("G33", clause, fn, w, own,
                                  "`with %s:` in %s %s" % (ce.id, fn.qualname, "closes a file this routine opened itself on every path" if own else
                                                           "closes the object the CALLER passed in (on the path where `%s` is still the caller's open file): the caller cannot rewind and "
                                                           "read it again, or go on writing to it" % ce.id),
                                  slot="closes-callers-handle:%s" % fn.qualname, positive="robust"))
        for c in [x for x in fn.own_nodes() if isinstance(x, ast.Call) and isinstance(x.func, ast.Attribute) and x.func.attr == "close"
                  and isinstance(x.func.value, ast.Name) and x.func.value.id in params]:
            n_b += 1
            defs = fn.rd.defs_at(fn.stmt_of(c), c.func.value.id)
            own = bool(defs) and all(isinstance(d, ast.Assign) and isinstance(d.value, ast.Call) and call_name(d.value) == "open" for d in defs)
            obs.append(Ob("G33", clause, fn, c, own, "`%s` in %s %s" % (ast.unparse(c), fn.qualname, "closes a file opened here" if own else "closes the caller's file object"),
                          slot="closes-callers-handle:%s" % fn.qualname, positive="robust"))
    f0 = repo.maybe_fn(funcs[0]) or repo.all_fns()[0]
    obs.append(Ob("G33", clause, f0, f0.node, True, "%d refusals beside a file opened for writing, %d closes of parameter objects inspected" % (n_a, n_b), construct="fault discipline inventory", slot="inventory"))
    return obs


def G36_refusal_before_mutation(repo, clause, func="Atoms.__delitem__"):
    """A deletion request with an index that does not exist is refused by numpy itself: `np.delete(self.<per-atom array>, indices, axis=0)` raises IndexError.  That is the
    only validation the request ever gets, so it has to come BEFORE the first update of the term arrays (which are filtered through a helper that never raises): otherwise
    the refused request has already dropped and renumbered terms, and the retry with valid indices works on a corrupted object."""
    fn = repo.fn(func)
    params = [p for p in fn.params if p not in ("self", "cls")]
    if not params:
        raise AnalysisError("G36: %s has no index parameter" % func)
    P = params[0]
    validating, others = [], []
    for st in fn.own_nodes():
        if not isinstance(st, ast.Assign):
            continue
        tg = [t for t in st.targets for t in ([t] + (list(t.elts) if isinstance(t, (ast.Tuple, ast.List)) else []))
              if isinstance(t, ast.Attribute) and isinstance(t.value, ast.Name) and t.value.id == "self"]
        if not tg:
            continue
        v = st.value
        def _callers_indices(a):
            # P itself (still the parameter), or a local that holds the same values in another order / container: sorted(P), list(P), np.asarray(P)
            if isinstance(a, ast.Name) and a.id == P:
                return bool(fn.rd.defs_at(st, P)) and all(not isinstance(d, ast.AST) for d in fn.rd.defs_at(st, P))
            if isinstance(a, ast.Name):
                uv = fn.rd.unique_value(a) if fn.stmt_of(a) is not None else None
                if uv is not None and isinstance(uv[1], ast.Call) and call_name(uv[1]) in ("sorted", "list", "tuple", "array", "asarray") and uv[1].args \
                        and isinstance(uv[1].args[0], ast.Name) and uv[1].args[0].id == P:
                    return True
            return False
        raw = isinstance(v, ast.Call) and call_name(v) == "delete" and len(v.args) >= 2 and _callers_indices(v.args[1])
        (validating if raw else others).append(st)
    if not validating:
        return [Ob("G36", clause, fn, fn.node, False, "no np.delete(self.<array>, %s, ...) with the caller's own index argument found in %s: cannot tell what validates the request" % (P, func),
                   construct="np.delete(self.x, %s, axis=0)" % P, slot="validating-delete", undecided=True)]
    obs = []
    first = validating[0]
    late = sorted([st for st in others if not any(fn.cfg.dominates(v_, st) for v_ in validating)], key=lambda x: x.lineno)
    obs.append(Ob("G36", clause, fn, late[0] if late else first, not late,
                  "%s: %s" % (func, "the first numpy deletion with the caller's indices (which raises IndexError for an index that does not exist) precedes every other update of the object"
                              if not late else "`%s` updates the object BEFORE any np.delete(..., %s, ...) has had the chance to refuse an invalid index: a refused request leaves terms already "
                              "dropped / renumbered, and the retry with valid indices then removes and shifts the wrong terms" % (ast.unparse(late[0])[:70], P)),
                  slot="refusal-first", positive="robust"))
    return obs


def G37_constructor_copies_arrays(repo, clause, func="Atoms.__init__"):
    """The constructor makes its OWN arrays (np.array copies).  A no-copy conversion of an argument - np.asarray / np.asanyarray / np.ascontiguousarray, np.array(..., copy=False),
    np.frombuffer - stored on the object makes two Atoms objects (or the object and the caller's array) share storage: every in-place update the class performs (translate `+=`,
    re-typing of mapped atoms in extend, the re-index helper's `out=`) then writes through to the other object."""
    fn = repo.fn(func)
    obs = []
    n = 0
    for st in [x for x in fn.own_nodes() if isinstance(x, ast.Assign)]:
        if not any(isinstance(t, ast.Attribute) and isinstance(t.value, ast.Name) and t.value.id == "self" for t in st.targets):
            continue
        n += 1
        for c in [y for y in ast.walk(st.value) if isinstance(y, ast.Call)]:
            nm = call_name(c)
            nocopy = nm in ("asarray", "asanyarray", "ascontiguousarray", "asfortranarray", "frombuffer") or \
                (nm == "array" and any(k.arg == "copy" and const_value(k.value) is False for k in c.keywords))
            if nocopy and c.args and any(isinstance(y, ast.Name) and y.id in fn.params for y in ast.walk(c.args[0])):
                obs.append(Ob("G37", clause, fn, st, False,
                              "`%s` in %s stores a NO-COPY conversion of the argument: when the caller passes an ndarray of that dtype (e.g. another Atoms object's array) both objects share "
                              "the storage, and the in-place updates of this class (re-typing of mapped atoms in extend, translate, re-indexing) modify the other object too"
                              % (ast.unparse(st)[:70], func), slot="no-copy-store:%s" % ast.unparse(st.targets[0]), positive="robust"))
    obs.append(Ob("G37", clause, fn, fn.node, True, "%d stores to self in %s inspected for no-copy conversions of arguments" % (n, func), construct="constructor copy inventory", slot="inventory"))
    return obs


def G38_tolerance_dimension(repo, clause, scope=ALL_LIB):
    """A deviation and the tolerance it is compared with have the same dimension: a SQUARED distance (`(d ** 2).sum()`, cdist(..., 'sqeuclidean')) compared with the linear
    tolerance `atol` is off by the square root - with atol = 0.05 the test `ss.max() <= atol` accepts deviations up to 0.22."""
    from .common import length_degree
    obs = []
    fns = _scope_fns(repo, scope)
    n = 0
    for fn in fns:
        if "atol" not in fn.params and not (fn.outer is not None and "atol" in fn.outer.params):
            continue
        for c in [x for x in fn.own_nodes() if isinstance(x, ast.Compare) and len(x.ops) == 1 and isinstance(x.ops[0], (ast.Lt, ast.LtE, ast.Gt, ast.GtE))]:
            l, r = c.left, c.comparators[0]
            tol_side = [e for e in (l, r) if isinstance(e, ast.Name) and e.id == "atol"]
            if len(tol_side) != 1:
                continue
            other = r if tol_side[0] is l else l
            try:
                d = length_degree(fn, other)
            except Exception:
                d = None
            n += 1
            if d is not None and d == 2:
                obs.append(Ob("G38", clause, fn, c, False,
                              "`%s` in %s compares a SQUARED length with the linear tolerance atol: the accepted deviation is sqrt(atol), not atol (0.22 instead of 0.05) - a slightly bent "
                              "pattern is taken for a straight one" % (ast.unparse(c)[:60], fn.qualname), slot="squared-vs-linear:%s" % fn.qualname, positive="robust"))
            else:
                obs.append(Ob("G38", clause, fn, c, True, "`%s` in %s: deviation of degree %s against atol" % (ast.unparse(c)[:50], fn.qualname, d), slot="tol-compare:%s:%s" % (fn.qualname, ast.unparse(other)[:30])))
    obs.append(Ob("G38", clause, fns[0], fns[0].node, True, "%d functions in scope, %d direct comparisons with atol inspected" % (len(fns), n), construct="tolerance dimension inventory", slot="inventory"))
    return obs


def E1p_section_protocol(repo, clause, func="Atoms.load_lmpdat"):
    """Protocol of the section scanner of the LAMMPS reader (shape-independent: only the state variable and the tests on it are looked at):
    (a) a section ENDS: inside the line loop the state variable that the row dispatch compares with the section names is reset to None on a path taken for blank lines -
        otherwise the rows of a following section the reader does not handle (PairIJ Coeffs, Velocities ...) are read as rows of the current one;
    (b) the section keyword is recognised on the line WITHOUT its comment: the name tested with `in <handled sections>` is, through every reaching definition, derived from the
        part in front of '#' (`Atoms # full`, `Pair Coeffs # lj/cut` are ordinary LAMMPS headers)."""
    fn = repo.fn(func)
    obs = []
    loops = [x for x in fn.own_nodes() if isinstance(x, ast.For)]
    # the state variable: compared with >= 5 different string constants
    cmp_count = {}
    for c in [x for x in fn.own_nodes() if isinstance(x, ast.Compare) and len(x.ops) == 1 and isinstance(x.ops[0], ast.Eq)]:
        l_, r_ = c.left, c.comparators[0]
        if isinstance(r_, ast.Name) and isinstance(const_value(l_), str):
            l_, r_ = r_, l_        # "Masses" == current_section
        if isinstance(l_, ast.Name) and isinstance(const_value(r_), str):
            cmp_count.setdefault(l_.id, set()).add(const_value(r_))
    state = [k for k, v in cmp_count.items() if len(v) >= 5]
    if len(state) != 1:
        return [Ob("E1p", clause, fn, fn.node, False, "section state variable of %s not identified (names compared with >= 5 section names: %s)" % (func, state), construct="current_section == '<name>'",
                   slot="state-variable", undecided=True)]
    S = state[0]
    loop = None
    for l in loops:
        if any(isinstance(x, ast.Compare) and any(isinstance(y, ast.Name) and y.id == S for y in [x.left] + list(x.comparators)) for x in ast.walk(l)):
            loop = l
            break
    if loop is None:
        return [Ob("E1p", clause, fn, fn.node, False, "line loop of %s not found" % func, slot="line-loop", undecided=True)]
    # (a)
    resets = [x for x in ast.walk(loop) if isinstance(x, ast.Assign) and any(isinstance(t, ast.Name) and t.id == S for t in x.targets) and isinstance(x.value, ast.Constant) and x.value.value is None]

    def _blank_guard(st):
        for t, pol, k in norm_guards(fn, st, stop=loop):
            parts = [(t, pol)]
            if isinstance(t, ast.BoolOp):
                parts += [(v, pol) for v in t.values]
            for pt, pl in parts:
                if isinstance(pt, ast.Compare) and len(pt.ops) == 1 and isinstance(pt.ops[0], ast.Eq) and const_value(pt.comparators[0]) == "" and pl:
                    return True
                if isinstance(pt, ast.Compare) and len(pt.ops) == 1 and isinstance(pt.ops[0], ast.NotEq) and const_value(pt.comparators[0]) == "" and not pl:
                    return True
                if isinstance(pt, ast.Name) and not pl:
                    return True      # `if not line:`
                ml = implied_min_len(pt, not pl)
                if ml is not None and ml[1] >= 1:
                    return True      # len(line) == 0 taken positively
        return False
    ends = [r for r in resets if _blank_guard(r)]
    obs.append(Ob("E1p", clause, fn, ends[0] if ends else loop, bool(ends),
                  "section state `%s` %s" % (S, "is reset to None on a blank-line path inside the line loop (a section ends)" if ends else
                                             "is NEVER reset to None on a blank line inside the line loop: once a handled section has started, the rows of any following section the reader does not "
                                             "handle are read as rows of that section (extra 'masses', extra 'atoms')"),
                  construct=None if ends else "for ... in f: ... %s = None" % S, slot="section-ends", positive="robust"))
    # (b)
    def _is_name_table(nm_):
        # a literal list / tuple / set of >= 5 section names (not a dict keyed by them: that is the row dispatch, tested on the state variable)
        for d_ in fn.own_nodes():
            if isinstance(d_, ast.Assign) and any(isinstance(t_, ast.Name) and t_.id == nm_ for t_ in d_.targets) and isinstance(d_.value, (ast.List, ast.Tuple, ast.Set)) \
                    and len(d_.value.elts) >= 5 and all(isinstance(const_value(e_), str) for e_ in d_.value.elts):
                return True
        return False
    tests = [x for x in ast.walk(loop) if isinstance(x, ast.Compare) and len(x.ops) == 1 and isinstance(x.ops[0], ast.In) and isinstance(x.left, ast.Name) and x.left.id != S
             and isinstance(x.comparators[0], ast.Name) and _is_name_table(x.comparators[0].id)]
    for t in tests:
        nm = t.left.id
        st = fn.stmt_of(t)

        def derives(stmt, name, depth=0, seen=None):
            seen = seen or set()
            defs = fn.rd.defs_at(stmt, name)
            if not defs or depth > 6:
                return False
            for d in defs:
                if not isinstance(d, ast.AST):
                    return False
                if id(d) in seen:
                    continue
                seen.add(id(d))
                v = d.value if isinstance(d, ast.Assign) else None
                if v is None:
                    return False     # loop target: the raw line
                if any(isinstance(y, ast.Call) and call_name(y) in ("split", "partition") and y.args and const_value(y.args[0]) == "#" for y in ast.walk(v)):
                    continue
                # taken only when the line has no '#' at all: nothing to strip
                no_hash = False
                for gt, gpol, gk in norm_guards(fn, d, stop=loop):
                    if isinstance(gt, ast.Compare) and len(gt.ops) == 1 and const_value(gt.left) == "#" and \
                            ((isinstance(gt.ops[0], ast.In) and not gpol) or (isinstance(gt.ops[0], ast.NotIn) and gpol)):
                        no_hash = True
                if no_hash:
                    continue
                src = [y.id for y in ast.walk(v) if isinstance(y, ast.Name) and isinstance(y.ctx, ast.Load)]
                src = [y for y in src if y not in ("np", "re")]
                if not src or not all(derives(d, y, depth + 1, seen) for y in src):
                    return False
            return True
        ok = derives(st, nm)
        obs.append(Ob("E1p", clause, fn, t, ok,
                      "section keyword test `%s` reads `%s`, which %s" % (ast.unparse(t), nm, "is the part of the line in front of '#' on every path" if ok else
                                                                         "can still carry the trailing comment (some reaching definition is the raw line): a header such as 'Atoms # full' or "
                                                                         "'Pair Coeffs # lj/cut' is not recognised and its rows are dropped or mis-filed"),
                      slot="keyword-without-comment", positive="robust"))
    if not tests:
        obs.append(Ob("E1p", clause, fn, loop, False, "section keyword test `<line> in <handled sections>` not found", slot="keyword-without-comment", undecided=True))
    return obs


def G39_argmin_then_second_criterion(repo, clause, scope=ALL_LIB):
    """`k = D.argmin(...)` picks ONE candidate by the first criterion (distance); a test `D[i, k] < tol and other[k] == wanted` then applies the second criterion to that winner
    only.  "Some candidate within the tolerance also satisfies the second criterion" is a different question: when two candidates are both within the tolerance (coincident atoms
    of a mixed-occupancy site) the nearest one may fail the second test while the other passes both, and it is never examined."""
    obs = []
    fns = _scope_fns(repo, scope)
    n = 0
    for fn in fns:
        picks = {}     # name -> (array text, node)
        for st in [x for x in fn.own_nodes() if isinstance(x, ast.Assign) and len(x.targets) == 1 and isinstance(x.targets[0], ast.Name)]:
            v = st.value
            if isinstance(v, ast.Call) and call_name(v) in ("argmin", "argmax", "nanargmin", "nanargmax"):
                arr = v.func.value if (isinstance(v.func, ast.Attribute) and not (isinstance(v.func.value, ast.Name) and v.func.value.id in ("np", "numpy"))) else (v.args[0] if v.args else None)
                if arr is not None:
                    picks[st.targets[0].id] = (ast.unparse(arr), st)
        if not picks:
            continue
        # loop targets that run over the picked indices: for i, j in enumerate(closest) / for j in closest / zip(..., closest)
        derived = dict(picks)
        for lp in [x for x in fn.own_nodes() if isinstance(x, (ast.For, ast.comprehension))]:
            it, tg = lp.iter, lp.target
            srcs = [a for a in (it.args if isinstance(it, ast.Call) and call_name(it) in ("enumerate", "zip") else [it]) if isinstance(a, ast.Name) and a.id in picks]
            if not srcs:
                continue
            names = [tg] if isinstance(tg, ast.Name) else [e for e in ast.walk(tg) if isinstance(e, ast.Name)]
            if isinstance(it, ast.Call) and call_name(it) == "enumerate" and isinstance(tg, ast.Tuple) and len(tg.elts) == 2 and isinstance(tg.elts[1], ast.Name):
                names = [tg.elts[1]]
            elif isinstance(it, ast.Call) and call_name(it) == "zip" and isinstance(tg, ast.Tuple):
                names = [tg.elts[i_] for i_, a in enumerate(it.args) if isinstance(a, ast.Name) and a.id in picks and i_ < len(tg.elts) and isinstance(tg.elts[i_], ast.Name)]
            for nm in names:
                derived[nm.id] = picks[srcs[0].id]
        for t in [x for x in fn.own_nodes() if isinstance(x, ast.BoolOp) and isinstance(x.op, ast.And) and len(x.values) >= 2]:
            for k, (arr_txt, st) in derived.items():
                def uses_k(e):
                    return any(isinstance(y, ast.Subscript) and any(isinstance(z, ast.Name) and z.id == k for z in ast.walk(y.slice)) for y in ast.walk(e))
                first = [v for v in t.values if uses_k(v) and arr_txt in ast.unparse(v) and isinstance(v, ast.Compare) and isinstance(v.ops[0], (ast.Lt, ast.LtE))]
                second = [v for v in t.values if uses_k(v) and arr_txt not in ast.unparse(v)]
                if first and second:
                    n += 1
                    obs.append(Ob("G39", clause, fn, t, False,
                                  "`%s` in %s applies the second criterion `%s` only to the ONE candidate chosen by `%s`: another candidate that is also within the tolerance and does "
                                  "satisfy it (a coincident atom of the right element) is never examined - 'nearest, then test' is not 'some admissible candidate passes the test'"
                                  % (ast.unparse(t)[:70], fn.qualname, ast.unparse(second[0])[:40], ast.unparse(st.value)[:40]), slot="argmin-then-filter:%s" % fn.qualname, positive="robust"))
    obs.append(Ob("G39", clause, fns[0], fns[0].node, True, "%d functions in scope, %d nearest-then-test conjunctions flagged" % (len(fns), n), construct="argmin pre-selection inventory", slot="inventory"))
    return obs


def G40_collision_test_per_element(repo, clause, scope=ALL_LIB):
    """A running set that collects what EARLIER items of an outer loop claimed (`to_delete`) is tested and updated element by element inside an inner loop over the elements of the
    current item: `for x in item: if x in seen: raise; seen.add(x)`.  An item that names one element twice (a match that reaches an atom through two periodic images) then collides
    with ITSELF and is refused although no other item overlaps it; the collision test belongs in front of the update, on the item as a whole (set(item) against seen)."""
    obs = []
    fns = _scope_fns(repo, scope)
    n = 0
    for fn in fns:
        for inner in [x for x in fn.own_nodes() if isinstance(x, ast.For) and isinstance(x.target, ast.Name)]:
            outer = [a for a in fn.ancestors(inner) if isinstance(a, (ast.For, ast.While))]
            if not outer:
                continue
            v = inner.target.id
            adds = [c for c in ast.walk(inner) if isinstance(c, ast.Call) and isinstance(c.func, ast.Attribute) and c.func.attr == "add" and isinstance(c.func.value, ast.Name)
                    and c.args and isinstance(c.args[0], ast.Name) and c.args[0].id == v]
            for a in adds:
                S = a.func.value.id
                # S is created outside the outer loop
                created_inside = any(isinstance(d, ast.Assign) and any(isinstance(t, ast.Name) and t.id == S for t in d.targets) for d in ast.walk(outer[-1]))
                if created_inside:
                    continue
                tests = [t for t in ast.walk(inner) if isinstance(t, ast.Compare) and len(t.ops) == 1 and isinstance(t.ops[0], ast.In) and isinstance(t.left, ast.Name) and t.left.id == v
                         and isinstance(t.comparators[0], ast.Name) and t.comparators[0].id == S]
                raising = [t for t in tests if any(isinstance(r, ast.Raise) and any(g is t or any(y is t for y in ast.walk(g)) for g, pol, k in norm_guards(fn, r)) for r in ast.walk(inner))]
                if raising:
                    n += 1
                    obs.append(Ob("G40", clause, fn, raising[0], False,
                                  "in %s the running set `%s` is tested (`%s`, then raise) and updated (`%s`) element by element inside the loop over ONE item's elements: an item that "
                                  "contains the same element twice collides with itself and is refused although it overlaps no other item" % (fn.qualname, S, ast.unparse(raising[0]), ast.unparse(a)),
                                  slot="self-collision:%s:%s" % (fn.qualname, S), positive="robust"))
    obs.append(Ob("G40", clause, fns[0], fns[0].node, True, "%d functions in scope, %d per-element collision tests flagged" % (len(fns), n), construct="collision test inventory", slot="inventory"))
    return obs
