"""Record, for every obligation enumerated on the CURRENT (confirmed-good) tree, the skeleton of the statement it
is anchored at.  A later failing obligation with the same key is a VIOLATION only if its statement has one of
these skeletons (near miss) or the rule marks it positive; otherwise it is UNDECIDED."""
import json
import os
import sys

ROOT = os.path.dirname(os.path.dirname(os.path.abspath(__file__)))
sys.path.insert(0, ROOT)
from verif_sa.facts import Repo  # noqa: E402
from rules.registry import PROPERTIES  # noqa: E402

repo = Repo(os.environ.get("VERIF_REPO", "/repo"))
refs = {}
seen = set()
fn_skels = {}
for p, spec in PROPERTIES.items():
    for entry in spec["rules"] + spec.get("thorough_rules", []):
        rule, kwargs = entry[0], (entry[2] if len(entry) > 2 else {})
        ck = (rule.__name__, repr(sorted(kwargs.items())))
        if ck in seen:
            continue
        seen.add(ck)
        for o in rule(repo, "ref", **kwargs):
            refs.setdefault(o.key, set()).add(o.skel)
            if o.fn_skel is not None:
                fn_skels[o.func] = o.fn_skel
from verif_sa.core import skeleton  # noqa: E402
for (_m, q), f in repo.fns.items():
    # every function of the package, not only those that carry an obligation today: a function absent here is NEW in the analysed tree
    fn_skels.setdefault(q, skeleton(f.node))
out = {k: sorted(v) for k, v in sorted(refs.items())}
out["__functions__"] = fn_skels
# positional parameter order of every public function (rule G22: the order is part of the interface - positional callers bind by position)
out["__signatures__"] = {q: [a.arg for a in f.node.args.posonlyargs + f.node.args.args] for (_m, q), f in sorted(repo.fns.items())
                         if not any(part.startswith("_") and not part.startswith("__") for part in q.split("."))}
with open(os.path.join(ROOT, "rules", "reference_shapes.json"), "w") as f:
    json.dump(out, f, indent=0, sort_keys=True)
print("reference shapes for %d obligation keys" % len(out))
