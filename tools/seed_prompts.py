"""Prepare scratch worktrees and prompt files for a round of seeded changes: one worktree per property under /tmp/wt/<prefix><id>, with
_seed/PROPERTY.txt = the property text + the list of ideas already recorded for it.  usage: seed_prompts.py <prefix> <prompt file> [ids...]"""
import glob
import json
import os
import subprocess
import sys

ROOT = os.path.dirname(os.path.dirname(os.path.abspath(__file__)))
prefix, prompt = sys.argv[1], sys.argv[2]
ids = sys.argv[3:]
props = {}
for l in open(os.path.join(ROOT, "properties.jsonl")):
    d = json.loads(l)
    props[d["id"]] = d
tried = {}
for m in sorted(glob.glob(os.path.join(ROOT, "seeded", "*", "meta.json"))):
    d = json.load(open(m))
    tried.setdefault(d["property"], []).append("%s: %s" % (d.get("function"), (d.get("what_changed") or "").replace("\n", " ")[:260]))
tpl = open(prompt).read()
os.makedirs("/tmp/wt", exist_ok=True)
for pid in (ids or sorted(props)):
    wt = "/tmp/wt/%s%s" % (prefix, pid)
    if not os.path.isdir(wt):
        subprocess.run(["git", "-C", "/repo", "worktree", "add", "-q", "--detach", wt, "HEAD"], check=True)
    os.makedirs(os.path.join(wt, "_seed"), exist_ok=True)
    p = props[pid]
    with open(os.path.join(wt, "_seed", "PROPERTY.txt"), "w") as f:
        f.write("PROPERTY %s: %s\n\n%s\n\nQuantified over: %s\n\n" % (pid, p["title"], p["statement"], p["quantifier"]["text"]))
        f.write("Code the property is anchored in: %s\n\n" % json.dumps(p.get("anchors"))[:1500])
        if not os.environ.get("NO_TRIED"):
            f.write("IDEAS ALREADY TRIED (do not repeat these):\n")
            for t in tried.get(pid, []):
                f.write(" - %s\n" % t)
    with open("/tmp/wt/prompt_%s%s.txt" % (prefix, pid), "w") as f:
        f.write(tpl.format(WT=wt))
    print(wt)
