import sys, os, time, json
sys.path.insert(0,'/verif')
from multiprocessing import Pool
from selftest import harness, benign
root = os.environ.get("VERIF_REPO","/repo")
t=time.time()
base = harness.evaluate(root)
print("baseline", {p:(len(r.get('violated',[])), r.get('error')) for p,r in base.items() if r.get('violated') or r.get('error')}, time.time()-t)
variants = list(benign.all_benign(root))
print(len(variants),"variants")
only = sys.argv[1] if len(sys.argv)>1 else None
if only: variants=[v for v in variants if only in v[0]]
with Pool(16) as pool:
    results = pool.map(harness.run_variant, [(root, vid, rel, src, None) for vid,rel,src in variants])
bad=0
for vid,res in results:
    new,err = harness.diff_against(base,res)
    if new or err:
        bad+=1
        print("==",vid)
        for p,k in new.items(): print("   NEW-VIOLATION",p,k[:3])
        seen=set()
        for p,e in err.items():
            if e in seen: continue
            seen.add(e); print("   ERROR",p,e[:230])
print("variants with false alarms:",bad,"of",len(results), "time",time.time()-t)
