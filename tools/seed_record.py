"""Record a confirmed seeded change under /verif/seeded/<id>/ (patch.diff, demo.py, meta.json).
usage: seed_record.py <worktree> <n> <property id>"""
import json
import os
import shutil
import subprocess
import sys

ROOT = os.path.dirname(os.path.dirname(os.path.abspath(__file__)))
sys.path.insert(0, ROOT)


def main():
    wt, n, prop = sys.argv[1], sys.argv[2], sys.argv[3]
    out = subprocess.run(["/venv/bin/python", os.path.join(ROOT, "tools", "seed_eval.py"), wt, n], capture_output=True, text=True).stdout
    d = json.loads(out)
    ok = d.get("demo_clean_exit") == 0 and d.get("demo_patched_exit", 0) != 0 and str(d.get("pytest_patched", "")).startswith("122 passed")
    sid = "%s-%s%s" % (prop, os.environ.get("SEED_ROUND", ""), n)
    if not ok:
        print(sid, "NOT CONFIRMED", {k: d.get(k) for k in ("demo_clean_exit", "demo_patched_exit", "pytest_patched", "apply_error")})
        return 1
    dst = os.path.join(ROOT, "seeded", sid)
    os.makedirs(dst, exist_ok=True)
    shutil.copy(os.path.join(wt, "_seed", "patch_%s.diff" % n), os.path.join(dst, "patch.diff"))
    shutil.copy(os.path.join(wt, "_seed", "demo_%s.py" % n), os.path.join(dst, "demo.py"))
    summ = {}
    try:
        for s in json.load(open(os.path.join(wt, "_seed", "SUMMARY.json"))):
            if str(s.get("n")) == str(n):
                summ = s
    except Exception:
        pass
    meta = {
        "id": sid,
        "property": prop,
        "origin": "independent sub-agent given only the property text and a scratch worktree of /repo (no access to /verif)",
        "file": summ.get("file"), "function": summ.get("function"),
        "what_changed": summ.get("what_changed"),
        "why_it_breaks_the_property": summ.get("why_it_breaks_the_property"),
        "needs_to_manifest": summ.get("needs_to_manifest"),
        "confirmed_by_me": {
            "worktree": "scratch git worktree of /repo HEAD outside /repo and /verif (removed afterwards)",
            "demo_on_clean_tree": "cd <worktree> && /venv/bin/python _seed/demo_%s.py -> exit %s" % (n, d["demo_clean_exit"]),
            "demo_with_patch": "git apply patch.diff && /venv/bin/python _seed/demo_%s.py -> exit %s" % (n, d["demo_patched_exit"]),
            "pinned_tests_with_patch": "/venv/bin/python -m pytest -q -p no:cacheprovider --timeout=900 -> %s" % d["pytest_patched"],
        },
        "how_to_run_checks": "git -C /repo apply /verif/seeded/%s/patch.diff; ./check %s; git -C /repo checkout -- ." % (sid, prop),
    }
    with open(os.path.join(dst, "meta.json"), "w") as f:
        json.dump(meta, f, indent=1)
    caught = sorted(d.get("new_violations", {}))
    print(sid, "recorded; caught by", caught, "| own:", prop in caught, "| errors", sorted(d.get("analysis_errors", {})))
    return 0


if __name__ == "__main__":
    sys.exit(main())
