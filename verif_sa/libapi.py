"""Read (never import) the installed PyCifRW source and answer API-existence questions."""
import ast
import glob
import importlib.util
import os
import re

from .core import AnalysisError


class CifApi:
    def __init__(self):
        spec = importlib.util.find_spec("CifFile")
        if spec is None or not spec.submodule_search_locations:
            raise AnalysisError("PyCifRW (package CifFile) is not installed in this environment; A20 cannot be decided")
        self.dir = list(spec.submodule_search_locations)[0]
        self.classes = {}     # name -> (bases, set of attrs, has_getattr)
        self.module_names = set()
        self.version = self._version()
        init = self._parse(os.path.join(self.dir, "__init__.py"))
        mods = {}
        for n in ast.walk(init):
            if isinstance(n, ast.ImportFrom) and n.level == 1:
                for a in n.names:
                    self.module_names.add(a.asname or a.name)
                mods[n.module] = True
        for m in sorted(mods) + ["StarFile", "CifFile_module"]:
            p = os.path.join(self.dir, m + ".py")
            if os.path.exists(p):
                self._scan(self._parse(p))

    def _version(self):
        site = os.path.dirname(self.dir)
        for d in glob.glob(os.path.join(site, "[Pp]y[Cc]if[Rr][Ww]-*.dist-info")) + glob.glob(os.path.join(site, "pycifrw-*.dist-info")):
            m = re.search(r"-([0-9][^-/]*)\.dist-info$", d)
            if m:
                return m.group(1)
        return "?"

    def _parse(self, path):
        with open(path, encoding="utf-8", errors="replace") as f:
            return ast.parse(f.read(), filename=path)

    def _scan(self, tree):
        for n in tree.body:
            if isinstance(n, ast.ClassDef):
                attrs = set()
                has_getattr = False
                for b in n.body:
                    if isinstance(b, (ast.FunctionDef, ast.AsyncFunctionDef)):
                        attrs.add(b.name)
                        if b.name in ("__getattr__", "__getattribute__"):
                            has_getattr = True
                        for x in ast.walk(b):
                            if isinstance(x, ast.Attribute) and isinstance(x.ctx, ast.Store) and isinstance(x.value, ast.Name) and x.value.id == "self":
                                attrs.add(x.attr)
                    elif isinstance(b, ast.Assign):
                        for t in b.targets:
                            if isinstance(t, ast.Name):
                                attrs.add(t.id)
                bases = []
                for b in n.bases:
                    if isinstance(b, ast.Attribute):
                        bases.append(b.attr)
                    elif isinstance(b, ast.Name):
                        bases.append(b.id)
                self.classes.setdefault(n.name, (bases, attrs, has_getattr))
            elif isinstance(n, (ast.FunctionDef, ast.AsyncFunctionDef)):
                pass

    def mro(self, cls):
        out = []
        todo = [cls]
        while todo:
            c = todo.pop(0)
            if c in out:
                continue
            out.append(c)
            if c in self.classes:
                todo.extend(self.classes[c][0])
        return out

    def class_has(self, cls, attr):
        if cls not in self.classes:
            raise AnalysisError("class %s not found in the installed PyCifRW source" % cls)
        for c in self.mro(cls):
            if c in ("object", "dict", "list"):
                if attr in dir(dict) and c == "dict" or attr in dir(list) and c == "list" or attr in dir(object):
                    return True
                continue
            if c not in self.classes:
                raise AnalysisError("base class %s of %s cannot be resolved in PyCifRW source" % (c, cls))
            bases, attrs, has_getattr = self.classes[c]
            if has_getattr:
                raise AnalysisError("%s defines __getattr__; attribute existence cannot be decided statically" % c)
            if attr in attrs:
                return True
        return False

    def module_has(self, name):
        return name in self.module_names
