"""setup_cmd: verify the engine on tiny positive examples (imports nothing from mofun)."""
import ast
import sys
import textwrap

from .core import AnalysisError


class _Mod:
    name = "selfcheck"
    relpath = "selfcheck.py"
    imports = {"np": ("numpy", None), "copy": ("copy", None)}


def _fn(src):
    from .facts import Fn
    node = ast.parse(textwrap.dedent(src)).body[0]
    return Fn(None, _Mod(), node, node.name)


def main():
    from .dataflow import expand, nf
    from .cfg import guards
    from .pe import decision_list, P
    f = _fn("""
    def f(a, b):
        x = a + b
        if x > 0:
            return x
        for i in range(3):
            if i == b:
                continue
            y = x * i
        raise ValueError()
    """)
    cfg = f.cfg
    ret = [n for n in f.own_nodes() if isinstance(n, ast.Return)][0]
    assert cfg.reaches(cfg.ENTRY, ret), "cfg reachability"
    assert cfg.postdominates(ret, cfg.ENTRY), "post-dominance is taken w.r.t. the normal exit (raise paths are ignored)"
    y = [n for n in f.own_nodes() if isinstance(n, ast.Assign) and n.targets[0].id == "y"][0]
    g = guards(f, y)
    assert any(k == "early-exit" and pol is False for t, pol, k in g), "early-exit guard"
    e = expand(f, y.value)
    assert ast.unparse(e) == "(a + b) * i", ast.unparse(e)
    assert nf(ast.parse("a+b*c", mode="eval").body) == nf(ast.parse("c*b+a", mode="eval").body), "AC normal form"
    d1 = decision_list(ast.parse("def g(p,q):\n    if p == q:\n        return {p,q}\n    return p*q+1").body[0], {"p": P("p"), "q": P("q")})
    d2 = decision_list(ast.parse("def g(p,q):\n    if p == q:\n        return {p,q}\n    return p*q+1").body[0], {"p": P("q"), "q": P("p")})
    assert d1 == d2, "symmetric function must have equal decision lists"
    d3 = decision_list(ast.parse("def g(p,q):\n    return p-q").body[0], {"p": P("q"), "q": P("p")})
    d4 = decision_list(ast.parse("def g(p,q):\n    return p-q").body[0], {"p": P("p"), "q": P("q")})
    assert d3 != d4, "asymmetric function must be refuted"
    from .siblings import compare_pieces, Piece
    pa = {"bond": Piece(ast.parse("self.bonds = x.reshape((-1, 2))").body[0], None, "stmt"),
          "angle": Piece(ast.parse("self.angles = x.reshape((-1, 3))").body[0], None, "stmt")}
    assert not compare_pieces(pa, ["bond", "angle"]), "arity vector must unify"
    pb = {"bond": Piece(ast.parse("self.bonds = x.reshape((-1, 2))").body[0], None, "stmt"),
          "angle": Piece(ast.parse("self.angles = x.reshape((-1, 2))").body[0], None, "stmt"),
          "dihedral": Piece(ast.parse("self.dihedrals = x.reshape((-1, 4))").body[0], None, "stmt")}
    assert compare_pieces(pb, ["bond", "angle", "dihedral"]), "wrong arity must deviate"
    print("selfcheck: engine ok (cfg, guards, expand, normal form, decision lists, siblings)")
    return 0


if __name__ == "__main__":
    try:
        sys.exit(main())
    except AssertionError as e:
        print("ANALYSIS-ERROR selfcheck failed: %s" % e)
        sys.exit(2)
