"""Anti-unification of sibling blocks: the statement groups that exist once per *kind*
(bond / angle / dihedral / improper) must agree up to declared parameter vectors."""
import ast
import copy
import re

KINDS = ("bond", "angle", "dihedral", "improper")
ALIAS = {"torsion": "dihedral"}
VECTORS = {
    "ARITY": {"bond": 2, "angle": 3, "dihedral": 4, "improper": 4},
    "OFFSET_SLOT": {"bond": 1, "angle": 2, "dihedral": 3, "improper": 4},
}
STOP_TOKENS = ("_cell_angle_",)   # identifiers/strings in which 'angle' is not the term kind


def tokens(node):
    for n in ast.walk(node):
        if isinstance(n, ast.Name):
            yield n.id
        elif isinstance(n, ast.Attribute):
            yield n.attr
        elif isinstance(n, ast.Constant) and isinstance(n.value, str):
            yield n.value
        elif isinstance(n, (ast.arg, ast.keyword)) and n.arg:
            yield n.arg


def kinds_of_text(s):
    sl = s.lower()
    for st in STOP_TOKENS:
        sl = sl.replace(st, "_")
    ks = set()
    for k in KINDS:
        if k in sl:
            ks.add(k)
    for a, k in ALIAS.items():
        if a in sl:
            ks.add(k)
    return ks


def kinds_in(node):
    ks = set()
    for s in tokens(node):
        ks |= kinds_of_text(s)
    return ks


def kinds_in_list(nodes):
    ks = set()
    for n in nodes:
        ks |= kinds_in(n)
    return ks


def norm_ident(s, k):
    for a, kk in ALIAS.items():
        if kk == k:
            s = re.sub(a, "KIND", s)
            s = re.sub(a.capitalize(), "Kind", s)
    s = re.sub(k, "KIND", s)
    s = re.sub(k.capitalize(), "Kind", s)
    s = re.sub(k.upper(), "KIND_U", s)
    return s


class Piece:
    """A per-kind piece of code: an AST node plus where it came from."""

    def __init__(self, node, origin, role):
        self.node = node
        self.origin = origin      # the statement it was cut from (for line numbers)
        self.role = role          # 'stmt', 'arm', 'elt', 'kwarg:<name>'

    @property
    def lineno(self):
        return getattr(self.node, "lineno", None) or getattr(self.origin, "lineno", 0)


def _is_doc(st):
    return isinstance(st, ast.Expr) and isinstance(st.value, ast.Constant) and isinstance(st.value.value, str)


def collect_buckets(body, notes):
    """Cut a function body into per-kind pieces.  ``notes`` receives (node, message) for constructs
    that mix kinds in a way the cutter cannot separate (reported as deviations)."""
    buckets = {k: [] for k in KINDS}

    def add(k, node, origin, role):
        buckets[k].append(Piece(node, origin, role))

    def split_expr(e, origin, role):
        ks = kinds_in(e)
        if not ks:
            return
        if len(ks) == 1:
            add(next(iter(ks)), e, origin, role)
            return
        if isinstance(e, (ast.Tuple, ast.List)):
            for x in e.elts:
                split_expr(x, origin, "elt")
        elif isinstance(e, ast.Call):
            fk = kinds_in(e.func)
            if len(fk) == 1:
                # a single-kind callee receiving a foreign-kind argument
                k = next(iter(fk))
                add(k, e, origin, role)
                notes.append((e, "foreign kind token(s) %s inside a %s construct: %s" % (sorted(ks - {k}), k, ast.unparse(e)[:90])))
                return
            for a in e.args:
                split_expr(a, origin, "elt")
            for kw in e.keywords:
                kk = kinds_in(kw.value) | (kinds_of_text(kw.arg) if kw.arg else set())
                if len(kk) == 1:
                    add(next(iter(kk)), ast.keyword(arg=kw.arg, value=kw.value), origin, "kwarg")
                elif len(kk) > 1:
                    if kw.arg and len(kinds_of_text(kw.arg)) == 1:
                        k = next(iter(kinds_of_text(kw.arg)))
                        add(k, ast.keyword(arg=kw.arg, value=kw.value), origin, "kwarg")
                        notes.append((kw.value, "keyword %s of kind %s receives a value of kind %s" % (kw.arg, k, sorted(kinds_in(kw.value)))))
                    else:
                        split_expr(kw.value, origin, "elt")
        else:
            notes.append((e, "mixed-kind expression cannot be separated: %s" % ast.unparse(e)[:90]))

    def collect(stmts):
        for st in stmts:
            if _is_doc(st):
                continue
            if isinstance(st, (ast.FunctionDef, ast.AsyncFunctionDef, ast.ClassDef)):
                continue
            ks = kinds_in(st)
            if not ks:
                continue
            if len(ks) == 1:
                add(next(iter(ks)), st, st, "stmt")
                continue
            if isinstance(st, ast.If):
                cur = st
                while True:
                    kt = kinds_in(cur.test)
                    kb = kinds_in_list(cur.body)
                    allk = kt | kb
                    if len(allk) == 1:
                        arm = ast.If(test=cur.test, body=cur.body, orelse=[])
                        arm.lineno = cur.lineno
                        add(next(iter(allk)), arm, cur, "arm")
                    elif len(kt) == 1 and len(kb) > 1:
                        k = next(iter(kt))
                        arm = ast.If(test=cur.test, body=cur.body, orelse=[])
                        arm.lineno = cur.lineno
                        add(k, arm, cur, "arm")
                        nested = [x for x in cur.body if isinstance(x, ast.If) and len(kinds_in(x.test)) == 1 and not (kinds_in(x.test) & {k})
                                  and kinds_in_list(x.body) <= kinds_in(x.test)]
                        if nested:
                            k2 = next(iter(kinds_in(nested[0].test)))
                            notes.append((nested[0], "NESTED-KIND: the whole %s block (`if %s:` ...) sits INSIDE the branch taken only when `%s` holds: for an object with %ss but no %ss "
                                          "the %s step is silently skipped (its sibling blocks are not nested in one another)" % (
                                              k2, ast.unparse(nested[0].test)[:50], ast.unparse(cur.test)[:50], k2, k, k2)))
                        notes.append((cur, "branch selected by a %s test handles other kinds %s" % (k, sorted(kb - {k}))))
                    else:
                        split_expr(cur.test, cur, "test") if kt else None
                        collect(cur.body)
                    if len(cur.orelse) == 1 and isinstance(cur.orelse[0], ast.If):
                        cur = cur.orelse[0]
                    else:
                        collect(cur.orelse)
                        break
            elif isinstance(st, (ast.For, ast.While, ast.With, ast.Try)):
                for fld in ("body", "orelse", "finalbody"):
                    collect(getattr(st, fld, []) or [])
                for h in getattr(st, "handlers", []) or []:
                    collect(h.body)
            elif isinstance(st, ast.Assign):
                tk = set()
                for t in st.targets:
                    tk |= kinds_in(t)
                if len(tk) == 1:
                    k = next(iter(tk))
                    add(k, st, st, "stmt")
                    notes.append((st, "foreign kind token(s) %s inside the %s statement: %s" % (
                        sorted(ks - {k}), k, ast.unparse(st)[:100])))
                elif len(tk) > 1 and len(st.targets) == 1 and isinstance(st.targets[0], (ast.Tuple, ast.List)):
                    t = st.targets[0]
                    if isinstance(st.value, (ast.Tuple, ast.List)) and len(st.value.elts) == len(t.elts):
                        for te, ve in zip(t.elts, st.value.elts):
                            pair = ast.Assign(targets=[te], value=ve)
                            pair.lineno = st.lineno
                            kk = kinds_in(pair)
                            if len(kk) == 1:
                                add(next(iter(kk)), pair, st, "stmt")
                            elif len(kk) > 1:
                                notes.append((st, "mixed kinds in parallel assignment element %s" % ast.unparse(pair)[:80]))
                    else:
                        for i, te in enumerate(t.elts):
                            kk = kinds_in(te)
                            if len(kk) == 1:
                                add(next(iter(kk)), ast.Tuple(elts=[te, ast.Constant(i)], ctx=ast.Load()), st, "target")
                        split_expr(st.value, st, "elt")
                else:
                    split_expr(st.value, st, "elt")
            elif isinstance(st, (ast.Return, ast.Expr)) and st.value is not None:
                split_expr(st.value, st, "elt")
            elif isinstance(st, ast.AugAssign):
                tk = kinds_in(st.target)
                if len(tk) == 1:
                    k = next(iter(tk))
                    add(k, st, st, "stmt")
                    notes.append((st, "foreign kind token(s) %s inside the %s statement" % (sorted(ks - {k}), k)))
            else:
                notes.append((st, "mixed-kind statement of type %s" % type(st).__name__))

    collect(body)
    return buckets


# ---- shapes --------------------------------------------------------------------------------------

_SKIP_FIELDS = ("ctx", "lineno", "col_offset", "end_lineno", "end_col_offset", "type_comment", "kind")


def _strip_raise_messages(node):
    class T(ast.NodeTransformer):
        def visit_Raise(self, n):
            return ast.Raise(exc=ast.Name("EXC", ast.Load()), cause=None)
    return T().visit(copy.deepcopy(node))


def _fold_label_comprehension(n):
    """["..._%d" % i for i in [1,2,3]]  ->  list of the folded strings."""
    if isinstance(n, ast.ListComp) and len(n.generators) == 1 and not n.generators[0].ifs:
        g = n.generators[0]
        if isinstance(g.iter, (ast.List, ast.Tuple)) and all(isinstance(e, ast.Constant) for e in g.iter.elts) \
                and isinstance(g.target, ast.Name) and isinstance(n.elt, ast.BinOp) and isinstance(n.elt.op, ast.Mod) \
                and isinstance(n.elt.left, ast.Constant) and isinstance(n.elt.left.value, str) \
                and isinstance(n.elt.right, ast.Name) and n.elt.right.id == g.target.id:
            try:
                return ast.List(elts=[ast.Constant(n.elt.left.value % e.value) for e in g.iter.elts], ctx=ast.Load())
            except Exception:
                return n
    return n


def _template(e):
    """Split an element into (template string, running value) where the running value is the single
    trailing integer of a string, a single small int constant, or a single fresh name."""
    holes = []

    def rec(n):
        if isinstance(n, ast.Constant) and isinstance(n.value, str):
            m = re.match(r"^(.*?)(\d+)$", n.value)
            if m:
                holes.append(("s", int(m.group(2))))
                return "S(%s#)" % m.group(1)
            return "S(%s)" % n.value
        if isinstance(n, ast.Constant) and isinstance(n.value, int) and not isinstance(n.value, bool):
            holes.append(("i", n.value))
            return "I#"
        if isinstance(n, ast.Name):
            return "N(%s)" % n.id
        if isinstance(n, ast.AST):
            parts = []
            for f, v in ast.iter_fields(n):
                if f in _SKIP_FIELDS:
                    continue
                if isinstance(v, list):
                    parts.append("[" + ",".join(rec(x) if isinstance(x, ast.AST) else repr(x) for x in v) + "]")
                elif isinstance(v, ast.AST):
                    parts.append(rec(v))
                else:
                    parts.append(repr(v))
            return "%s(%s)" % (type(n).__name__, ",".join(parts))
        return repr(n)
    t = rec(e)
    return t, holes


def _runs(elts):
    """Collapse maximal runs of >= 2 consecutive elements that are equal up to ONE running hole
    (k, k+1, ...) or up to the names of single-letter variables."""
    out = []
    i = 0
    n = len(elts)
    while i < n:
        t0, h0 = _template(elts[i])
        j = i + 1
        if len(h0) == 1:
            while j < n:
                tj, hj = _template(elts[j])
                if tj == t0 and len(hj) == 1 and hj[0][0] == h0[0][0] and hj[0][1] == h0[0][1] + (j - i):
                    j += 1
                else:
                    break
        if j - i >= 2:
            out.append(("run", j - i, h0[0][1], elts[i]))
            i = j
            continue
        # runs of distinct bare names (tuple targets a, b, c)
        if isinstance(elts[i], ast.Name):
            j = i + 1
            while j < n and isinstance(elts[j], ast.Name):
                j += 1
            if j - i >= 2 and j - i == n:
                out.append(("names", j - i, None, None))
                i = j
                continue
        # runs of calls identical up to one bare name argument: f(a), f(b), f(c)
        tn = _name_template(elts[i])
        if tn is not None:
            j = i + 1
            while j < n and _name_template(elts[j]) == tn:
                j += 1
            if j - i >= 2:
                out.append(("nrun", j - i, None, elts[i]))
                i = j
                continue
        out.append(("one", 1, None, elts[i]))
        i += 1
    return out


def _name_template(e):
    if not isinstance(e, ast.Call):
        return None
    if len(e.args) != 1 or not isinstance(e.args[0], ast.Name) or e.keywords:
        return None
    c = copy.deepcopy(e)
    c.args[0].id = "_v"
    return ast.dump(c)


def shape(node, k):
    """Flat pre-order list of tagged values; sibling shapes are compared position by position."""
    out = []

    def rec(n):
        if isinstance(n, ast.AST):
            n = _fold_label_comprehension(n)
            if isinstance(n, ast.Name):
                out.append(("Name", norm_ident(n.id, k)))
                return
            if isinstance(n, ast.Constant):
                v = n.value
                if isinstance(v, str):
                    text = norm_ident(v, k)
                    nd = len(re.findall(r"%d", v))
                    out.append(("Str", re.sub(r"(%d ?)+", "<%d+>", text), nd))
                elif isinstance(v, bool) or v is None:
                    out.append(("Const", v))
                elif isinstance(v, (int, float)):
                    out.append(("Num", v))
                else:
                    out.append(("Const", repr(v)))
                return
            if isinstance(n, (ast.Tuple, ast.List)):
                runs = _runs(n.elts)
                out.append(("Seq", type(n).__name__, len(runs)))
                for tag, cnt, k0, rep in runs:
                    if tag == "run":
                        out.append(("Run", cnt, k0))
                        t, _ = _template(rep)
                        out.append(("RunT", norm_ident(t, k)))
                    elif tag == "names":
                        out.append(("Names", cnt))
                    elif tag == "nrun":
                        out.append(("Run", cnt, None))
                        out.append(("RunT", norm_ident(_name_template(rep), k)))
                    else:
                        rec(rep)
                return
            if isinstance(n, ast.Call) and len(n.args) >= 2:
                runs = _runs(n.args)
                if any(t in ("run", "nrun") for t, _, _, _ in runs):
                    out.append(("Node", "Call"))
                    rec(n.func)
                    out.append(("Args", len(runs)))
                    for tag, cnt, k0, rep in runs:
                        if tag == "run":
                            out.append(("Run", cnt, k0))
                            t, _ = _template(rep)
                            out.append(("RunT", norm_ident(t, k)))
                        elif tag == "nrun":
                            out.append(("Run", cnt, None))
                            out.append(("RunT", norm_ident(_name_template(rep), k)))
                        else:
                            rec(rep)
                    out.append(("List", len(n.keywords)))
                    for kw in n.keywords:
                        rec(kw)
                    return
            out.append(("Node", type(n).__name__))
            for f, v in ast.iter_fields(n):
                if f in _SKIP_FIELDS:
                    continue
                if f in ("attr", "arg", "name", "id"):
                    out.append(("Id", norm_ident(v, k) if isinstance(v, str) else v))
                    continue
                rec(v)
        elif isinstance(n, list):
            out.append(("List", len(n)))
            for x in n:
                rec(x)
        else:
            out.append(("Val", n))

    rec(_strip_raise_messages(node))
    return out


def piece_key(piece, k):
    """Alignment key of a piece: what it defines / tests, with the kind abstracted.  Pieces of different
    kinds that play the same role get the same key, whatever their position in the function."""
    n = piece.node
    if isinstance(n, ast.Assign):
        return ("assign", norm_ident(ast.unparse(n.targets[0]), k))
    if isinstance(n, ast.AugAssign):
        return ("aug", norm_ident(ast.unparse(n.target), k))
    if isinstance(n, ast.If):
        return ("if", norm_ident(ast.unparse(n.test), k))
    if isinstance(n, ast.keyword):
        return ("kw", norm_ident(n.arg or "", k))
    if isinstance(n, ast.Expr) and isinstance(n.value, ast.Call):
        return ("call", norm_ident(ast.unparse(n.value.func), k), norm_ident(ast.unparse(n.value)[:60], k))
    return ("expr", norm_ident(ast.unparse(n)[:80], k) if isinstance(n, ast.AST) else "")


def align(buckets, ks):
    """Order every kind's pieces so that pieces with equal keys line up (stable within equal keys)."""
    out = {}
    for k in ks:
        keyed = [(piece_key(p, k), i, p) for i, p in enumerate(buckets[k])]
        keyed.sort(key=lambda t: (repr(t[0]), t[1]))
        out[k] = [p for _, _, p in keyed]
    return out


def compare_pieces(pieces, ks):
    """pieces: {kind: Piece}.  Returns list of (message) deviations."""
    shapes = {k: shape(pieces[k].node, k) for k in ks}
    devs = []
    lens = {len(s) for s in shapes.values()}
    if len(lens) > 1:
        # find first differing position for the message
        m = min(lens)
        pos = next((i for i in range(m) if len({repr(shapes[k][i]) for k in ks}) > 1), m)
        devs.append("blocks have different structure (first difference at node #%d: %s)" % (
            pos, "; ".join("%s=%s" % (k, shapes[k][pos] if pos < len(shapes[k]) else "<end>") for k in ks)))
        return devs
    for pos in range(next(iter(lens))):
        col = [shapes[k][pos] for k in ks]
        if all(c == col[0] for c in col):
            continue
        tags = {c[0] for c in col}
        ok = False
        if tags == {"Num"}:
            vals = [c[1] for c in col]
            for name, vec in VECTORS.items():
                if vals == [vec[k] for k in ks]:
                    ok = True
        elif tags == {"Str"}:
            texts = {c[1] for c in col}
            if len(texts) == 1:
                diffs = {c[2] - VECTORS["ARITY"][k] for c, k in zip(col, ks)}
                ok = len(diffs) == 1
        elif tags == {"Run"}:
            ok = [c[1] for c in col] == [VECTORS["ARITY"][k] for k in ks] and len({c[2] for c in col}) == 1
        elif tags == {"Names"}:
            ok = [c[1] for c in col] == [VECTORS["ARITY"][k] for k in ks]
        if not ok:
            devs.append("position %d differs beyond the declared per-kind parameters: %s" % (
                pos, "; ".join("%s=%s" % (k, c[1:]) for k, c in zip(ks, col))))
    return devs
